// Package captb provides a testing.TB that captures Fatal/Error/Skip instead
// of failing the real test: the helper under test is stopped by a sentinel
// panic, exactly as runtime.Goexit would stop it.
package captb

import (
	"fmt"
	"testing"
)

type sentinel struct{ kind string }

// T is a capturing testing.TB.
type T struct {
	testing.TB // nil: every method the helpers may call is overridden below
	Fatals     []string
	Errors     []string
	DidSkip    bool
	SkipMsg    string
	Logs       []string
	cleanups   []func()
	name       string
}

func New(name string) *T { return &T{name: name} }

func (t *T) Helper()      {}
func (t *T) Name() string { return t.name }
func (t *T) Log(a ...any) { t.Logs = append(t.Logs, fmt.Sprint(a...)) }
func (t *T) Logf(f string, a ...any) {
	t.Logs = append(t.Logs, fmt.Sprintf(f, a...))
}
func (t *T) Error(a ...any) { t.Errors = append(t.Errors, fmt.Sprint(a...)) }
func (t *T) Errorf(f string, a ...any) {
	t.Errors = append(t.Errors, fmt.Sprintf(f, a...))
}
func (t *T) Fail()        { t.Errors = append(t.Errors, "Fail()") }
func (t *T) Failed() bool { return len(t.Errors) > 0 || len(t.Fatals) > 0 }
func (t *T) FailNow() {
	t.Fatals = append(t.Fatals, "FailNow()")
	panic(sentinel{"fatal"})
}
func (t *T) Fatal(a ...any) {
	t.Fatals = append(t.Fatals, fmt.Sprint(a...))
	panic(sentinel{"fatal"})
}
func (t *T) Fatalf(f string, a ...any) {
	t.Fatals = append(t.Fatals, fmt.Sprintf(f, a...))
	panic(sentinel{"fatal"})
}
func (t *T) Skip(a ...any) {
	t.DidSkip, t.SkipMsg = true, fmt.Sprint(a...)
	panic(sentinel{"skip"})
}
func (t *T) Skipf(f string, a ...any) {
	t.DidSkip, t.SkipMsg = true, fmt.Sprintf(f, a...)
	panic(sentinel{"skip"})
}
func (t *T) SkipNow() {
	t.DidSkip = true
	panic(sentinel{"skip"})
}
func (t *T) Skipped() bool      { return t.DidSkip }
func (t *T) Cleanup(f func())   { t.cleanups = append(t.cleanups, f) }
func (t *T) Setenv(k, v string) {}
func (t *T) TempDir() string    { return "" }

// Run executes f with the capturing TB. It returns the value of a foreign
// panic (nil if none); Fatal/Skip sentinels are absorbed.
func (t *T) Run(f func(tb testing.TB)) (foreign any) {
	defer func() {
		for i := len(t.cleanups) - 1; i >= 0; i-- {
			t.cleanups[i]()
		}
		t.cleanups = nil
	}()
	defer func() {
		if r := recover(); r != nil {
			if _, ok := r.(sentinel); !ok {
				foreign = r
			}
		}
	}()
	f(t)
	return nil
}

// Fataled reports whether the helper called Fatal*/FailNow.
func (t *T) Fataled() bool { return len(t.Fatals) > 0 }
