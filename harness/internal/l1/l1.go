// Package l1 runs generated histories directly against the rib package API
// ("L1") with the relation model, the pure fold and the step invariants
// I1-I3. It is shared by C01, C02, C03 and C16.
package l1

import (
	"fmt"
	"runtime/debug"
	"strings"

	"google.golang.org/protobuf/proto"

	spb "github.com/openconfig/gribi/v1/proto/service"
	"github.com/openconfig/gribigo/rib"

	"verifh/internal/clock"
	"verifh/internal/drive"
	"verifh/internal/ev"
	"verifh/internal/gen"
	"verifh/internal/hgen"
	"verifh/internal/model"
	"verifh/internal/obs"
)

// Opts selects which oracle clauses are active; sigs are prefixed with P.
type Opts struct {
	P string // signature prefix, e.g. "C01"
	// Trusted: payloads come from a generator of schema-valid payloads.
	Trusted bool
	// Closure: check I4 (no installed entry dangles) while no partial flush happened.
	Closure bool
	// AfterStep is called after every step with the real RIB and the model.
	AfterStep func(step int, r *rib.RIB, m *model.RIB, v *ev.Verdict)
	// Setup is called once with the fresh RIB (before VRFs are added when Early).
	Setup func(r *rib.RIB)
	// NoVRFs: do not create VRF-A / VRF-B up front (the caller does).
	NoVRFs bool
	// ObserveEvery > 1: read the whole RIB back (and compare it with the fold and the
	// model) only every n-th step and after the last one; results, held set and
	// counters are still checked after every step. For histories with hundreds of entries.
	ObserveEvery int
	// RIBOpts are further options for rib.New (e.g. rib.DisableRIBCheckFn()).
	RIBOpts []rib.RIBOpt
	// NoRefCheck: the RIB is built with rib.DisableRIBCheckFn() and the model does no
	// reference checking either (everything schema-valid is installed at once, nothing is
	// protected from deletion); reference counters are not compared in this configuration.
	NoRefCheck bool
	// LateVRF > 0: the last instance (VRF-B) is created with RIB.AddNetworkInstance immediately
	// before step LateVRF instead of up front. The history must not mention it earlier
	// (hgen.WithoutEarly removes such steps).
	LateVRF int
}

// Trace summarises what happened, for non-triviality rules.
type Trace struct {
	ReplacedDifferent      int // acknowledged ADD/REPLACE over an installed key with a different payload
	DeletedInstalled       int // acknowledged DELETE of an installed key
	HeldResolved           int // held operations acknowledged later
	HeldFailed             int
	Held                   int
	Cascade2               int // calls that acknowledged >= 2 held operations
	FlushSurvivors         int // flushes that left entries in other NIs
	Flushes                int
	PartialFlushes         int
	DeleteMustFail         int
	DeleteOKInstalled      int
	Retargets              int
	DepDeletedWhileWaiting int
	Failed                 int
	TopAcks                int // acknowledged ADD/REPLACE of ipv4/ipv6/mpls entries (incl. held ones resolved later)
	TopDeletes             int // acknowledged DELETE of an installed ipv4/ipv6/mpls entry
}

// Protect runs f and returns the panic value and stack if it panicked.
func Protect(f func()) (panicked string) { return protect(f) }

// protect runs f on its own goroutine under the watchdog of package drive: a panic is
// recovered and returned with its stack; if f does not return (a call that blocks forever
// would otherwise wedge the whole process) the text starts with "HANG " followed by the
// blocked gribigo frames and the goroutine dump. The goroutine is then left behind.
func protect(f func()) (panicked string) {
	var out string
	hg := drive.Watch("rib call", func() {
		defer func() {
			if r := recover(); r != nil {
				out = fmt.Sprintf("%v\n%s", r, debug.Stack())
			}
		}()
		f()
	})
	if hg != nil {
		d := hg.Dump
		if len(d) > 6000 {
			d = d[:6000]
		}
		return "HANG " + hg.Blocked + "\n" + hg.Error() + "\n" + d
	}
	return out
}

// Sig is the signature of a finding made by Protect: P/panic:<top frame> or P/hang:<blocked frames>.
func Sig(P, p string) string {
	if strings.HasPrefix(p, "HANG ") {
		b, _, _ := strings.Cut(strings.TrimPrefix(p, "HANG "), "\n")
		return P + "/hang:" + b
	}
	return P + "/panic:" + TopFrame(p)
}

// TopFrame extracts the first gribigo/ygot frame of a panic stack for signatures.
func TopFrame(stack string) string {
	for _, l := range strings.Split(stack, "\n") {
		l = strings.TrimSpace(l)
		if (strings.HasPrefix(l, "github.com/openconfig/gribigo/") || strings.HasPrefix(l, "github.com/openconfig/ygot/")) && strings.Contains(l, "(") {
			if i := strings.LastIndex(l, "("); i > 0 {
				l = l[:i]
			}
			l = strings.TrimPrefix(l, "github.com/openconfig/")
			return l
		}
	}
	return "unknown"
}

// NewRIB builds the real RIB for a history.
func NewRIB(fwdRefs bool, o Opts) *rib.RIB {
	var ro []rib.RIBOpt
	if !fwdRefs {
		ro = append(ro, rib.DisableForwardReferences())
	}
	ro = append(ro, o.RIBOpts...)
	if o.NoRefCheck {
		ro = append(ro, rib.DisableRIBCheckFn())
	}
	r := rib.New("DEFAULT", ro...)
	if o.Setup != nil {
		o.Setup(r)
	}
	if !o.NoVRFs {
		vrfs := hgen.NIs[1:]
		if o.LateVRF > 0 {
			vrfs = vrfs[:len(vrfs)-1]
		}
		for _, n := range vrfs {
			if err := r.AddNetworkInstance(n); err != nil {
				panic(err)
			}
		}
	}
	return r
}

// Run executes h against a fresh real RIB and the oracles.
func Run(h hgen.History, o Opts) (*ev.Verdict, *Trace) {
	v := &ev.Verdict{}
	tr := &Trace{}
	clock.Install()
	r := NewRIB(h.FwdRefs, o)
	m := model.New("DEFAULT", hgen.NIs[1:], h.FwdRefs)
	m.RefCheck = !o.NoRefCheck
	fold := obs.State{}
	type sent struct {
		ni string
		op *spb.AFTOperation
	}
	byID := map[uint64]sent{}
	partialFlushed := false
	P := o.P

	clockUsed := false
	lateDone := o.LateVRF <= 0
	for i, st := range h.Steps {
		if !lateDone && i >= o.LateVRF {
			lateDone = true
			if err := r.AddNetworkInstance(hgen.NIs[len(hgen.NIs)-1]); err != nil {
				v.Fail(P+"/add-network-instance", "before step %d: %v", i, err)
				return v, tr
			}
			v.Class("network-instance-created-at-runtime")
		}
		if st.Clock != 0 {
			clock.Apply(st.Clock)
			clockUsed = true
		}
		when := fmt.Sprintf("step %d", i)
		if st.Op == nil {
			when += fmt.Sprintf(" flush %v", st.Flush)
			tr.Flushes++
			if len(st.Flush) < len(hgen.NIs) {
				partialFlushed = true
				tr.PartialFlushes++
			}
			var ferr error
			if p := protect(func() { ferr = r.Flush(st.Flush) }); p != "" {
				v.Fail(Sig(P, p), "%s panicked: %s", when, p)
				return v, tr
			}
			_ = ferr // the status of Flush is C08's subject
			m.Flush(st.Flush)
			set := map[string]bool{}
			for _, n := range st.Flush {
				set[n] = true
			}
			for k := range fold {
				if set[k.NI] {
					delete(fold, k)
				}
			}
			if len(m.Ent) > 0 {
				tr.FlushSurvivors++
			}
		} else {
			op := st.Op.Proto()
			when += " " + st.Op.String()
			byID[op.GetId()] = sent{st.Op.NI, op}
			var oks, fails []*rib.OpResult
			var err error
			isDel := op.GetOp() == spb.AFTOperation_DELETE
			if p := protect(func() {
				if isDel {
					oks, fails, err = r.DeleteEntry(st.Op.NI, op)
				} else {
					oks, fails, err = r.AddEntry(st.Op.NI, op)
				}
			}); p != "" {
				v.Fail(Sig(P, p), "%s panicked: %s", when, p)
				return v, tr
			}
			out := model.Outcome{OKs: obs.IDs(oks), Fails: obs.IDs(fails), Err: err}
			// bookkeeping for non-triviality, judged on the model *before* the step
			k, hasKey := model.KeyOf(st.Op.NI, op)
			_, wasInst := m.Ent[k]
			heldBefore := len(m.Held)
			if isDel {
				if mf, _, _ := m.ExpectDelete(st.Op.NI, op); mf {
					tr.DeleteMustFail++
				}
				// a dependency deleted while something waits for it
				if hasKey && wasInst && len(out.OKs) > 0 {
					for _, hd := range m.Held {
						hk, _ := model.KeyOf(hd.NI, hd.Op)
						_ = hk
						mm := m.Clone()
						delete(mm.Ent, k)
						if !mm.Resolvable(hd.NI, model.Payload(hd.Op)) && (k.Kind == gen.NH || k.Kind == gen.NHG) {
							tr.DepDeletedWhileWaiting++
							break
						}
					}
				}
				m.StepDelete(st.Op.NI, op, out, v, P)
				if wasInst && len(out.OKs) > 0 {
					tr.DeletedInstalled++
					if k.Kind == gen.NH || k.Kind == gen.NHG {
						tr.DeleteOKInstalled++
					}
				}
			} else {
				var oldp = m.Ent[k]
				m.StepAdd(st.Op.NI, op, out, o.Trusted, v, P)
				if wasInst && len(out.OKs) > 0 && out.OKs[0] == op.GetId() {
					if !model.PayloadEqual(oldp, model.Payload(op)) {
						tr.ReplacedDifferent++
						if isRetarget(st.Op.NI, oldp, model.Payload(op)) {
							tr.Retargets++
						}
					}
				}
				if len(out.OKs) > 1 {
					tr.HeldResolved += len(out.OKs) - 1
					if len(out.OKs) > 2 {
						tr.Cascade2++
					}
				} else if len(out.OKs) == 1 && out.OKs[0] != op.GetId() {
					tr.HeldResolved++
				}
				for _, f := range out.Fails {
					if f != op.GetId() {
						tr.HeldFailed++
					}
				}
				if len(m.Held) > heldBefore {
					tr.Held++
				}
			}
			tr.Failed += len(out.Fails)
			// the pure fold over acknowledged operations, in acknowledgement order
			for _, id := range out.OKs {
				s, ok := byID[id]
				if !ok {
					v.Fail(P+"/ack-unknown-id", "%s acknowledged id %d that was never sent", when, id)
					continue
				}
				fk, ok := model.KeyOf(s.ni, s.op)
				if !ok {
					continue
				}
				top := fk.Kind == gen.V4 || fk.Kind == gen.V6 || fk.Kind == gen.MPLS
				if s.op.GetOp() == spb.AFTOperation_DELETE {
					if _, inst := fold[fk]; inst && top {
						tr.TopDeletes++
					}
					delete(fold, fk)
				} else {
					if top {
						tr.TopAcks++
					}
					fold[fk] = model.Canon(model.Payload(s.op))
				}
			}
		}

		ok1 := true
		if o.ObserveEvery <= 1 || i%o.ObserveEvery == o.ObserveEvery-1 || i == len(h.Steps)-1 || len(v.Findings) > 0 {
			got, err := obs.FromRIB(r)
			if err != nil {
				v.Fail(P+"/contents-unreadable", "%s: cannot read RIB contents: %v", when, err)
				return v, tr
			}
			if d := obs.Diff(fold, got); len(d) > 0 {
				v.Fail(P+"/fold-mismatch:"+obs.DiffClass(d), "%s: installed entries are not the fold of the acknowledged operations: %s", when, strings.Join(d, "; "))
			}
			ok1 = obs.CheckInstalled(m, got, v, P+"/installed-vs-model", when)
		}
		obs.CheckHeld(m, r, v, P+"/held-vs-model", when)
		if !o.NoRefCheck {
			obs.CheckCounters(m, r, v, P+"/counter-vs-referrers", when)
		}
		if o.Closure && !partialFlushed {
			if d := m.Dangling(); len(d) > 0 && ok1 {
				v.Fail(P+"/dangling", "%s: installed entries with unresolved references: %v", when, d)
			}
		}
		if o.AfterStep != nil {
			o.AfterStep(i, r, m, v)
		}
		if len(v.Findings) > 0 {
			// the model and the implementation have diverged; later steps would only echo it
			return v, tr
		}
	}
	if clockUsed {
		v.Class("clock-stepped-or-frozen")
	}
	return v, tr
}

func isRetarget(ni string, a, b proto.Message) bool {
	return model.RefString(ni, a) != model.RefString(ni, b)
}
