package c13

import (
	"context"
	"errors"
	"time"

	"pgregory.net/rapid"

	spb "github.com/openconfig/gribi/v1/proto/service"
	"github.com/openconfig/gribigo/client"

	"verifh/internal/cstub"
	"verifh/internal/ev"
	"verifh/internal/gen"
)

// Dup: the application hands the client an operation id a second time while the first
// operation with that id is still unanswered - inside the same ModifyRequest (Within) or in a
// later one. Two operations cannot both be accounted for under one id, so whatever the client
// does with them it must not report convergence as if nothing had happened: the server answers
// every distinct id exactly once, and AwaitConverged must then return an error (the unchanged
// client records "duplicate pending ID" when the request is queued), never nil.
type Dup struct {
	FIB    bool `json:"fib"`
	N      int  `json:"n"`     // distinct operations of the first request (ids 1..N)
	Which  int  `json:"which"` // the id handed in twice
	Within bool `json:"within"`
	// Pos (Within): position of the second copy inside the request
	Pos int `json:"pos"`
}

func runDup(c Case) *ev.Verdict {
	v := &ev.Verdict{}
	d := c.Dup
	stub := &cstub.Stub{}
	opts := []client.Opt{client.ElectedPrimaryClient(&spb.Uint128{Low: 1}), client.PersistEntries()}
	if d.FIB {
		opts = append(opts, client.FIBACK())
	}
	cl, err := client.New(opts...)
	if err != nil {
		v.Fail("C13/new", "%v", err)
		return v
	}
	cl.UseStub(stub)
	ctx, cancel := context.WithCancel(context.Background())
	defer cancel()
	if err := cl.Connect(ctx); err != nil {
		v.Fail("C13/connect", "%v", err)
		return v
	}
	cl.StartSending()
	st := stub.Stream(0)
	defer func() {
		done := make(chan struct{})
		go func() { cl.Close(); close(done) }()
		select {
		case <-done:
		case <-time.After(cstub.Watchdog):
			if len(v.Findings) == 0 {
				v.Fail("C13/close-hangs", "Close did not return")
			}
		}
	}()
	if !st.WaitSent(2) {
		v.Fail("C13/handshake", "the handshake did not reach the server")
		return v
	}
	st.Respond(&spb.ModifyResponse{SessionParamsResult: &spb.SessionParametersResult{}})
	st.Respond(&spb.ModifyResponse{ElectionId: &spb.Uint128{Low: 1}})
	mk := func(id uint64, key string) *spb.AFTOperation {
		return (&gen.Op{ID: id, NI: "DEFAULT", Kind: gen.NH, Act: gen.ADD, Key: key, IP: "192.0.2.1", Elec: &gen.ID128{Lo: 1}}).Proto()
	}
	r1 := &spb.ModifyRequest{}
	for i := 1; i <= d.N; i++ {
		r1.Operation = append(r1.Operation, mk(uint64(i), "1"))
	}
	second := mk(uint64(d.Which), "2") // same id, another entry
	nreq := 1
	if d.Within {
		p := d.Pos
		if p < 0 || p > len(r1.Operation) {
			p = len(r1.Operation)
		}
		r1.Operation = append(r1.Operation[:p], append([]*spb.AFTOperation{second}, r1.Operation[p:]...)...)
	}
	qdone := make(chan struct{})
	go func() {
		cl.Q(r1)
		if !d.Within {
			cl.Q(&spb.ModifyRequest{Operation: []*spb.AFTOperation{second}})
		}
		close(qdone)
	}()
	if !d.Within {
		nreq = 2
	}
	select {
	case <-qdone:
	case <-time.After(cstub.Watchdog):
		v.Fail("C13/q-blocks", "Q did not return")
		return v
	}
	if !st.WaitSent(2 + nreq) {
		// the client may refuse to send a request it found faulty: that is an acceptable reaction
		v.Class("dup:request-not-sent")
	}
	// every distinct id is answered exactly once
	for i := 1; i <= d.N; i++ {
		rs := []*spb.AFTResult{{Id: uint64(i), Status: spb.AFTResult_RIB_PROGRAMMED}}
		if d.FIB {
			rs = append(rs, &spb.AFTResult{Id: uint64(i), Status: spb.AFTResult_FIB_PROGRAMMED})
		}
		st.Respond(&spb.ModifyResponse{Result: rs})
	}
	// AwaitConverged returns at once when an error was recorded, and as soon as the responses
	// have been processed otherwise; a client that is still not converged after two seconds is
	// one that did not report convergence
	actx, acancel := context.WithTimeout(context.Background(), 2*time.Second)
	aerr := cl.AwaitConverged(actx)
	acancel()
	var ce *client.ClientErr
	switch {
	case aerr == nil:
		pend, _ := cl.Pending()
		res, _ := cl.Results()
		v.Fail("C13/duplicate-id-converges", "operation id %d was handed to the client twice (within one request: %v, %d operations, second copy at %d) while unanswered, the server answered every id once, and AwaitConverged returned nil: two operations were handed in under that id and one of them is silently unaccounted for (pending %d, results %d)", d.Which, d.Within, d.N, d.Pos, len(pend), len(res))
	case errors.As(aerr, &ce):
		v.Class("dup:error-recorded")
	default:
		// still waiting (the context expired): not converged, which is acceptable
		v.Class("dup:not-converged")
	}
	v.NonTrivial = true
	return v
}

func drawDup(rt *rapid.T) Case {
	d := &Dup{FIB: rapid.Bool().Draw(rt, "fib"), N: rapid.IntRange(1, 8).Draw(rt, "n"), Within: rapid.Bool().Draw(rt, "within")}
	d.Which = rapid.IntRange(1, d.N).Draw(rt, "which")
	d.Pos = rapid.IntRange(0, d.N).Draw(rt, "pos")
	return Case{Dup: d}
}

var _ = ev.JSON
