#!/bin/bash
# usage: tools/try_seed.sh <dir holding patch.diff> <check ids...>
# Runs the given checks against a scratch worktree of /repo with the seeded change applied
# (VERIF_REPO, see ./check): /repo itself is never modified, so registered checks and
# background runs that build from /repo are not disturbed. The worktree and all build output
# are removed afterwards. TIER=thorough and VERIF_SEED are honoured.
set -u
dir=$(cd "$1" && pwd); shift
name=$(basename "$dir")
wt=/tmp/seedrun/$name.$$
mkdir -p /tmp/seedrun
git -C /repo worktree add --detach "$wt" HEAD >/dev/null 2>&1 || { echo "cannot create worktree"; exit 2; }
cleanup() { git -C /repo worktree remove --force "$wt" >/dev/null 2>&1; rm -rf "/verif/out/alt-$(echo "$wt" | sed 's/[^A-Za-z0-9]\+/_/g; s/^_//; s/_$//')"; }
trap cleanup EXIT
git -C "$wt" apply "$dir/patch.diff" || { echo "patch does not apply"; exit 2; }
cd /verif
for c in "$@"; do
  start=$(date +%s)
  out=$(VERIF_REPO=$wt VERIF_SEED=${VERIF_SEED:-1} ./check $c ${TIER:-quick} 2>&1 | grep -v "^KNOWN-FINDING" | grep "^VIOLATION\|^$c \|^violation\|INCONCLUSIVE" | cut -c1-300)
  echo "== $name $c ($(( $(date +%s) - start ))s)"; echo "$out" | tail -8
done
