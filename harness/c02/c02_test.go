package c02

import (
	"encoding/json"
	"fmt"
	"testing"

	"pgregory.net/rapid"

	"verifh/internal/ev"
	"verifh/internal/gen"
	"verifh/internal/hgen"
	"verifh/internal/l1"
	"verifh/internal/l2"
)

func TestMain(m *testing.M) { ev.Main(m, "C02", "exploration") }

// Case: a dependency graph's operations in one arrival order.
type Case struct {
	Level string       `json:"level"`
	H     hgen.History `json:"h"`
	Batch []int        `json:"batch,omitempty"`
	Every int          `json:"every,omitempty"` // mass graphs: read the whole RIB back only every n-th step
	// ReElect (L2): the session raises its own election id after every n-th request
	ReElect int `json:"reelect,omitempty"`
	// Bystander (L2) > 0: a second session announced the same election id before the session did
	// and goes away before this step (l2.Opts.Bystander)
	Bystander int `json:"bystander,omitempty"`
}

func setup() {
	c := ev.C()
	c.Rule = "dependency graphs (NH <- NHG <- IPv4/IPv6/MPLS, cross-NI group references, shared next-hops, dependencies deleted/re-added or never arriving) emitted in every arrival order for subsets of a 15-op pool (<=4 ops quick, <=5 thorough; all permutations) and in random orders for larger rapid-drawn graphs; forward references allowed and disallowed; rib.RIB (L1) and server streams (L2). Oracle: relation model on the order of acknowledgements (each acknowledged op resolvable at its turn), completeness (no held op resolvable after any step, held-id hook), reference closure after every step, immediate FAILED when forward references are disallowed. Non-trivial = a call acknowledged >=2 held operations (transitive cascade) or a dependency was deleted while something waited for it; distinct by FNV-64 of the case JSON. Later additions: doomed held REPLACE with another operation queued behind the same missing group; at L2 a bystander session with the same election id that goes away at a drawn step."
	c.Assumptions = []string{
		"payloads are schema-valid; ids unique per history",
		"closure is only asserted while no single-instance flush happened (one generated graph in four contains a Flush)",
	}
}

func runCase(c Case) *ev.Verdict {
	var v *ev.Verdict
	var tr *l1.Trace
	if c.Level == "L2" {
		v, tr = l2.RunHistory(c.H, l2.Opts{P: "C02", Trusted: true, Batch: c.Batch, ReElect: c.ReElect, Bystander: c.Bystander})
	} else {
		v, tr = l1.Run(c.H, l1.Opts{P: "C02", Trusted: true, Closure: true, ObserveEvery: c.Every})
	}
	if tr.Cascade2 > 0 {
		v.Class("cascade>=2")
	}
	if tr.HeldResolved > 0 {
		v.Class("held-resolved")
	}
	if tr.DepDeletedWhileWaiting > 0 {
		v.Class("dependency-deleted-while-waited-for")
	}
	if tr.HeldFailed > 0 {
		v.Class("held-failed")
	}
	if !c.H.FwdRefs && tr.Failed > 0 {
		v.Class("nofwdrefs-failed")
	}
	v.NonTrivial = tr.Cascade2 > 0 || tr.DepDeletedWhileWaiting > 0
	return v
}

func TestReplay(t *testing.T) {
	setup()
	for _, f := range ev.ReplayFiles() {
		var c Case
		if err := ev.LoadCase(f, &c); err != nil {
			t.Fatalf("%s: %v", f, err)
		}
		for i := 0; i < 20; i++ {
			v := runCase(c)
			if fresh := ev.C().Record(ev.JSON(c), v); len(fresh) > 0 {
				t.Errorf("%s: %v", f, fresh)
				break
			}
		}
	}
}

func u(v uint64) *uint64 { return &v }

// pool is the op pool of the exhaustive scope.
func pool() []gen.Op {
	D, A := "DEFAULT", "VRF-A"
	return []gen.Op{
		{NI: D, Kind: gen.NH, Act: gen.ADD, Key: "1", IP: "192.0.2.1"},
		{NI: D, Kind: gen.NH, Act: gen.ADD, Key: "2", Intf: "eth0"},
		{NI: A, Kind: gen.NH, Act: gen.ADD, Key: "1", MAC: "00:00:5e:00:53:01"},
		{NI: D, Kind: gen.NHG, Act: gen.ADD, Key: "1", Hops: []gen.Hop{{Index: 1}}},
		{NI: D, Kind: gen.NHG, Act: gen.ADD, Key: "1", Hops: []gen.Hop{{Index: 1, Weight: u(2)}, {Index: 2}}},
		{NI: D, Kind: gen.NHG, Act: gen.ADD, Key: "2", Hops: []gen.Hop{{Index: 2}}, Backup: u(1)},
		{NI: A, Kind: gen.NHG, Act: gen.ADD, Key: "1", Hops: []gen.Hop{{Index: 1}}},
		{NI: D, Kind: gen.V4, Act: gen.ADD, Key: "1.0.0.0/8", Group: 1},
		{NI: A, Kind: gen.V4, Act: gen.ADD, Key: "1.0.0.0/8", Group: 1, GroupNI: D},
		{NI: D, Kind: gen.MPLS, Act: gen.ADD, Key: "100", Group: 2},
		{NI: A, Kind: gen.V6, Act: gen.ADD, Key: "2001:db8::/32", Group: 1},
		{NI: D, Kind: gen.NH, Act: gen.DELETE, Key: "1", NoPayload: true},
		{NI: D, Kind: gen.NHG, Act: gen.DELETE, Key: "1", NoPayload: true},
		{NI: D, Kind: gen.V4, Act: gen.REPLACE, Key: "1.0.0.0/8", Group: 2},
		{NI: D, Kind: gen.V4, Act: gen.DELETE, Key: "1.0.0.0/8", NoPayload: true},
	}
}

func permute(n int, f func(p []int)) {
	p := make([]int, n)
	for i := range p {
		p[i] = i
	}
	var rec func(k int)
	rec = func(k int) {
		if k == n {
			f(p)
			return
		}
		for i := k; i < n; i++ {
			p[k], p[i] = p[i], p[k]
			rec(k + 1)
			p[k], p[i] = p[i], p[k]
		}
	}
	rec(0)
}

// subsets enumerates index subsets of size k of n elements.
func subsets(n, k int, f func(idx []int)) {
	idx := make([]int, k)
	var rec func(start, d int)
	rec = func(start, d int) {
		if d == k {
			f(idx)
			return
		}
		for i := start; i < n; i++ {
			idx[d] = i
			rec(i+1, d+1)
		}
	}
	rec(0, 0)
}

func TestCampaign(t *testing.T) {
	setup()
	col := ev.C()
	t.Run("all-arrival-orders", func(t *testing.T) {
		maxOps := ev.Pick("C02_EXH_OPS", 4, 5)
		pl := pool()
		sk, ns := ev.Shard()
		for k := 1; k <= maxOps; k++ {
			cnt, bad, si := 0, 0, 0
			subsets(len(pl), k, func(idx []int) {
				si++
				if si%ns != sk {
					return
				}
				permute(k, func(p []int) {
					for _, fwd := range []bool{true, false} {
						h := hgen.History{FwdRefs: fwd}
						for pos, pi := range p {
							o := pl[idx[pi]]
							o.ID = uint64(pos + 1)
							h.Steps = append(h.Steps, hgen.Step{Op: &o})
						}
						c := Case{Level: "L1", H: h}
						v := runCase(c)
						cnt++
						if fresh := col.Record(ev.JSON(c), v); len(fresh) > 0 {
							bad++
							if bad <= 3 {
								t.Errorf("%s: %v", ev.JSON(c), fresh)
							}
						}
					}
				})
			})
			col.Scope(fmt.Sprintf("every arrival order of every %d-op subset of the 15-op dependency pool x {fwdrefs on,off}", k), cnt, true)
		}
	})
	t.Run("random-graphs", func(t *testing.T) {
		rapid.Check(t, func(rt *rapid.T) {
			var c Case
			mass := rapid.IntRange(0, 24).Draw(rt, "mass?") == 7
			if mass {
				c = drawMassGraph(rt)
			} else {
				c = drawGraph(rt)
			}
			v := runCase(c)
			if mass {
				v.Class("mass-graph")
			}
			col.Check(rt, ev.JSON(c), v)
		})
	})
	col.MinimizeAll(minimize)
}

// MassSizes are the numbers of held operations of the mass graphs: around
// powers of two and a few in between (limits on cascade depth, batch sizes or
// retry counts sit at such values).
func MassSizes() []int {
	s := []int{5, 12, 33, 63, 64, 65, 66, 100, 127, 128, 129, 255, 256, 257}
	if ev.Thorough() {
		s = append(s, 511, 512, 513, 1024, 1025)
	}
	return s
}

// drawMassGraph: n top-level entries (over one or two groups, in several
// network instances) and their groups are all held for missing next-hops and
// are released by single operations: one call must acknowledge them all.
func drawMassGraph(rt *rapid.T) Case {
	sizes := MassSizes()
	n := sizes[rapid.IntRange(0, len(sizes)-1).Draw(rt, "size")]
	c := Case{Level: "L1", H: hgen.History{FwdRefs: rapid.IntRange(0, 5).Draw(rt, "fwd") != 0}, Every: 64}
	var ops []gen.Op
	twoLevel := rapid.Bool().Draw(rt, "two-level")
	ops = append(ops, gen.Op{NI: "DEFAULT", Kind: gen.NHG, Act: gen.ADD, Key: "1", Hops: []gen.Hop{{Index: 1}}})
	ops = append(ops, gen.Op{NI: "DEFAULT", Kind: gen.NHG, Act: gen.ADD, Key: "2", Hops: []gen.Hop{{Index: 1}, {Index: 2}}})
	for i := 0; i < n; i++ {
		ni := hgen.NIs[rapid.IntRange(0, 2).Draw(rt, "ni")]
		o := gen.Op{NI: ni, Act: gen.ADD, Group: uint64(1 + i%2), GroupNI: "DEFAULT"}
		switch i % 5 {
		case 3:
			o.Kind, o.Key = gen.V6, fmt.Sprintf("2001:db8:%x::/48", i+1)
		case 4:
			o.Kind, o.Key = gen.MPLS, fmt.Sprint(16+i)
		default:
			o.Kind, o.Key = gen.V4, fmt.Sprintf("10.%d.%d.0/24", i/250, i%250)
		}
		ops = append(ops, o)
	}
	if !twoLevel {
		// the groups are installed first: only the top-level entries wait, for nothing... so
		// hold them on the groups instead: the groups arrive last
		ops = append(ops[2:], ops[0], ops[1])
		ops = append([]gen.Op{{NI: "DEFAULT", Kind: gen.NH, Act: gen.ADD, Key: "1", IP: "192.0.2.1"}, {NI: "DEFAULT", Kind: gen.NH, Act: gen.ADD, Key: "2", IP: "192.0.2.2"}}, ops...)
	} else {
		if rapid.Bool().Draw(rt, "shuffle") {
			ops = rapid.Permutation(ops).Draw(rt, "order")
		}
		// release: next-hop 2 changes nothing yet for group 1, next-hop 1 releases group 1 and (with 2) group 2
		ops = append(ops, gen.Op{NI: "DEFAULT", Kind: gen.NH, Act: gen.ADD, Key: "2", IP: "192.0.2.2"}, gen.Op{NI: "DEFAULT", Kind: gen.NH, Act: gen.ADD, Key: "1", IP: "192.0.2.1"})
	}
	for i := range ops {
		o := ops[i]
		o.ID = uint64(i + 1)
		c.H.Steps = append(c.H.Steps, hgen.Step{Op: &o})
	}
	if rapid.IntRange(0, 3).Draw(rt, "l2?") == 0 {
		c.Level = "L2"
		c.Batch = []int{rapid.IntRange(1, 100).Draw(rt, "batch")}
	}
	return c
}

// drawGraph draws a dependency graph and an arrival order.
func drawGraph(rt *rapid.T) Case {
	c := Case{Level: "L1", H: hgen.DrawGraph(rt)}
	if rapid.IntRange(0, 4).Draw(rt, "l2?") == 0 {
		c.Level = "L2"
		c.Batch = []int{rapid.IntRange(1, 5).Draw(rt, "batch")}
		if rapid.Bool().Draw(rt, "reelect?") {
			c.ReElect = rapid.IntRange(1, 3).Draw(rt, "reelect")
		} else if len(c.H.Steps) > 1 && rapid.Bool().Draw(rt, "bystander?") {
			c.Bystander = rapid.IntRange(1, len(c.H.Steps)-1).Draw(rt, "bystander")
		}
	}
	return c
}

func minimize(sig string, cs []byte) []byte {
	var c Case
	if err := json.Unmarshal(cs, &c); err != nil {
		return nil
	}
	fails := func(h hgen.History) bool {
		cc := c
		cc.H = h
		for i := 0; i < 4; i++ {
			if runCase(cc).HasSig(sig) {
				return true
			}
		}
		return false
	}
	fails = ev.Bounded(fails)
	if !fails(c.H) {
		return nil
	}
	c.H = hgen.Minimize(c.H, fails)
	return ev.JSON(c)
}
