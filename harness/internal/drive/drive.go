// Package drive runs the gribigo server through in-process implementations of
// the gRPC stream interfaces, so that the harness decides when each message is
// delivered, when a stream errors, and has a deterministic quiescence point.
package drive

import (
	"context"
	"errors"
	"fmt"
	"io"
	"runtime"
	"sync"
	"sync/atomic"
	"time"

	"google.golang.org/grpc"
	"google.golang.org/grpc/codes"
	"google.golang.org/grpc/metadata"
	"google.golang.org/grpc/status"

	aftpb "github.com/openconfig/gribi/v1/proto/gribi_aft"
	spb "github.com/openconfig/gribi/v1/proto/service"
	"github.com/openconfig/gribigo/server"
)

// Watchdog is the deadline of every blocking harness call. Normal latency is
// sub-millisecond; expiry is classified from the goroutine dump, never taken
// as a verdict by itself.
var Watchdog = 20 * time.Second

// BarrierNI is a network instance name that is never created.
const BarrierNI = "__VERIF_NO_SUCH_NI__"

// Hang describes a watchdog expiry.
type Hang struct {
	What    string
	Blocked string // gribigo frames parked on a lock/channel ("" = cannot attribute)
	Dump    string
}

func (h *Hang) Error() string {
	return fmt.Sprintf("watchdog expired in %s; blocked gribigo frames: %q", h.What, h.Blocked)
}

// Srv wraps a real server.
type Srv struct {
	S *server.Server

	mu       sync.Mutex
	sessions []*Session
	barrier  uint64
	net      *netState // non-nil: RPCs go through real gRPC over bufconn (net.go)
}

// NewSrv creates a server with the three standard network instances.
func NewSrv(fwdRefs bool, vrfs []string, opts ...server.ServerOpt) *Srv {
	if !fwdRefs {
		opts = append(opts, server.WithNoRIBForwardReferences())
	}
	if len(vrfs) > 0 {
		opts = append(opts, server.WithVRFs(vrfs))
	}
	s, err := server.New(opts...)
	if err != nil {
		panic(err)
	}
	return &Srv{S: s, barrier: 1 << 62}
}

// NewSrvInjected is NewSrv for a server that already "knows" an election id although no
// session announced it: built with server.NewFake and FakeServer.InjectElectionID (the public
// way to start a server with a learnt id; there is no primary then).
func NewSrvInjected(fwdRefs bool, vrfs []string, id *spb.Uint128, opts ...server.ServerOpt) *Srv {
	if !fwdRefs {
		opts = append(opts, server.WithNoRIBForwardReferences())
	}
	if len(vrfs) > 0 {
		opts = append(opts, server.WithVRFs(vrfs))
	}
	f, err := server.NewFake(opts...)
	if err != nil {
		panic(err)
	}
	f.InjectElectionID(id)
	return &Srv{S: f.Server, barrier: 1 << 62}
}

type recvItem struct {
	msg *spb.ModifyRequest
	err error
}

// Session is one Modify RPC driven by the harness.
type Session struct {
	srv *Srv
	// CID is the server's internal identifier of this session.
	CID string
	Idx int

	in     chan recvItem
	ctx    context.Context
	cancel context.CancelFunc

	mu        sync.Mutex
	cond      *sync.Cond
	out       []*spb.ModifyResponse
	late      []*spb.ModifyResponse // Sends after the handler returned
	ended     bool
	err       error
	sendErr   error // when set, Send fails
	sendFail  int   // fail the k-th Send from now (1-based); 0 = never
	sendBlock int   // block the k-th Send from now until the context is cancelled (client stopped reading)

	blocked    bool
	blockedCh  chan struct{}
	handlerGID atomic.Int64
	read       int // responses already consumed by the harness
	recvs      atomic.Int64

	n *netSess // non-nil: real transport (net.go)
}

type modStream struct {
	grpc.ServerStream
	x *Session
}

func (m *modStream) Context() context.Context     { return m.x.ctx }
func (m *modStream) SetHeader(metadata.MD) error  { return nil }
func (m *modStream) SendHeader(metadata.MD) error { return nil }
func (m *modStream) SetTrailer(metadata.MD)       {}
func (m *modStream) SendMsg(any) error            { return errors.New("unused") }
func (m *modStream) RecvMsg(any) error            { return errors.New("unused") }

func (m *modStream) Recv() (*spb.ModifyRequest, error) {
	x := m.x
	x.recvs.Add(1)
	select {
	case it := <-x.in:
		return it.msg, it.err
	case <-x.ctx.Done():
		return nil, status.Error(codes.Canceled, "context canceled")
	}
}

func (m *modStream) Send(r *spb.ModifyResponse) error {
	x := m.x
	x.mu.Lock()
	defer x.mu.Unlock()
	if x.ended {
		x.late = append(x.late, r)
		return status.Error(codes.Internal, "transport: stream already done")
	}
	if x.sendErr != nil {
		return x.sendErr
	}
	if x.sendFail > 0 {
		x.sendFail--
		if x.sendFail == 0 {
			x.sendErr = status.Error(codes.Unavailable, "transport is closing")
			return x.sendErr
		}
	}
	if x.sendBlock > 0 {
		x.sendBlock--
		if x.sendBlock == 0 {
			// flow control: the client does not read; gRPC's Send returns when the
			// stream's context is cancelled
			x.blocked = true
			close(x.blockedCh)
			x.cond.Broadcast()
			x.mu.Unlock()
			<-x.ctx.Done()
			x.mu.Lock()
			x.sendErr = status.Error(codes.Canceled, "context canceled")
			return x.sendErr
		}
	}
	x.out = append(x.out, r)
	x.cond.Broadcast()
	return nil
}

// Open starts a new Modify RPC.
func (s *Srv) Open() *Session {
	if s.net != nil {
		return s.openNet()
	}
	before := map[string]bool{}
	for _, id := range s.S.VerifSessionIDs() {
		before[id] = true
	}
	ctx, cancel := context.WithCancel(context.Background())
	x := &Session{srv: s, in: make(chan recvItem), ctx: ctx, cancel: cancel, blockedCh: make(chan struct{})}
	x.cond = sync.NewCond(&x.mu)
	s.mu.Lock()
	x.Idx = len(s.sessions)
	s.sessions = append(s.sessions, x)
	s.mu.Unlock()
	started := make(chan struct{})
	go func() {
		x.handlerGID.Store(CurGID())
		close(started)
		err := s.S.Modify(&modStream{x: x})
		x.mu.Lock()
		x.ended = true
		x.err = err
		x.cond.Broadcast()
		x.mu.Unlock()
		// gRPC cancels the stream context when the handler returns
		x.cancel()
	}()
	<-started
	// wait until the server registered the session (first statement of Modify)
	deadline := time.Now().Add(Watchdog)
	for time.Now().Before(deadline) {
		for _, id := range s.S.VerifSessionIDs() {
			if !before[id] {
				x.CID = id
				return x
			}
		}
		if x.Ended() {
			return x
		}
		runtime.Gosched()
	}
	return x
}

// Ended reports whether the handler returned.
func (x *Session) Ended() bool {
	x.mu.Lock()
	defer x.mu.Unlock()
	return x.ended
}

// Err returns the status the RPC ended with (valid once Ended).
func (x *Session) Err() error {
	x.mu.Lock()
	defer x.mu.Unlock()
	return x.err
}

// deliver hands one item to the handler's Recv. It returns false when the
// handler can no longer receive it (RPC ended), and a *Hang on watchdog expiry.
func (x *Session) deliver(it recvItem) (bool, *Hang) {
	if x.n != nil {
		return x.netDeliver(it)
	}
	t := time.NewTimer(Watchdog)
	defer t.Stop()
	ext := 0
	for {
		select {
		case x.in <- it:
			return true, nil
		case <-x.ctx.Done():
			return false, nil
		case <-x.blockedCh:
			// the server is blocked by flow control (BlockSends): it will not read
			// this message before the stream is cancelled
			return false, nil
		case <-t.C:
			if h := x.hangOrBusy("deliver request", &ext); h != nil {
				return false, h
			}
			t.Reset(Watchdog)
		}
	}
}

func (x *Session) hang(what string) *Hang {
	d := Dump()
	gs := Parse(d)
	return &Hang{What: what, Blocked: BlockedInGribigo(gs, x.handlerGID.Load(), CurGID()), Dump: d}
}

// MaxExtensions bounds how often an expired watchdog is re-armed because the goroutines
// it waits for are still making progress (a slow machine, a very large cascade).
var MaxExtensions = 45

// hangOrBusy is called when a watchdog expires. A wait is a hang only when nothing it waits
// for can make progress: while a goroutine of the watched call is running or runnable the
// watchdog is re-armed (nil is returned), at most MaxExtensions times.
func (x *Session) hangOrBusy(what string, ext *int) *Hang {
	d := Dump()
	gs := Parse(d)
	// (a goroutine of the watched call may also be waiting for a lock whose holder - any
	// goroutine with a gribigo frame, e.g. inside a library it calls - is merely slow)
	if *ext < MaxExtensions && (Busy(gs, x.handlerGID.Load(), CurGID()) || AnyBusyInGribigo(gs)) {
		*ext++
		return nil
	}
	return &Hang{What: what, Blocked: BlockedInGribigo(gs, x.handlerGID.Load(), CurGID()), Dump: d}
}

// dog is the watchdog of one condition wait on a session.
type dog struct {
	x        *Session
	what     string
	deadline time.Time
	timer    *time.Timer
	ext      int
}

func (x *Session) newDog(what string) *dog {
	d := &dog{x: x, what: what, deadline: time.Now().Add(Watchdog)}
	d.timer = time.AfterFunc(Watchdog, func() {
		x.mu.Lock()
		x.cond.Broadcast()
		x.mu.Unlock()
	})
	return d
}

func (d *dog) stop() { d.timer.Stop() }

// check is called with x.mu held, before every cond.Wait. It returns a *Hang when the
// watchdog expired and nothing the wait depends on is making progress.
func (d *dog) check() *Hang {
	if time.Now().Before(d.deadline) {
		return nil
	}
	d.x.mu.Unlock()
	h := d.x.hangOrBusy(d.what, &d.ext)
	d.x.mu.Lock()
	if h == nil {
		d.deadline = time.Now().Add(Watchdog)
		d.timer.Reset(Watchdog)
	}
	return h
}

// Send delivers a request (the client "sent a message").
func (x *Session) Send(req *spb.ModifyRequest) (bool, *Hang) {
	return x.deliver(recvItem{msg: req})
}

// HalfClose makes Recv return io.EOF (client closed its send side).
func (x *Session) HalfClose() (bool, *Hang) { return x.deliver(recvItem{err: io.EOF}) }

// Fail makes Recv return err (cancellation or transport failure).
func (x *Session) Fail(err error) (bool, *Hang) { return x.deliver(recvItem{err: err}) }

// Cancel cancels the stream context as gRPC does when the client cancels: a
// blocked Recv returns Canceled.
func (x *Session) Cancel() { x.cancel() }

// FailSends makes the k-th Send from now on (and all later ones) fail.
func (x *Session) FailSends(k int) {
	x.mu.Lock()
	defer x.mu.Unlock()
	x.sendFail = k
}

// BlockSends makes the k-th Send from now block (the client has stopped
// reading) until the stream's context is cancelled.
func (x *Session) BlockSends(k int) {
	x.mu.Lock()
	defer x.mu.Unlock()
	x.sendBlock = k
}

// WaitBlocked waits until a Send is blocked by BlockSends, or the RPC ended.
func (x *Session) WaitBlocked() (blocked bool, hang *Hang) {
	dg := x.newDog("wait for a blocked Send")
	defer dg.stop()
	x.mu.Lock()
	defer x.mu.Unlock()
	for !x.blocked && !x.ended {
		if h := dg.check(); h != nil {
			return false, h
		}
		x.cond.Wait()
	}
	return x.blocked, nil
}

// Responses returns all responses the client has received so far.
func (x *Session) Responses() []*spb.ModifyResponse {
	x.mu.Lock()
	defer x.mu.Unlock()
	return append([]*spb.ModifyResponse(nil), x.out...)
}

// take returns the responses not yet consumed.
func (x *Session) take() []*spb.ModifyResponse {
	r := x.out[x.read:]
	x.read = len(x.out)
	return append([]*spb.ModifyResponse(nil), r...)
}

// Barrier sends an operation for a never-created network instance and waits
// until its FAILED answer is seen (every earlier response has then been
// delivered) or the RPC ends. It returns the responses received since the last
// call, without the barrier's own answer.
func (x *Session) Barrier() (resps []*spb.ModifyResponse, ended bool, hang *Hang) {
	x.srv.mu.Lock()
	x.srv.barrier++
	bid := x.srv.barrier
	x.srv.mu.Unlock()
	ok, h := x.Send(&spb.ModifyRequest{Operation: []*spb.AFTOperation{{
		Id: bid, NetworkInstance: BarrierNI, Op: spb.AFTOperation_ADD,
		Entry: &spb.AFTOperation_NextHop{NextHop: &aftpb.Afts_NextHopKey{Index: 1, NextHop: &aftpb.Afts_NextHop{}}},
	}}})
	if h != nil {
		return nil, false, h
	}
	if !ok {
		return x.WaitEnd()
	}
	dg := x.newDog("barrier")
	defer dg.stop()
	x.mu.Lock()
	defer x.mu.Unlock()
	for {
		for i := x.read; i < len(x.out); i++ {
			for _, r := range x.out[i].GetResult() {
				if r.GetId() == bid {
					got := append([]*spb.ModifyResponse(nil), x.out[x.read:i]...)
					// responses are FIFO: nothing can follow the barrier's answer yet
					x.read = i + 1
					return got, false, nil
				}
			}
		}
		if x.ended {
			return x.take(), true, nil
		}
		if h := dg.check(); h != nil {
			return x.take(), false, h
		}
		x.cond.Wait()
	}
}

// WaitEnd waits for the handler to return and then for its reader/sender
// goroutines to reach a parked state (or exit), so that "the state after the
// RPC ended" can be observed. It returns the unconsumed responses.
func (x *Session) WaitEnd() (resps []*spb.ModifyResponse, ended bool, hang *Hang) {
	dg := x.newDog("wait for RPC end")
	defer dg.stop()
	x.mu.Lock()
	for !x.ended {
		if h := dg.check(); h != nil {
			x.mu.Unlock()
			return nil, false, h
		}
		x.cond.Wait()
	}
	x.mu.Unlock()
	if h := x.quiesceEnded(); h != nil {
		return nil, true, h
	}
	x.mu.Lock()
	defer x.mu.Unlock()
	return x.take(), true, nil
}

// quiesceEnded polls the goroutine dump until every goroutine started by the
// ended handler has exited or is parked in a channel send (nobody will ever
// receive: they are leaked, as with real gRPC).
func (x *Session) quiesceEnded() *Hang {
	deadline := time.Now().Add(Watchdog)
	ext := 0
	gid := x.handlerGID.Load()
	for {
		gs := Parse(Dump())
		busy := false
		for _, g := range Descendants(gs, gid) {
			if g.ID == gid {
				// the handler goroutine itself: still finishing
				busy = true
				continue
			}
			switch g.State {
			case "chan send":
				// parked for good (its receiver is gone)
			default:
				busy = true
			}
		}
		if !busy {
			return nil
		}
		if time.Now().After(deadline) {
			// still running goroutines are exactly what is being waited for: only goroutines
			// parked on something other than a channel send keep this from finishing
			if h := x.hangOrBusy("quiesce after RPC end", &ext); h != nil {
				return h
			}
			deadline = time.Now().Add(Watchdog)
		}
		runtime.Gosched()
		time.Sleep(50 * time.Microsecond)
	}
}

// Late returns responses the server tried to send after the RPC had ended.
func (x *Session) Late() []*spb.ModifyResponse {
	x.mu.Lock()
	defer x.mu.Unlock()
	return append([]*spb.ModifyResponse(nil), x.late...)
}

// Close ends the session if it is still open (half-close) and waits.
func (x *Session) Close() *Hang {
	if x.Ended() {
		return x.quiesceEnded()
	}
	if _, h := x.HalfClose(); h != nil {
		return h
	}
	_, _, h := x.WaitEnd()
	return h
}

// ---- Get --------------------------------------------------------------------

type getStream struct {
	grpc.ServerStream
	ctx    context.Context
	mu     sync.Mutex
	out    []*spb.GetResponse
	failAt int // fail the k-th Send (1-based), 0 = never
	n      int
	// a slow reader: the stallAt-th Send (1-based) takes stall before it accepts the message
	stallAt int
	stall   time.Duration
}

func (g *getStream) Context() context.Context     { return g.ctx }
func (g *getStream) SetHeader(metadata.MD) error  { return nil }
func (g *getStream) SendHeader(metadata.MD) error { return nil }
func (g *getStream) SetTrailer(metadata.MD)       {}
func (g *getStream) SendMsg(any) error            { return errors.New("unused") }
func (g *getStream) RecvMsg(any) error            { return errors.New("unused") }
func (g *getStream) Send(r *spb.GetResponse) error {
	g.mu.Lock()
	defer g.mu.Unlock()
	g.n++
	if g.stallAt > 0 && g.n == g.stallAt {
		time.Sleep(g.stall)
	}
	if g.failAt > 0 && g.n >= g.failAt {
		return status.Error(codes.Unavailable, "transport is closing")
	}
	g.out = append(g.out, r)
	return nil
}

// Watch runs f on a new goroutine under the watchdog.
func Watch(what string, f func()) *Hang {
	done := make(chan struct{})
	var gid atomic.Int64
	go func() {
		gid.Store(CurGID())
		defer close(done)
		f()
	}()
	t := time.NewTimer(Watchdog)
	defer t.Stop()
	for ext := 0; ; ext++ {
		select {
		case <-done:
			return nil
		case <-t.C:
			d := Dump()
			gs := Parse(d)
			if ext < MaxExtensions && (Busy(gs, gid.Load()) || AnyBusyInGribigo(gs)) {
				t.Reset(Watchdog)
				continue
			}
			return &Hang{What: what, Blocked: BlockedInGribigo(gs, gid.Load()), Dump: d}
		}
	}
}

// Get runs the Get RPC to completion. failAt > 0 makes the client "go away"
// when the failAt-th response is written.
func (s *Srv) Get(req *spb.GetRequest, failAt int) (resps []*spb.GetResponse, err error, hang *Hang) {
	if s.net != nil {
		return s.getNet(req, failAt)
	}
	gs := &getStream{ctx: context.Background(), failAt: failAt}
	hang = Watch("Get", func() { err = s.S.Get(req, gs) })
	gs.mu.Lock()
	defer gs.mu.Unlock()
	return append([]*spb.GetResponse(nil), gs.out...), err, hang
}

// GetSlow runs the Get RPC (in-process stream) for a reader that takes stall to accept the
// stallAt-th response (flow control towards a slow but live client).
func (s *Srv) GetSlow(req *spb.GetRequest, stallAt int, stall time.Duration) (resps []*spb.GetResponse, err error, hang *Hang) {
	gs := &getStream{ctx: context.Background(), stallAt: stallAt, stall: stall}
	hang = Watch("Get (slow reader)", func() { err = s.S.Get(req, gs) })
	gs.mu.Lock()
	defer gs.mu.Unlock()
	return append([]*spb.GetResponse(nil), gs.out...), err, hang
}

// GetAll fetches every table of every network instance.
func (s *Srv) GetAll() ([]*spb.GetResponse, error, *Hang) {
	return s.Get(&spb.GetRequest{NetworkInstance: &spb.GetRequest_All{All: &spb.Empty{}}, Aft: spb.AFTType_ALL}, 0)
}

// Flush runs the Flush RPC.
func (s *Srv) Flush(req *spb.FlushRequest) (resp *spb.FlushResponse, err error, hang *Hang) {
	if s.net != nil {
		return s.flushNet(req)
	}
	hang = Watch("Flush", func() { resp, err = s.S.Flush(context.Background(), req) })
	return
}

// Params builds a session-parameters message.
func Params(redundancy spb.SessionParameters_ClientRedundancy, persist spb.SessionParameters_AFTPersistence, ack spb.SessionParameters_AFTResultStatusType) *spb.ModifyRequest {
	return &spb.ModifyRequest{Params: &spb.SessionParameters{Redundancy: redundancy, Persistence: persist, AckType: ack}}
}

// StdParams is SINGLE_PRIMARY + PRESERVE with the given ack type.
func StdParams(fib bool) *spb.ModifyRequest {
	ack := spb.SessionParameters_RIB_ACK
	if fib {
		ack = spb.SessionParameters_RIB_AND_FIB_ACK
	}
	return Params(spb.SessionParameters_SINGLE_PRIMARY, spb.SessionParameters_PRESERVE, ack)
}

// Election builds an election-id message.
func Election(hi, lo uint64) *spb.ModifyRequest {
	return &spb.ModifyRequest{ElectionId: &spb.Uint128{High: hi, Low: lo}}
}

// WaitOneOrEnd waits until the session has produced at least one unconsumed
// response or its RPC ended (used for sessions that have not negotiated, where
// no barrier is possible: every message yields exactly one response or ends
// the RPC).
func (x *Session) WaitOneOrEnd() (resps []*spb.ModifyResponse, ended bool, hang *Hang) {
	dg := x.newDog("wait for a response or RPC end")
	defer dg.stop()
	x.mu.Lock()
	for !x.ended && len(x.out) == x.read {
		if h := dg.check(); h != nil {
			x.mu.Unlock()
			return nil, false, h
		}
		x.cond.Wait()
	}
	if !x.ended {
		r := x.take()
		x.mu.Unlock()
		return r, false, nil
	}
	x.mu.Unlock()
	if h := x.quiesceEnded(); h != nil {
		return nil, true, h
	}
	x.mu.Lock()
	defer x.mu.Unlock()
	return append(x.take(), x.late...), true, nil
}

// ParkedOnLock returns the innermost gribigo frame of a goroutine of this session's handler
// that is waiting for a mutex ("" if none): the message the session sent cannot be processed
// before somebody else releases that lock.
func (x *Session) ParkedOnLock() string {
	gid := x.handlerGID.Load()
	for _, g := range Descendants(Parse(Dump()), gid) {
		switch g.State {
		case "sync.Mutex.Lock", "sync.RWMutex.Lock", "sync.RWMutex.RLock":
			if f := g.FirstGribigo(); f != "" {
				return f + "[" + g.State + "]"
			}
		}
	}
	return ""
}

// NewResponses reports how many responses have not been consumed yet.
func (x *Session) NewResponses() int {
	x.mu.Lock()
	defer x.mu.Unlock()
	return len(x.out) - x.read
}
