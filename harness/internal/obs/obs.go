// Package obs turns the observable state of the real code (rib.RIB contents,
// Get responses, hook snapshots) into the plain maps the oracles compare with
// the model.
package obs

import (
	"fmt"
	"sort"
	"strconv"
	"strings"

	"google.golang.org/protobuf/encoding/prototext"
	"google.golang.org/protobuf/proto"

	spb "github.com/openconfig/gribi/v1/proto/service"
	"github.com/openconfig/gribigo/aft"
	"github.com/openconfig/gribigo/rib"

	"verifh/internal/ev"
	"verifh/internal/gen"
	"verifh/internal/model"
)

// State maps installed entry keys to canonical keyed payload messages.
type State map[gen.EntryKey]proto.Message

// FromRIB snapshots a real RIB through RIBContents and the Concrete*Proto
// converters (the same conversion the Get RPC uses).
func FromRIB(r *rib.RIB) (State, error) {
	c, err := r.RIBContents()
	if err != nil {
		return nil, err
	}
	return FromContents(c)
}

// FromContents converts RIBContents output.
func FromContents(c map[string]*aft.RIB) (State, error) {
	st := State{}
	for ni, a := range c {
		if a == nil || a.Afts == nil {
			continue
		}
		for k, e := range a.Afts.Ipv4Entry {
			p, err := rib.ConcreteIPv4Proto(e)
			if err != nil {
				return nil, fmt.Errorf("ipv4 %s/%s: %v", ni, k, err)
			}
			st[gen.EntryKey{NI: ni, Kind: gen.V4, Key: k}] = model.Canon(p)
			if p.GetPrefix() != k {
				return nil, fmt.Errorf("ipv4 %s: map key %q holds entry with prefix %q", ni, k, p.GetPrefix())
			}
		}
		for k, e := range a.Afts.Ipv6Entry {
			p, err := rib.ConcreteIPv6Proto(e)
			if err != nil {
				return nil, fmt.Errorf("ipv6 %s/%s: %v", ni, k, err)
			}
			st[gen.EntryKey{NI: ni, Kind: gen.V6, Key: k}] = model.Canon(p)
			if p.GetPrefix() != k {
				return nil, fmt.Errorf("ipv6 %s: map key %q holds entry with prefix %q", ni, k, p.GetPrefix())
			}
		}
		for k, e := range a.Afts.LabelEntry {
			p, err := rib.ConcreteMPLSProto(e)
			if err != nil {
				return nil, fmt.Errorf("mpls %s/%v: %v", ni, k, err)
			}
			st[gen.EntryKey{NI: ni, Kind: gen.MPLS, Key: strconv.FormatUint(p.GetLabelUint64(), 10)}] = model.Canon(p)
		}
		for k, e := range a.Afts.NextHopGroup {
			p, err := rib.ConcreteNextHopGroupProto(e)
			if err != nil {
				return nil, fmt.Errorf("nhg %s/%d: %v", ni, k, err)
			}
			st[gen.EntryKey{NI: ni, Kind: gen.NHG, Key: strconv.FormatUint(k, 10)}] = model.Canon(p)
			if p.GetId() != k {
				return nil, fmt.Errorf("nhg %s: map key %d holds entry with id %d", ni, k, p.GetId())
			}
		}
		for k, e := range a.Afts.NextHop {
			p, err := rib.ConcreteNextHopProto(e)
			if err != nil {
				return nil, fmt.Errorf("nh %s/%d: %v", ni, k, err)
			}
			st[gen.EntryKey{NI: ni, Kind: gen.NH, Key: strconv.FormatUint(k, 10)}] = model.Canon(p)
			if p.GetIndex() != k {
				return nil, fmt.Errorf("nh %s: map key %d holds entry with index %d", ni, k, p.GetIndex())
			}
		}
	}
	return st, nil
}

// EntryKeyOf returns the key and payload of a Get AFTEntry.
func EntryKeyOf(e *spb.AFTEntry) (gen.EntryKey, proto.Message, bool) {
	var p proto.Message
	switch t := e.GetEntry().(type) {
	case *spb.AFTEntry_Ipv4:
		p = t.Ipv4
	case *spb.AFTEntry_Ipv6:
		p = t.Ipv6
	case *spb.AFTEntry_Mpls:
		p = t.Mpls
	case *spb.AFTEntry_NextHopGroup:
		p = t.NextHopGroup
	case *spb.AFTEntry_NextHop:
		p = t.NextHop
	default:
		return gen.EntryKey{}, nil, false
	}
	kind, key := model.KeyOfPayload(p)
	return gen.EntryKey{NI: e.GetNetworkInstance(), Kind: kind, Key: key}, p, true
}

// FromGet converts Get responses; dups lists keys streamed more than once.
func FromGet(rs []*spb.GetResponse) (st State, dups []gen.EntryKey, bad []string) {
	st = State{}
	for _, r := range rs {
		for _, e := range r.GetEntry() {
			k, p, ok := EntryKeyOf(e)
			if !ok {
				bad = append(bad, prototext.MarshalOptions{}.Format(e))
				continue
			}
			if _, seen := st[k]; seen {
				dups = append(dups, k)
			}
			st[k] = model.Canon(p)
		}
	}
	return
}

// FromModel returns the model's installed entries as a State.
func FromModel(m *model.RIB) State {
	st := State{}
	for k, p := range m.Ent {
		st[k] = p
	}
	return st
}

func short(p proto.Message) string {
	s := prototext.MarshalOptions{Multiline: false}.Format(p)
	s = strings.Join(strings.Fields(s), " ")
	if len(s) > 300 {
		s = s[:300] + "…"
	}
	return s
}

// lineDiff renders both messages as multi-line text and returns the lines
// that occur only on one side.
func lineDiff(w, g proto.Message) (onlyW, onlyG []string) {
	lines := func(m proto.Message) []string {
		var out []string
		for _, l := range strings.Split(prototext.MarshalOptions{Multiline: true}.Format(m), "\n") {
			l = strings.Join(strings.Fields(l), " ")
			if l != "" && l != "}" {
				out = append(out, l)
			}
		}
		return out
	}
	wl, gl := lines(w), lines(g)
	cnt := map[string]int{}
	for _, l := range gl {
		cnt[l]++
	}
	for _, l := range wl {
		if cnt[l] > 0 {
			cnt[l]--
		} else {
			onlyW = append(onlyW, l)
		}
	}
	cnt = map[string]int{}
	for _, l := range wl {
		cnt[l]++
	}
	for _, l := range gl {
		if cnt[l] > 0 {
			cnt[l]--
		} else {
			onlyG = append(onlyG, l)
		}
	}
	return
}

// Diff describes how got differs from want (empty = equal).
func Diff(want, got State) []string {
	var out []string
	var keys []gen.EntryKey
	for k := range want {
		keys = append(keys, k)
	}
	for k := range got {
		if _, ok := want[k]; !ok {
			keys = append(keys, k)
		}
	}
	gen.SortKeys(keys)
	for _, k := range keys {
		w, wok := want[k]
		g, gok := got[k]
		switch {
		case wok && !gok:
			out = append(out, fmt.Sprintf("missing %s (want %s)", k, short(w)))
		case !wok && gok:
			out = append(out, fmt.Sprintf("unexpected %s (got %s)", k, short(g)))
		case !proto.Equal(w, g):
			wo, gonly := lineDiff(w, g)
			out = append(out, fmt.Sprintf("payload of %s differs: only in want %q, only in got %q; want {%s} got {%s}", k, wo, gonly, short(w), short(g)))
		}
	}
	return out
}

// DiffClass names the structural class of a diff for finding signatures.
func DiffClass(d []string) string {
	cl := map[string]bool{}
	for _, l := range d {
		switch {
		case strings.HasPrefix(l, "missing"):
			cl["missing"] = true
		case strings.HasPrefix(l, "unexpected"):
			cl["unexpected"] = true
		default:
			cl["payload"] = true
		}
	}
	var ks []string
	for k := range cl {
		ks = append(ks, k)
	}
	sort.Strings(ks)
	return strings.Join(ks, "+")
}

// CheckInstalled is invariant I1: installed == model.
func CheckInstalled(m *model.RIB, got State, v *ev.Verdict, sig, when string) bool {
	d := Diff(FromModel(m), got)
	if len(d) == 0 {
		return true
	}
	v.Fail(sig+":"+DiffClass(d), "%s: installed entries differ from the model: %s", when, strings.Join(d, "; "))
	return false
}

// CheckHeld is invariant I2: the held ids equal the model's.
func CheckHeld(m *model.RIB, r *rib.RIB, v *ev.Verdict, sig, when string) bool {
	got := r.VerifPending()
	want := m.Held
	var extra, missing []uint64
	for id := range got {
		if _, ok := want[id]; !ok {
			extra = append(extra, id)
		}
	}
	for id := range want {
		if _, ok := got[id]; !ok {
			missing = append(missing, id)
		}
	}
	if len(extra) == 0 && len(missing) == 0 {
		return true
	}
	sort.Slice(extra, func(i, j int) bool { return extra[i] < extra[j] })
	sort.Slice(missing, func(i, j int) bool { return missing[i] < missing[j] })
	cl := ""
	if len(extra) > 0 {
		cl += "extra"
	}
	if len(missing) > 0 {
		cl += "missing"
	}
	v.Fail(sig+":"+cl, "%s: held operations differ from the model: implementation-only ids %v, model-only ids %v", when, extra, missing)
	return false
}

// CheckCounters is invariant I3: every reference counter equals the number of
// installed referrers derived from the model state; zero == absent.
func CheckCounters(m *model.RIB, r *rib.RIB, v *ev.Verdict, sig, when string) bool {
	ok := true
	rc := r.VerifRefCounts()
	for _, ni := range m.NINames() {
		c := rc[ni]
		ids := map[uint64]bool{}
		for id := range c.NextHopGroup {
			ids[id] = true
		}
		for k := range m.Ent {
			if k.Kind == gen.NHG && k.NI == ni {
				n, _ := strconv.ParseUint(k.Key, 10, 64)
				ids[n] = true
			}
		}
		// also groups that are referenced but not installed
		for id := uint64(0); id < 8; id++ {
			ids[id] = true
		}
		for id := range ids {
			want := uint64(m.NHGRefs(ni, id))
			if got := c.NextHopGroup[id]; got != want {
				v.Fail(sig+":nhg", "%s: NI %s group %d reference counter is %d, installed referrers %d", when, ni, id, got, want)
				ok = false
			}
		}
		idx := map[uint64]bool{}
		for id := range c.NextHop {
			idx[id] = true
		}
		for id := uint64(0); id < 8; id++ {
			idx[id] = true
		}
		for id := range idx {
			want := uint64(m.NHRefs(ni, id))
			if got := c.NextHop[id]; got != want {
				v.Fail(sig+":nh", "%s: NI %s next-hop %d reference counter is %d, installed referring groups %d", when, ni, id, got, want)
				ok = false
			}
		}
	}
	return ok
}

// IDs extracts the ids of a result slice.
func IDs(rs []*rib.OpResult) []uint64 {
	out := make([]uint64, 0, len(rs))
	for _, r := range rs {
		out = append(out, r.ID)
	}
	return out
}
