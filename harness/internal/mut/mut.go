// Package mut holds structural protobuf mutators for the malformed-input
// property: each takes a message and a chooser and applies one mutation.
package mut

import (
	"google.golang.org/protobuf/proto"
	"google.golang.org/protobuf/reflect/protoreflect"
)

// Chooser abstracts rapid draws: Intn returns a value in [0,n).
type Chooser interface {
	Intn(n int, label string) int
}

type pos struct {
	m  protoreflect.Message
	fd protoreflect.FieldDescriptor
	// idx >= 0: element of a list
	idx int
}

// walk visits every populated field (recursively) and every list element.
func walk(m protoreflect.Message, f func(p pos)) {
	m.Range(func(fd protoreflect.FieldDescriptor, v protoreflect.Value) bool {
		switch {
		case fd.IsList():
			l := v.List()
			f(pos{m, fd, -1})
			for i := 0; i < l.Len(); i++ {
				f(pos{m, fd, i})
				if fd.Message() != nil {
					walk(l.Get(i).Message(), f)
				}
			}
		case fd.IsMap():
		case fd.Message() != nil:
			f(pos{m, fd, -1})
			walk(v.Message(), f)
		default:
			f(pos{m, fd, -1})
		}
		return true
	})
}

func collect(root proto.Message, pred func(p pos) bool) []pos {
	var out []pos
	walk(root.ProtoReflect(), func(p pos) {
		if pred(p) {
			out = append(out, p)
		}
	})
	return out
}

// Names of the mutators, in the order Apply numbers them.
var Names = []string{"clear-submessage", "zero-scalar", "dup-list-element", "undefined-enum", "invalid-utf8", "boundary-int", "empty-string", "junk-string", "drop-list-element", "set-unset-submessage", "long-bytes"}

var boundaries = []uint64{0, 1, 15, 16, 1048575, 1048576, 1 << 32, 1<<32 + 100, 1 << 63, ^uint64(0)}

var junk = []string{"", "x", "1.1.1.1/33", "10.0.0.1/8", "300.1.1.1/8", "::/129", "2001:db8::/32", "1.0.0.0/8", "zz:zz:zz:zz:zz:zz", "DEFAULT", "NO-SUCH-NI", "\x00", "1.0.0.0/8 "}

// Apply applies mutator k to msg (in place). It reports whether it changed anything.
func Apply(msg proto.Message, k int, c Chooser) bool {
	switch Names[k] {
	case "clear-submessage":
		ps := collect(msg, func(p pos) bool { return p.idx < 0 && !p.fd.IsList() && p.fd.Message() != nil })
		if len(ps) == 0 {
			return false
		}
		p := ps[c.Intn(len(ps), "which")]
		p.m.Clear(p.fd)
		return true
	case "zero-scalar":
		ps := collect(msg, func(p pos) bool {
			return p.idx < 0 && !p.fd.IsList() && p.fd.Message() == nil && p.fd.Kind() != protoreflect.EnumKind && p.fd.Kind() != protoreflect.BytesKind
		})
		if len(ps) == 0 {
			return false
		}
		p := ps[c.Intn(len(ps), "which")]
		p.m.Clear(p.fd)
		return true
	case "dup-list-element":
		ps := collect(msg, func(p pos) bool { return p.idx >= 0 })
		if len(ps) == 0 {
			return false
		}
		p := ps[c.Intn(len(ps), "which")]
		l := p.m.Mutable(p.fd).List()
		v := l.Get(p.idx)
		if p.fd.Message() != nil {
			v = protoreflect.ValueOfMessage(proto.Clone(v.Message().Interface()).ProtoReflect())
		}
		l.Append(v)
		return true
	case "drop-list-element":
		ps := collect(msg, func(p pos) bool { return p.idx >= 0 })
		if len(ps) == 0 {
			return false
		}
		p := ps[c.Intn(len(ps), "which")]
		l := p.m.Mutable(p.fd).List()
		n := l.Len()
		var keep []protoreflect.Value
		for i := 0; i < n; i++ {
			if i != p.idx {
				keep = append(keep, l.Get(i))
			}
		}
		l.Truncate(0)
		for _, v := range keep {
			l.Append(v)
		}
		return true
	case "undefined-enum":
		// any enum field of any (sub)message, populated or not
		var ps []pos
		var rec func(m protoreflect.Message)
		rec = func(m protoreflect.Message) {
			fds := m.Descriptor().Fields()
			for i := 0; i < fds.Len(); i++ {
				fd := fds.Get(i)
				if fd.Kind() == protoreflect.EnumKind && !fd.IsList() {
					ps = append(ps, pos{m, fd, -1})
				}
			}
			m.Range(func(fd protoreflect.FieldDescriptor, v protoreflect.Value) bool {
				if fd.Message() != nil && !fd.IsMap() {
					if fd.IsList() {
						l := v.List()
						for i := 0; i < l.Len(); i++ {
							rec(l.Get(i).Message())
						}
					} else {
						rec(v.Message())
					}
				}
				return true
			})
		}
		rec(msg.ProtoReflect())
		if len(ps) == 0 {
			return false
		}
		p := ps[c.Intn(len(ps), "which")]
		nums := []protoreflect.EnumNumber{99, -1, 1000000, 2147483647}
		p.m.Set(p.fd, protoreflect.ValueOfEnum(nums[c.Intn(len(nums), "enum")]))
		return true
	case "long-bytes":
		// a bytes field grows beyond the longest value the generators use (8 bytes)
		ps := collect(msg, func(p pos) bool { return p.idx < 0 && !p.fd.IsList() && p.fd.Kind() == protoreflect.BytesKind })
		if len(ps) == 0 {
			return false
		}
		p := ps[c.Intn(len(ps), "which")]
		n := []int{9, 16, 255, 4096}[c.Intn(4, "len")]
		b := make([]byte, n)
		for i := range b {
			b[i] = byte('a' + i%26)
		}
		p.m.Set(p.fd, protoreflect.ValueOfBytes(b))
		return true
	case "invalid-utf8", "empty-string", "junk-string":
		ps := collect(msg, func(p pos) bool { return p.idx < 0 && !p.fd.IsList() && p.fd.Kind() == protoreflect.StringKind })
		if len(ps) == 0 {
			return false
		}
		p := ps[c.Intn(len(ps), "which")]
		switch Names[k] {
		case "invalid-utf8":
			s := p.m.Get(p.fd).String()
			cut := 0
			if len(s) > 0 {
				cut = c.Intn(len(s)+1, "cut")
			}
			p.m.Set(p.fd, protoreflect.ValueOfString(s[:cut]+"\xff\xfe"+s[cut:]))
		case "empty-string":
			p.m.Set(p.fd, protoreflect.ValueOfString(""))
		default:
			p.m.Set(p.fd, protoreflect.ValueOfString(junk[c.Intn(len(junk), "junk")]))
		}
		return true
	case "boundary-int":
		ps := collect(msg, func(p pos) bool {
			return !p.fd.IsList() && (p.fd.Kind() == protoreflect.Uint64Kind || p.fd.Kind() == protoreflect.Uint32Kind)
		})
		if len(ps) == 0 {
			return false
		}
		p := ps[c.Intn(len(ps), "which")]
		b := boundaries[c.Intn(len(boundaries), "boundary")]
		if p.fd.Kind() == protoreflect.Uint32Kind {
			p.m.Set(p.fd, protoreflect.ValueOfUint32(uint32(b)))
		} else {
			p.m.Set(p.fd, protoreflect.ValueOfUint64(b))
		}
		return true
	case "set-unset-submessage":
		// populate a message-typed field that is currently unset with its zero message
		var ps []pos
		var rec func(m protoreflect.Message, depth int)
		rec = func(m protoreflect.Message, depth int) {
			if depth > 4 {
				return
			}
			fds := m.Descriptor().Fields()
			for i := 0; i < fds.Len(); i++ {
				fd := fds.Get(i)
				if fd.Message() != nil && !fd.IsList() && !fd.IsMap() && !m.Has(fd) && fd.ContainingOneof() == nil {
					ps = append(ps, pos{m, fd, -1})
				}
			}
			m.Range(func(fd protoreflect.FieldDescriptor, v protoreflect.Value) bool {
				if fd.Message() != nil && !fd.IsList() && !fd.IsMap() {
					rec(v.Message(), depth+1)
				}
				return true
			})
		}
		rec(msg.ProtoReflect(), 0)
		if len(ps) == 0 {
			return false
		}
		p := ps[c.Intn(len(ps), "which")]
		p.m.Set(p.fd, protoreflect.ValueOfMessage(p.m.NewField(p.fd).Message()))
		return true
	}
	return false
}
