package c07

import (
	"fmt"
	"strings"
	"testing"

	"verifh/internal/drive"
	"verifh/internal/ev"
	"verifh/internal/gen"
	"verifh/internal/hgen"
	"verifh/internal/l1"
	"verifh/internal/model"
)

// dp is the data-provider layer of the native fuzz target: the fuzzer's bytes
// are consumed as choices (which optional field is present, which value it
// takes), so that every input decodes to schema-shaped operations and the
// fuzzer explores field combinations instead of dying in input validation.
type dp struct {
	b []byte
	i int
}

func (d *dp) byte() byte {
	if d.i >= len(d.b) {
		return 0
	}
	x := d.b[d.i]
	d.i++
	return x
}
func (d *dp) bit() bool { return d.byte()&1 == 1 }
func (d *dp) n(max int) int {
	if max <= 0 {
		return 0
	}
	return int(d.byte()) % (max + 1)
}
func (d *dp) u64() uint64 {
	// 1 selector byte: small, byte-sized, or wide values
	switch d.byte() % 4 {
	case 0:
		return uint64(d.byte() % 4)
	case 1:
		return uint64(d.byte())
	case 2:
		return uint64(d.byte())<<8 | uint64(d.byte())
	}
	var v uint64
	for k := 0; k < 8; k++ {
		v = v<<8 | uint64(d.byte())
	}
	return v
}
func (d *dp) label() uint64 {
	return 16 + (uint64(d.byte())<<16|uint64(d.byte())<<8|uint64(d.byte()))%(1048575-16+1)
}
func (d *dp) ip4() string { return fmt.Sprintf("%d.%d.%d.%d", d.byte(), d.byte(), d.byte(), d.byte()) }
func (d *dp) ip6() string {
	return fmt.Sprintf("2001:db8:%x::%x", uint16(d.byte())<<8|uint16(d.byte()), d.byte())
}
func (d *dp) mac() string {
	return fmt.Sprintf("%02x:%02x:%02x:%02x:%02x:%02x", d.byte(), d.byte(), d.byte(), d.byte(), d.byte(), d.byte())
}
func (d *dp) labels(max int) []uint64 {
	var out []uint64
	for k := d.n(max); k > 0; k-- {
		out = append(out, d.label())
	}
	return out
}

var fzNIs = []string{"DEFAULT", "VRF-A", "VRF-B"}
var fzHeaders = []int32{0, gen.EncapIPv4, gen.EncapMPLS, gen.EncapUDPV6, 1, 2}
var fzPfx4 = []string{"1.0.0.0/8", "10.1.0.0/16", "192.0.2.0/24", "0.0.0.0/0", "198.51.100.1/32"}
var fzPfx6 = []string{"2001:db8::/32", "::/0", "2001:db8:1::/48", "2001:db8::1/128"}

func (d *dp) op(id uint64) *gen.Op {
	o := &gen.Op{ID: id, NI: fzNIs[d.n(2)], Act: gen.ADD}
	if d.n(7) == 0 {
		o.Act = gen.REPLACE
	}
	switch d.n(4) {
	case 0:
		o.Kind = gen.NH
		o.Key = fmt.Sprint(1 + d.n(4))
		if d.bit() {
			o.IP = d.ip4()
		}
		if d.bit() {
			o.MAC = d.mac()
		}
		if d.bit() {
			o.Intf = []string{"eth0", "Ethernet1/2", "lo"}[d.n(2)]
		}
		if d.bit() {
			o.Subintf = gen.U(d.u64() % (1 << 32))
			if o.Intf == "" {
				o.Intf = "eth1"
			}
		}
		if d.bit() {
			o.IPinIPSrc, o.IPinIPDst = d.ip4(), d.ip4()
		}
		if d.bit() {
			o.EncapH = fzHeaders[d.n(len(fzHeaders)-1)]
		}
		if d.bit() {
			o.Decap = fzHeaders[d.n(len(fzHeaders)-1)]
		}
		if d.bit() {
			o.Pushed = d.labels(4)
		}
		if d.bit() {
			o.PopTop = true
		}
		if d.bit() {
			o.NHNI = fzNIs[d.n(2)]
		}
		seenEH := map[uint64]bool{}
		for k := d.n(3); k > 0; k-- {
			e := gen.Encap{Index: uint64(1 + d.n(3))}
			if seenEH[e.Index] {
				continue // a keyed list with a repeated key is ambiguous input
			}
			seenEH[e.Index] = true
			if d.bit() {
				e.Type = "mpls"
				e.Labels = d.labels(3)
			} else {
				e.Type = "udpv6"
				if d.bit() {
					e.DSCP = gen.U(d.u64() % 64)
				}
				if d.bit() {
					e.DstIP = d.ip6()
				}
				if d.bit() {
					e.DstPort = gen.U(d.u64() % 65536)
				}
				if d.bit() {
					e.TTL = gen.U(d.u64() % 256)
				}
				if d.bit() {
					e.SrcIP = d.ip6()
				}
				if d.bit() {
					e.SrcPort = gen.U(d.u64() % 65536)
				}
			}
			o.Encaps = append(o.Encaps, e)
		}
	case 1:
		o.Kind = gen.NHG
		o.Key = fmt.Sprint(1 + d.n(3))
		seenH := map[uint64]bool{}
		for k := 1 + d.n(3); k > 0; k-- {
			h := gen.Hop{Index: uint64(1 + d.n(4))}
			if seenH[h.Index] {
				continue
			}
			seenH[h.Index] = true
			if d.bit() {
				h.Weight = gen.U(d.u64())
			}
			o.Hops = append(o.Hops, h)
		}
		if d.bit() {
			o.Backup = gen.U(uint64(1 + d.n(3)))
		}
		if d.bit() {
			o.Color = gen.U(d.u64())
		}
	default:
		switch d.n(2) {
		case 0:
			o.Kind, o.Key = gen.V4, fzPfx4[d.n(len(fzPfx4)-1)]
		case 1:
			o.Kind, o.Key = gen.V6, fzPfx6[d.n(len(fzPfx6)-1)]
		default:
			o.Kind, o.Key = gen.MPLS, fmt.Sprint(d.label())
			if d.bit() {
				o.Popped = d.labels(4)
			}
		}
		o.Group = uint64(1 + d.n(3))
		if d.bit() {
			o.GroupNI = fzNIs[d.n(2)]
		}
		if d.bit() {
			for k := 1 + d.n(5); k > 0; k-- {
				o.Meta = append(o.Meta, d.byte())
			}
		}
		if o.Kind != gen.MPLS && d.bit() {
			o.Decap = fzHeaders[d.n(len(fzHeaders)-1)]
		}
	}
	return o
}

// FuzzGet: coverage-guided search over payload field combinations; the oracle
// (request matrix, payload fidelity, union relations, rebuild) is inside the
// target.
func FuzzGet(f *testing.F) {
	f.Add([]byte{3, 0, 0, 1, 1, 192, 0, 2, 1, 1, 0, 1, 1, 1, 1, 0, 2, 0, 0, 0, 1, 1})
	f.Add([]byte(strings.Repeat("\x01", 64)))
	f.Add([]byte(strings.Repeat("\xff", 96)))
	f.Add([]byte("gribi-get-fidelity-seed-0123456789abcdefghijklmnopqrstuvwxyz"))
	f.Fuzz(func(t *testing.T, data []byte) {
		v := runFuzz(data)
		if len(v.Findings) > 0 {
			t.Fatalf("%v", v.Findings)
		}
	})
}

// runFuzz is the body shared by the fuzz target and the replay path.
func runFuzz(data []byte) *ev.Verdict {
	d := &dp{b: data}
	s := drive.NewSrv(true, hgen.NIs[1:])
	r := s.S.VerifRIB()
	m := model.New("DEFAULT", hgen.NIs[1:], true)
	v := &ev.Verdict{}
	sent := map[uint64]*gen.Op{}
	nops := 1 + d.n(11)
	for i := 0; i < nops; i++ {
		o := d.op(uint64(i + 1))
		p := o.Proto()
		sent[o.ID] = o
		var oks []uint64
		var err error
		if pn := l1.Protect(func() {
			ok, _, e := r.AddEntry(o.NI, p)
			err = e
			for _, x := range ok {
				oks = append(oks, x.ID)
			}
		}); pn != "" {
			v.Fail("C07/fuzz-panic", "AddEntry panicked on %s: %s", o, pn)
			return v
		}
		if err != nil {
			continue // rejected by validation: not C07's subject
		}
		for _, id := range oks {
			so := sent[id]
			sp := so.Proto()
			if k, ok := model.KeyOf(so.NI, sp); ok {
				m.Ent[k] = model.Canon(model.Payload(sp))
			}
		}
		if d.i >= len(d.b) {
			break
		}
	}
	matrix(s, m, v, hgen.NIs)
	return v
}
