package c08

import (
	"encoding/json"
	"fmt"
	"strings"
	"testing"

	"google.golang.org/grpc/codes"
	"google.golang.org/grpc/status"
	"pgregory.net/rapid"

	spb "github.com/openconfig/gribi/v1/proto/service"
	"github.com/openconfig/gribigo/rib"
	"github.com/openconfig/gribigo/server"

	"verifh/internal/drive"
	"verifh/internal/ev"
	"verifh/internal/gen"
	"verifh/internal/hgen"
	"verifh/internal/l1"
	"verifh/internal/l2"
	"verifh/internal/model"
	"verifh/internal/obs"
)

func TestMain(m *testing.M) { ev.Main(m, "C08", "exploration") }

// FlushSpec describes one Flush request.
type FlushSpec struct {
	Target string    `json:"target"` // a network instance name | "all" | "unset" | "empty" | "unknown"
	Elec   string    `json:"elec"`   // "unset" | "override" | "id"
	ID     gen.ID128 `json:"id"`
}

func (f FlushSpec) String() string {
	e := f.Elec
	if e == "id" {
		e = "id" + f.ID.String()
	}
	return fmt.Sprintf("flush(target=%s, election=%s)", f.Target, e)
}

func (f FlushSpec) Proto() *spb.FlushRequest {
	r := &spb.FlushRequest{}
	switch f.Target {
	case "all":
		r.NetworkInstance = &spb.FlushRequest_All{All: &spb.Empty{}}
	case "unset":
	case "empty":
		r.NetworkInstance = &spb.FlushRequest_Name{Name: ""}
	case "unknown":
		r.NetworkInstance = &spb.FlushRequest_Name{Name: "NO-SUCH-NI"}
	default:
		r.NetworkInstance = &spb.FlushRequest_Name{Name: f.Target}
	}
	switch f.Elec {
	case "override":
		r.Election = &spb.FlushRequest_Override{Override: &spb.Empty{}}
	case "id":
		r.Election = &spb.FlushRequest_Id{Id: f.ID.Proto()}
	}
	return r
}

// Case: RIB contents are built by the history prefix up to its (single) Flush
// step; there every rejected cell of the decision table is sent (each must be
// refused with the specified status and change nothing), then the Accepted
// flush; the rest of the history is the epilogue.
type Case struct {
	Mode     string       `json:"mode"` // "elected": contents through Modify, server has learnt Cur; "injected": contents injected, no election id learnt
	Cur      gen.ID128    `json:"cur"`
	H        hgen.History `json:"h"`
	Accepted FlushSpec    `json:"accepted"`
	Batch    []int        `json:"batch,omitempty"`
	Bulk     bool         `json:"bulk,omitempty"`
	// mode "inject" (inject_test.go): an operation is started at a chosen point inside a Flush
	Inject *Inject `json:"inject,omitempty"`
	// mode "nocheck" (nocheck_test.go): the instances flushed on a RIB built with DisableRIBCheckFn
	NoCheck []string `json:"nocheck,omitempty"`
}

func setup() {
	c := ev.C()
	c.Rule = "RIB contents from model-aimed histories biased to backup groups (shared, missing, circular) and cross-NI references; at the flush point the full decision table {DEFAULT,VRF-A,VRF-B,all,unset,\"\",unknown} x {no election field, override, id in {0, lower (low word / high word / low-bigger-high-smaller), equal, higher (low / high word)}} is enumerated against server election state {learnt id from a 128-bit lattice, none learnt (contents injected)}: every non-authorised or malformed cell must return the specified code+reason and change nothing (Get + hooks), then one drawn authorised cell must answer OK, empty exactly its targets, leave the others identical and counters consistent, and a generated epilogue of further operations must behave as the model predicts. Plus (rib API) RIBs built with DisableRIBCheckFn (the reconciler's configuration) holding entries whose group is missing or whose group network instance is unknown: a Flush must succeed, empty exactly its targets and leave the rest as read back before. Plus (rib API) Flushes of 1-3 instances in a drawn order that are stopped through the post-change hook at a drawn removal notification, where one further operation is started on another goroutine and the Flush resumes only once that operation returned or is parked on a lock (goroutine state): the final contents must equal 'operation, then flush' or 'flush, then operation' (belief model, forward references off), Flush must report success and counters must equal referrers. Non-trivial = at the flush point >=2 network instances are non-empty and there is a cross-NI reference or a backup group (injection cases: the injection happened and >=2 instances were non-empty); distinct by FNV-64 of the case JSON. Later additions: the injected schedules may register the resolved-entry hook and their second actor may be AddNetworkInstance; rib-level calls run under the watchdog; one shard runs with glog -v=2."
	c.Assumptions = []string{
		"status for a zero election id: reason INVALID_ELECTION_ID with code INVALID_ARGUMENT or FAILED_PRECONDITION (the proto comment fixes only the reason)",
		"when several defects of a request coincide any applicable status is accepted",
	}
}

type want struct {
	codes  []codes.Code
	reason spb.FlushResponseError_Reason
}

// expect returns the acceptable statuses (empty = authorised and well-formed).
func expect(f FlushSpec, cur *gen.ID128) []want {
	var w []want
	switch f.Target {
	case "unset":
		w = append(w, want{[]codes.Code{codes.InvalidArgument}, spb.FlushResponseError_UNSPECIFIED_NETWORK_INSTANCE})
	case "empty":
		w = append(w, want{[]codes.Code{codes.InvalidArgument}, spb.FlushResponseError_INVALID_NETWORK_INSTANCE})
	case "unknown":
		w = append(w, want{[]codes.Code{codes.InvalidArgument}, spb.FlushResponseError_NO_SUCH_NETWORK_INSTANCE})
	}
	switch f.Elec {
	case "unset":
		if cur != nil {
			w = append(w, want{[]codes.Code{codes.FailedPrecondition}, spb.FlushResponseError_UNSPECIFIED_ELECTION_BEHAVIOR})
		}
	case "id":
		if cur == nil {
			w = append(w, want{[]codes.Code{codes.FailedPrecondition}, spb.FlushResponseError_ELECTION_ID_IN_ALL_PRIMARY})
		}
		if f.ID.IsZero() {
			w = append(w, want{[]codes.Code{codes.InvalidArgument, codes.FailedPrecondition}, spb.FlushResponseError_INVALID_ELECTION_ID})
		} else if cur != nil && f.ID.Cmp(*cur) < 0 {
			w = append(w, want{[]codes.Code{codes.FailedPrecondition}, spb.FlushResponseError_NOT_PRIMARY})
		}
	}
	return w
}

func matches(err error, ws []want) (bool, string) {
	st, ok := status.FromError(err)
	if !ok {
		return false, fmt.Sprintf("not a status error: %v", err)
	}
	var reasons []string
	for _, d := range st.Details() {
		if fe, ok := d.(*spb.FlushResponseError); ok {
			reasons = append(reasons, fe.GetStatus().String())
			for _, w := range ws {
				if fe.GetStatus() != w.reason {
					continue
				}
				for _, c := range w.codes {
					if c == st.Code() {
						return true, ""
					}
				}
			}
		}
	}
	return false, fmt.Sprintf("code %s, reasons %v", st.Code(), reasons)
}

func wantString(ws []want) string {
	var s []string
	for _, w := range ws {
		s = append(s, fmt.Sprintf("%v/%s", w.codes, w.reason))
	}
	return strings.Join(s, " or ")
}

var targets = []string{"DEFAULT", "VRF-A", "VRF-B", "all", "unset", "empty", "unknown"}

// idsAround returns election ids around cur: lower ones and equal/higher ones.
func idsAround(cur *gen.ID128) []gen.ID128 {
	if cur == nil {
		return []gen.ID128{{Hi: 0, Lo: 0}, {Hi: 0, Lo: 1}, {Hi: 1, Lo: 0}}
	}
	c := *cur
	out := []gen.ID128{{Hi: 0, Lo: 0}, c, {Hi: c.Hi + 1, Lo: 0}}
	if c.Lo > 0 {
		out = append(out, gen.ID128{Hi: c.Hi, Lo: c.Lo - 1})
		out = append(out, gen.ID128{Hi: c.Hi + 1, Lo: c.Lo - 1})
	}
	if c.Lo < ^uint64(0) {
		out = append(out, gen.ID128{Hi: c.Hi, Lo: c.Lo + 1})
	}
	if c.Hi > 0 {
		out = append(out, gen.ID128{Hi: c.Hi - 1, Lo: ^uint64(0)})
		if c.Lo < ^uint64(0)-7 {
			out = append(out, gen.ID128{Hi: c.Hi - 1, Lo: c.Lo + 7})
		}
	}
	if c.Cmp(gen.ID128{Hi: 0, Lo: 1}) > 0 {
		out = append(out, gen.ID128{Hi: 0, Lo: 1})
	}
	return out
}

// cells enumerates the whole decision table.
func cells(cur *gen.ID128) []FlushSpec {
	var out []FlushSpec
	for _, t := range targets {
		out = append(out, FlushSpec{Target: t, Elec: "unset"}, FlushSpec{Target: t, Elec: "override"})
		for _, id := range idsAround(cur) {
			out = append(out, FlushSpec{Target: t, Elec: "id", ID: id})
		}
	}
	return out
}

func targetNIs(t string) []string {
	if t == "all" {
		return hgen.NIs
	}
	return []string{t}
}

type flushStats struct {
	rejectedCells int
	nonEmptyNIs   int
	crossOrBackup bool
	removed       int
	survivors     int
}

// doFlushPoint runs the rejected cells and then the accepted flush.
func doFlushPoint(c Case, s *drive.Srv, m *model.RIB, cur *gen.ID128, observe func(when string) bool, v *ev.Verdict, fs *flushStats) ([]string, bool) {
	// classify the contents at the flush point
	nonEmpty := map[string]bool{}
	for k, p := range m.Ent {
		nonEmpty[k.NI] = true
		if k.Kind == gen.NHG {
			if g := p.(interface{ String() string }); strings.Contains(g.String(), "backup_next_hop_group") {
				fs.crossOrBackup = true
			}
		}
		if k.Kind == gen.V4 || k.Kind == gen.V6 || k.Kind == gen.MPLS {
			if r := model.RefString(k.NI, p); !strings.HasPrefix(r, "g:"+k.NI+"/") {
				fs.crossOrBackup = true
			}
		}
	}
	fs.nonEmptyNIs = len(nonEmpty)

	for _, cell := range cells(cur) {
		ws := expect(cell, cur)
		if len(ws) == 0 {
			continue
		}
		fs.rejectedCells++
		resp, err, hg := s.Flush(cell.Proto())
		if hg != nil {
			l2.HangFinding(v, "C08", hg)
			return nil, false
		}
		if err == nil {
			v.Fail("C08/rejected-cell-accepted:"+cell.Target+"/"+cell.Elec, "%s with server election id %v must be refused with %s but returned %v", cell, cur, wantString(ws), resp)
		} else if ok, got := matches(err, ws); !ok {
			v.Fail("C08/wrong-status:"+cell.Target+"/"+cell.Elec, "%s with server election id %v: want %s, got %s (%v)", cell, cur, wantString(ws), got, err)
		}
		if !observe(fmt.Sprintf("after refused %s", cell)) {
			return nil, false
		}
	}
	// the accepted flush
	if ws := expect(c.Accepted, cur); len(ws) != 0 {
		panic("generator produced a non-authorised 'accepted' flush: " + c.Accepted.String())
	}
	before := len(m.Ent)
	resp, err, hg := s.Flush(c.Accepted.Proto())
	if hg != nil {
		l2.HangFinding(v, "C08", hg)
		return nil, false
	}
	nis := targetNIs(c.Accepted.Target)
	if err != nil {
		st, _ := status.FromError(err)
		// what is left decides the signature
		v.Fail("C08/authorised-flush-error:"+st.Code().String(), "%s with server election id %v is authorised and well-formed but failed: %v", c.Accepted, cur, err)
	} else if resp.GetResult() != spb.FlushResponse_OK {
		v.Fail("C08/authorised-flush-not-ok", "%s returned result %s", c.Accepted, resp.GetResult())
	}
	mm := m.Clone()
	mm.Flush(nis)
	fs.removed = before - len(mm.Ent)
	fs.survivors = len(mm.Ent)
	return nis, true
}

func runCase(c Case) *ev.Verdict {
	if c.Mode == "inject" {
		return runInject(c)
	}
	if c.Mode == "nocheck" {
		return runNoCheck(c)
	}
	fs := &flushStats{}
	var v *ev.Verdict
	switch c.Mode {
	case "injected":
		v = runInjected(c, fs)
	default:
		cur := c.Cur
		v, _ = l2.RunHistory(c.H, l2.Opts{P: "C08", Trusted: true, Batch: c.Batch, Elec: &cur,
			OnFlush: func(s *drive.Srv, m *model.RIB, step int, st hgen.Step, observe func(string) bool, vv *ev.Verdict) ([]string, bool) {
				return doFlushPoint(c, s, m, &cur, observe, vv, fs)
			}})
	}
	v.Class("mode:" + c.Mode)
	v.Class("accepted:" + c.Accepted.Target + "/" + c.Accepted.Elec)
	if fs.crossOrBackup {
		v.Class("cross-ni-ref-or-backup")
	}
	if fs.survivors > 0 && fs.removed > 0 {
		v.Class("removed-some-kept-others")
	}
	v.NonTrivial = fs.nonEmptyNIs >= 2 && fs.crossOrBackup && fs.rejectedCells > 0
	return v
}

// runInjected builds the contents at L1, injects them into a fake server that
// has learnt no election id, and runs the decision table there.
func runInjected(c Case, fs *flushStats) *ev.Verdict {
	var prefix hgen.History
	prefix.FwdRefs = c.H.FwdRefs
	for _, st := range c.H.Steps {
		if st.Op == nil {
			break
		}
		prefix.Steps = append(prefix.Steps, st)
	}
	var r *rib.RIB
	var m *model.RIB
	v, _ := l1.Run(prefix, l1.Opts{P: "C08", Trusted: true, AfterStep: func(i int, rr *rib.RIB, mm *model.RIB, _ *ev.Verdict) { r, m = rr, mm }})
	if len(v.Findings) > 0 {
		return v
	}
	if r == nil {
		r = l1.NewRIB(c.H.FwdRefs, l1.Opts{})
		m = model.New("DEFAULT", hgen.NIs[1:], c.H.FwdRefs)
	}
	f, err := server.NewFake()
	if err != nil {
		panic(err)
	}
	f.InjectRIB(r)
	s := &drive.Srv{S: f.Server}
	observe := func(when string) bool {
		got, ok := l2.Observe(s, v, "C08", when)
		if !ok {
			return false
		}
		obs.CheckInstalled(m, got, v, "C08/installed-vs-model", when)
		obs.CheckHeld(m, r, v, "C08/held-vs-model", when)
		obs.CheckCounters(m, r, v, "C08/counter-vs-referrers", when)
		return len(v.Findings) == 0
	}
	nis, ok := doFlushPoint(c, s, m, nil, observe, v, fs)
	if !ok {
		return v
	}
	m.Flush(nis)
	observe(fmt.Sprintf("after authorised %s", c.Accepted))
	return v
}

func TestReplay(t *testing.T) {
	setup()
	for _, f := range ev.ReplayFiles() {
		var c Case
		if err := ev.LoadCase(f, &c); err != nil {
			t.Fatalf("%s: %v", f, err)
		}
		for i := 0; i < 20; i++ {
			v := runCase(c)
			if fresh := ev.C().Record(ev.JSON(c), v); len(fresh) > 0 {
				t.Errorf("%s: %v", f, fresh)
				break
			}
		}
	}
}

var curs = []gen.ID128{{Hi: 0, Lo: 5}, {Hi: 1, Lo: 5}, {Hi: 2, Lo: 1}, {Hi: 1, Lo: ^uint64(0)}, {Hi: 5, Lo: 0}, {Hi: 0, Lo: 1}}

func drawCase(rt *rapid.T) Case {
	cfg := hgen.DefaultCfg()
	cfg.FlushPct = 0
	cfg.Backups = 45
	cfg.MinLen, cfg.MaxLen = 4, 22
	c := Case{Mode: "elected"}
	if rapid.IntRange(0, 4).Draw(rt, "injected?") == 0 {
		c.Mode = "injected"
	}
	c.Cur = curs[rapid.IntRange(0, len(curs)-1).Draw(rt, "cur")]
	var pre hgen.History
	if rapid.IntRange(0, 11).Draw(rt, "bulk?") == 7 {
		// a large RIB: dozens of next-hops and groups (often in one instance), 100+ referrers
		bc := hgen.DefaultBulk()
		bc.BuildOnly = true
		pre = hgen.DrawBulk(rt, bc)
		c.Bulk = true
	} else {
		pre = hgen.DrawHistory(rt, cfg)
	}
	c.H.FwdRefs = pre.FwdRefs
	c.H.Steps = append(c.H.Steps, pre.Steps...)
	var cur *gen.ID128
	if c.Mode == "elected" {
		cur = &c.Cur
	}
	// the accepted cell: drawn among the authorised ones
	var auth []FlushSpec
	for _, cell := range cells(cur) {
		if len(expect(cell, cur)) == 0 {
			auth = append(auth, cell)
		}
	}
	c.Accepted = auth[rapid.IntRange(0, len(auth)-1).Draw(rt, "accepted")]
	c.H.Steps = append(c.H.Steps, hgen.Step{Flush: targetNIs(c.Accepted.Target)})
	if c.Mode == "elected" {
		// epilogue: continue the history against a belief model after the flush
		m := model.New("DEFAULT", hgen.NIs[1:], c.H.FwdRefs)
		id := uint64(0)
		for _, st := range pre.Steps {
			if st.Op != nil {
				m.BeliefApply(st.Op.NI, st.Op.Proto())
				if st.Op.ID > id {
					id = st.Op.ID
				}
			}
		}
		m.Flush(targetNIs(c.Accepted.Target))
		n := rapid.IntRange(0, 8).Draw(rt, "epilogue")
		ecfg := cfg
		for i := 0; i < n; i++ {
			id++
			o := hgen.DrawOp(rt, m, ecfg, id)
			c.H.Steps = append(c.H.Steps, hgen.Step{Op: o})
			m.BeliefApply(o.NI, o.Proto())
		}
		c.Batch = []int{rapid.IntRange(1, 6).Draw(rt, "batch")}
		if c.Bulk {
			c.Batch = []int{rapid.IntRange(16, 64).Draw(rt, "bigbatch")}
		}
	}
	return c
}

func TestCampaign(t *testing.T) {
	setup()
	col := ev.C()
	t.Run("random", func(t *testing.T) {
		rapid.Check(t, func(rt *rapid.T) {
			c := drawCase(rt)
			v := runCase(c)
			if c.Bulk {
				v.Class("bulk-rib")
			}
			col.Check(rt, ev.JSON(c), v)
		})
	})
	t.Run("flush-with-reference-checks-disabled", func(t *testing.T) {
		rapid.Check(t, func(rt *rapid.T) {
			c := drawNoCheck(rt)
			v := runCase(c)
			col.Check(rt, ev.JSON(c), v)
		})
	})
	t.Run("operation-injected-inside-a-flush", func(t *testing.T) {
		rapid.Check(t, func(rt *rapid.T) {
			c := drawInject(rt)
			v := runCase(c)
			col.Check(rt, ev.JSON(c), v)
		})
	})
	col.MinimizeAll(minimize)
}

func minimize(sig string, cs []byte) []byte {
	var c Case
	if err := json.Unmarshal(cs, &c); err != nil {
		return nil
	}
	if c.Mode == "inject" || c.Mode == "nocheck" {
		fails := ev.Bounded(func(h hgen.History) bool {
			cc := c
			cc.H = h
			for i := 0; i < 3; i++ {
				if runCase(cc).HasSig(sig) {
					return true
				}
			}
			return false
		})
		if !fails(c.H) {
			return nil
		}
		c.H = hgen.Minimize(c.H, fails)
		return ev.JSON(c)
	}
	fails := func(h hgen.History) bool {
		nf := 0
		for _, s := range h.Steps {
			if s.Op == nil {
				nf++
			}
		}
		if nf != 1 {
			return false
		}
		cc := c
		cc.H = h
		for i := 0; i < 3; i++ {
			if runCase(cc).HasSig(sig) {
				return true
			}
		}
		return false
	}
	fails = ev.Bounded(fails)
	if !fails(c.H) {
		return nil
	}
	c.H = hgen.Minimize(c.H, fails)
	return ev.JSON(c)
}
