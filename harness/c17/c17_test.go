package c17

import (
	"errors"
	"fmt"
	"testing"

	"google.golang.org/grpc/codes"
	"google.golang.org/grpc/status"
	"google.golang.org/protobuf/proto"
	"pgregory.net/rapid"

	spb "github.com/openconfig/gribi/v1/proto/service"
	"github.com/openconfig/gribigo/chk"
	"github.com/openconfig/gribigo/client"
	"github.com/openconfig/gribigo/constants"
	"github.com/openconfig/gribigo/fluent"

	"verifh/internal/captb"
	"verifh/internal/ev"
	"verifh/internal/gen"
)

func TestMain(m *testing.M) { ev.Main(m, "C17", "exploration") }

// Det mirrors client.OpDetailsResults.
type Det struct {
	Type int64  `json:"type"`
	NH   uint64 `json:"nh,omitempty"`
	NHG  uint64 `json:"nhg,omitempty"`
	V4   string `json:"v4,omitempty"`
	V6   string `json:"v6,omitempty"`
	MPLS uint64 `json:"mpls,omitempty"`
}

// Res mirrors client.OpResult (without timestamps).
type Res struct {
	Elec   *gen.ID128 `json:"elec,omitempty"`
	Params bool       `json:"params,omitempty"`
	OpID   uint64     `json:"opid,omitempty"`
	CErr   string     `json:"cerr,omitempty"`
	SErr   string     `json:"serr,omitempty"`
	Prog   int32      `json:"prog,omitempty"`
	Det    *Det       `json:"det,omitempty"`
	TS     int64      `json:"ts,omitempty"`
}

func (r Res) Go() *client.OpResult {
	o := &client.OpResult{OperationID: r.OpID, ClientError: r.CErr, ServerError: r.SErr, ProgrammingResult: spb.AFTResult_Status(r.Prog), Timestamp: r.TS, Latency: r.TS / 2}
	if r.Elec != nil {
		o.CurrentServerElectionID = r.Elec.Proto()
	}
	if r.Params {
		o.SessionParameters = &spb.SessionParametersResult{Status: spb.SessionParametersResult_OK}
	}
	if r.Det != nil {
		o.Details = &client.OpDetailsResults{Type: constants.OpType(r.Det.Type), NextHopIndex: r.Det.NH, NextHopGroupID: r.Det.NHG, IPv4Prefix: r.Det.V4, IPv6Prefix: r.Det.V6, MPLSLabel: r.Det.MPLS}
	}
	return o
}

// Entry is a Get entry / wanted entry.
type Entry struct {
	NI   string `json:"ni"`
	Kind string `json:"k"`
	Key  string `json:"key"`
}

// StatusSpec is a gRPC status with optional ModifyRPCErrorDetails.
type StatusSpec struct {
	Code   uint32 `json:"code"`
	Msg    string `json:"msg,omitempty"`
	Reason *int32 `json:"reason,omitempty"`
}

func (s StatusSpec) Status() *status.Status {
	st := status.New(codes.Code(s.Code), s.Msg)
	if s.Reason != nil {
		d, err := st.WithDetails(&spb.ModifyRPCErrorDetails{Reason: spb.ModifyRPCErrorDetails_Reason(*s.Reason)})
		if err == nil {
			return d
		}
	}
	return st
}

// Case covers all helpers; Helper selects which one is exercised.
type Case struct {
	Helper                    string `json:"helper"` // HasResult | HasResultsCache | GetResponseHasEntries | HasNSendErrors | HasNRecvErrors | HasRecvClientErrorWithStatus
	Res                       []Res  `json:"res,omitempty"`
	Wants                     []Res  `json:"wants,omitempty"`
	IgnoreOpID, IncludeSrvErr bool
	// Get
	Got   []Entry `json:"got,omitempty"`
	WantE []Entry `json:"wante,omitempty"`
	// errors
	ErrKind                    string       `json:"errkind,omitempty"` // nil | other | client
	Send                       []StatusSpec `json:"send,omitempty"`
	Recv                       []StatusSpec `json:"recv,omitempty"`
	PlainRecv                  int          `json:"plainrecv,omitempty"` // additional non-status receive errors
	Count                      int          `json:"count,omitempty"`
	WantS                      *StatusSpec  `json:"wants_status,omitempty"`
	AllowUnimpl, IgnoreDetails bool
}

func setup() {
	c := ev.C()
	c.Rule = "rapid-drawn inputs for every chk helper: result lists of 0-12 OpResults over all five entry kinds plus election and session-parameter results with duplicate keys and nil details; wanted items biased 70% to absent (one field of a present result perturbed, a key of another kind, another network instance); every option combination; Get responses over 1-3 network instances with wants of all five kinds; client errors with 0-3 send/receive errors and statuses with/without details. Oracle: a direct field-by-field specification written without cmp decides 'present' under the documented ignore options and the helper's verdict on a capturing testing.TB must agree in both directions; HasResultsCache is checked differentially against HasResult (cache-pass implies plain-pass; equal whenever the lookup keys are unique); documented test-author errors (nil details with IgnoreOperationID, missing network instance) must be fatal. Non-trivial = the wanted item is absent, or is of kind IPv6/MPLS, or an option is set; distinct by FNV-64 of the case JSON. Later additions: instance names extending one another with boundary-shift near misses; several spellings of one prefix in the pools."
	c.Assumptions = []string{"HasRecvClientErrorWithStatus with AllowUnimplemented: whether details are compared for a non-UNIMPLEMENTED status is left open by the documentation; that region is not asserted"}
}

// eqRes is the specification of OpResult equality under the options.
func eqRes(r, w Res, ignoreOpID, includeSrvErr bool) bool {
	if (r.Elec == nil) != (w.Elec == nil) || (r.Elec != nil && r.Elec.Cmp(*w.Elec) != 0) {
		return false
	}
	if r.Params != w.Params {
		return false
	}
	if !ignoreOpID && r.OpID != w.OpID {
		return false
	}
	if r.CErr != w.CErr {
		return false
	}
	if includeSrvErr && r.SErr != w.SErr {
		return false
	}
	if r.Prog != w.Prog {
		return false
	}
	if w.Det != nil {
		if r.Det == nil || *r.Det != *w.Det {
			return false
		}
	}
	return true
}

func present(res []Res, w Res, ign, inc bool) bool {
	for _, r := range res {
		if eqRes(r, w, ign, inc) {
			return true
		}
	}
	return false
}

func detKey(d *Det) string {
	switch {
	case d == nil:
		return ""
	case d.NHG != 0:
		return fmt.Sprintf("nhg:%d", d.NHG)
	case d.NH != 0:
		return fmt.Sprintf("nh:%d", d.NH)
	case d.V4 != "":
		return "v4:" + d.V4
	case d.V6 != "":
		return "v6:" + d.V6
	case d.MPLS != 0:
		return fmt.Sprintf("mpls:%d", d.MPLS)
	}
	return ""
}

func call(f func(tb testing.TB)) (fatal bool, msg string, foreign any) {
	t := captb.New("c17")
	foreign = t.Run(f)
	if t.Fataled() {
		return true, t.Fatals[0], foreign
	}
	if len(t.Errors) > 0 {
		return true, t.Errors[0], foreign
	}
	return false, "", foreign
}

func goRes(rs []Res) []*client.OpResult {
	out := make([]*client.OpResult, 0, len(rs))
	for _, r := range rs {
		out = append(out, r.Go())
	}
	return out
}

func runCase(c Case) *ev.Verdict {
	v := &ev.Verdict{}
	v.Class("helper:" + c.Helper)
	short := func(s string) string {
		if len(s) > 300 {
			return s[:300] + "…"
		}
		return s
	}
	switch c.Helper {
	case "HasResult":
		w := c.Wants[0]
		want := present(c.Res, w, c.IgnoreOpID, c.IncludeSrvErr)
		fatal, msg, foreign := call(func(tb testing.TB) {
			switch {
			case c.IgnoreOpID && c.IncludeSrvErr:
				chk.HasResult(tb, goRes(c.Res), w.Go(), chk.IgnoreOperationID(), chk.IncludeServerError())
			case c.IgnoreOpID:
				chk.HasResult(tb, goRes(c.Res), w.Go(), chk.IgnoreOperationID())
			case c.IncludeSrvErr:
				chk.HasResult(tb, goRes(c.Res), w.Go(), chk.IncludeServerError())
			default:
				chk.HasResult(tb, goRes(c.Res), w.Go())
			}
		})
		if foreign != nil {
			v.Fail("C17/HasResult:panic", "HasResult panicked: %v", foreign)
		} else if fatal == want {
			dir := "passes-although-absent"
			if fatal {
				dir = "fatal-although-present"
			}
			v.Fail("C17/HasResult:"+dir, "HasResult fatal=%v but the wanted result present=%v (ignoreOpID=%v includeServerError=%v); want %+v in %+v; message %s", fatal, want, c.IgnoreOpID, c.IncludeSrvErr, w, c.Res, short(msg))
		}
		v.NonTrivial = !want || c.IgnoreOpID || c.IncludeSrvErr || (w.Det != nil && (w.Det.V6 != "" || w.Det.MPLS != 0))
		if !want {
			v.Class("want-absent")
		}
	case "HasResultsCache":
		runCache(c, v, short)
	case "GetResponseHasEntries":
		runGet(c, v, short)
	case "HasNSendErrors", "HasNRecvErrors":
		runCount(c, v, short)
	case "HasRecvClientErrorWithStatus":
		runStatus(c, v, short)
	}
	return v
}

func runCache(c Case, v *ev.Verdict, short func(string) string) {
	plainAll := true
	nilDet := false
	kinds := map[string]bool{}
	for _, w := range c.Wants {
		if !present(c.Res, w, c.IgnoreOpID, c.IncludeSrvErr) {
			plainAll = false
		}
		if w.Det == nil {
			nilDet = true
		} else {
			k := detKey(w.Det)
			if len(k) > 2 {
				kinds[k[:2]] = true
			}
		}
	}
	// uniqueness of the lookup keys among the results
	unique := true
	seen := map[string]bool{}
	for _, r := range c.Res {
		var k string
		if c.IgnoreOpID {
			k = detKey(r.Det)
			if k == "" {
				continue
			}
		} else {
			k = fmt.Sprint(r.OpID)
		}
		if seen[k] {
			unique = false
		}
		seen[k] = true
	}
	// in IgnoreOperationID mode a want is looked up by its details key: a want
	// without key cannot be looked up
	lookupable := true
	for _, w := range c.Wants {
		if c.IgnoreOpID && w.Det != nil && detKey(w.Det) == "" {
			lookupable = false
		}
	}
	fatal, msg, foreign := call(func(tb testing.TB) {
		switch {
		case c.IgnoreOpID && c.IncludeSrvErr:
			chk.HasResultsCache(tb, goRes(c.Res), goRes(c.Wants), chk.IgnoreOperationID(), chk.IncludeServerError())
		case c.IgnoreOpID:
			chk.HasResultsCache(tb, goRes(c.Res), goRes(c.Wants), chk.IgnoreOperationID())
		case c.IncludeSrvErr:
			chk.HasResultsCache(tb, goRes(c.Res), goRes(c.Wants), chk.IncludeServerError())
		default:
			chk.HasResultsCache(tb, goRes(c.Res), goRes(c.Wants))
		}
	})
	pass := !fatal
	if !plainAll {
		v.Class("want-absent")
	}
	switch {
	case foreign != nil:
		v.Fail("C17/HasResultsCache:panic", "HasResultsCache panicked: %v", foreign)
	case c.IgnoreOpID && nilDet:
		// documented test-author error: must be fatal
		if pass {
			v.Fail("C17/HasResultsCache:nil-details-not-fatal", "HasResultsCache passed although a want has nil details and IgnoreOperationID is set")
		}
	case pass && !plainAll:
		kind := ""
		for k := range kinds {
			kind += k
		}
		v.Fail("C17/HasResultsCache:passes-although-absent", "HasResultsCache passes but HasResult fails for at least one want (ignoreOpID=%v, want kinds %v): wants %+v results %+v", c.IgnoreOpID, kinds, c.Wants, c.Res)
	case !pass && plainAll && unique && lookupable:
		v.Fail("C17/HasResultsCache:fatal-although-present-unique-keys", "HasResultsCache is fatal although every want is present and the lookup keys are unique: %s; wants %+v results %+v", short(msg), c.Wants, c.Res)
	}
	v.NonTrivial = !plainAll || c.IgnoreOpID || c.IncludeSrvErr || kinds["v6"] || kinds["mp"]
}

func entryProto(e Entry) *spb.AFTEntry {
	o := &gen.Op{NI: e.NI, Kind: e.Kind, Key: e.Key, Act: gen.ADD}
	p := o.Proto()
	a := &spb.AFTEntry{NetworkInstance: e.NI}
	switch t := p.Entry.(type) {
	case *spb.AFTOperation_Ipv4:
		a.Entry = &spb.AFTEntry_Ipv4{Ipv4: t.Ipv4}
	case *spb.AFTOperation_Ipv6:
		a.Entry = &spb.AFTEntry_Ipv6{Ipv6: t.Ipv6}
	case *spb.AFTOperation_Mpls:
		a.Entry = &spb.AFTEntry_Mpls{Mpls: t.Mpls}
	case *spb.AFTOperation_NextHopGroup:
		a.Entry = &spb.AFTEntry_NextHopGroup{NextHopGroup: t.NextHopGroup}
	case *spb.AFTOperation_NextHop:
		a.Entry = &spb.AFTEntry_NextHop{NextHop: t.NextHop}
	}
	return a
}

func fluentEntry(e Entry) fluent.GRIBIEntry {
	n := (&gen.Op{Key: e.Key}).KeyNum()
	switch e.Kind {
	case gen.V4:
		return fluent.IPv4Entry().WithNetworkInstance(e.NI).WithPrefix(e.Key).WithNextHopGroup(1)
	case gen.V6:
		return fluent.IPv6Entry().WithNetworkInstance(e.NI).WithPrefix(e.Key).WithNextHopGroup(1)
	case gen.MPLS:
		return fluent.LabelEntry().WithNetworkInstance(e.NI).WithLabel(uint32(n)).WithNextHopGroup(1)
	case gen.NHG:
		return fluent.NextHopGroupEntry().WithNetworkInstance(e.NI).WithID(n).AddNextHop(1, 1)
	}
	return fluent.NextHopEntry().WithNetworkInstance(e.NI).WithIndex(n).WithIPAddress("192.0.2.1")
}

func runGet(c Case, v *ev.Verdict, short func(string) string) {
	resp := &spb.GetResponse{}
	have := map[Entry]bool{}
	for _, e := range c.Got {
		resp.Entry = append(resp.Entry, entryProto(e))
		have[e] = true
	}
	all := true
	special := false
	emptyNI := false
	for _, w := range c.WantE {
		if !have[w] {
			all = false
		}
		if w.Kind == gen.V6 || w.Kind == gen.MPLS {
			special = true
		}
		if w.NI == "" {
			emptyNI = true
		}
	}
	var wants []fluent.GRIBIEntry
	for _, w := range c.WantE {
		wants = append(wants, fluentEntry(w))
	}
	fatal, msg, foreign := call(func(tb testing.TB) { chk.GetResponseHasEntries(tb, resp, wants...) })
	switch {
	case foreign != nil:
		v.Fail("C17/GetResponseHasEntries:panic", "GetResponseHasEntries panicked: %v", foreign)
	case emptyNI:
		if !fatal {
			v.Fail("C17/GetResponseHasEntries:empty-ni-not-fatal", "a want without network instance must be fatal")
		}
	case !fatal && !all:
		kinds := ""
		for _, w := range c.WantE {
			if !have[w] {
				kinds += w.Kind + " "
			}
		}
		v.Fail("C17/GetResponseHasEntries:passes-although-absent", "GetResponseHasEntries passes although wanted entries are absent (absent kinds: %s): wants %+v response %+v", kinds, c.WantE, c.Got)
	case fatal && all:
		v.Fail("C17/GetResponseHasEntries:fatal-although-present", "GetResponseHasEntries is fatal although every wanted entry is in the response: %s; wants %+v response %+v", short(msg), c.WantE, c.Got)
	}
	if !all {
		v.Class("want-absent")
	}
	v.NonTrivial = !all || special
}

func clientErr(c Case) error {
	switch c.ErrKind {
	case "nil":
		return nil
	case "other":
		return errors.New("not a client error")
	}
	ce := &client.ClientErr{}
	for _, s := range c.Send {
		ce.Send = append(ce.Send, s.Status().Err())
	}
	for _, s := range c.Recv {
		ce.Recv = append(ce.Recv, s.Status().Err())
	}
	for i := 0; i < c.PlainRecv; i++ {
		ce.Recv = append(ce.Recv, errors.New("EOF-like plain error"))
	}
	return ce
}

func runCount(c Case, v *ev.Verdict, short func(string) string) {
	err := clientErr(c)
	n := len(c.Send)
	if c.Helper == "HasNRecvErrors" {
		n = len(c.Recv) + c.PlainRecv
	}
	var wantPass bool
	switch c.ErrKind {
	case "nil":
		wantPass = c.Count == 0
	case "other":
		wantPass = false
	default:
		wantPass = n == c.Count
	}
	fatal, msg, foreign := call(func(tb testing.TB) {
		if c.Helper == "HasNSendErrors" {
			chk.HasNSendErrors(tb, err, c.Count)
		} else {
			chk.HasNRecvErrors(tb, err, c.Count)
		}
	})
	if foreign != nil {
		v.Fail("C17/"+c.Helper+":panic", "%s panicked: %v", c.Helper, foreign)
	} else if fatal == wantPass {
		v.Fail("C17/"+c.Helper+":wrong-verdict", "%s(err kind %s with %d errors, count %d): fatal=%v want pass=%v (%s)", c.Helper, c.ErrKind, n, c.Count, fatal, wantPass, short(msg))
	}
	if !wantPass {
		v.Class("want-absent")
	}
	v.NonTrivial = !wantPass
}

func detailsEqual(a, b StatusSpec) bool {
	return proto.Equal(a.Status().Proto(), b.Status().Proto()) ||
		((a.Reason == nil) == (b.Reason == nil) && (a.Reason == nil || *a.Reason == *b.Reason))
}

func runStatus(c Case, v *ev.Verdict, short func(string) string) {
	err := clientErr(c)
	w := *c.WantS
	must, may := false, false // must: certainly present; may: present under one reading of the documentation
	if c.ErrKind == "client" {
		for _, s := range c.Recv {
			msgOK := w.Msg == "" || s.Msg == w.Msg
			codeOK := s.Code == w.Code
			detOK := c.IgnoreDetails || detailsEqual(s, w)
			if codeOK && msgOK && detOK {
				must = true
			}
			if c.AllowUnimpl && s.Code == uint32(codes.Unimplemented) {
				must = true
			}
			if c.AllowUnimpl && codeOK && msgOK {
				may = true // details "are not checked" when AllowUnimplemented is specified
			}
		}
	}
	var opts []chk.ErrorOpt
	if c.AllowUnimpl {
		opts = append(opts, chk.AllowUnimplemented())
	}
	if c.IgnoreDetails {
		opts = append(opts, chk.IgnoreDetails())
	}
	fatal, msg, foreign := call(func(tb testing.TB) { chk.HasRecvClientErrorWithStatus(tb, err, w.Status(), opts...) })
	switch {
	case foreign != nil:
		v.Fail("C17/HasRecvClientErrorWithStatus:panic", "panicked: %v", foreign)
	case fatal && must:
		v.Fail("C17/HasRecvClientErrorWithStatus:fatal-although-present", "fatal although a receive error with the wanted status is present: want %+v (allowUnimplemented=%v ignoreDetails=%v) recv %+v: %s", w, c.AllowUnimpl, c.IgnoreDetails, c.Recv, short(msg))
	case !fatal && !must && !may:
		v.Fail("C17/HasRecvClientErrorWithStatus:passes-although-absent", "passes although no receive error has the wanted status: want %+v (allowUnimplemented=%v ignoreDetails=%v) err kind %s recv %+v plain %d", w, c.AllowUnimpl, c.IgnoreDetails, c.ErrKind, c.Recv, c.PlainRecv)
	}
	if !must {
		v.Class("want-absent")
	}
	v.NonTrivial = !must || c.AllowUnimpl || c.IgnoreDetails
}

func TestReplay(t *testing.T) {
	setup()
	for _, f := range ev.ReplayFiles() {
		var c Case
		if err := ev.LoadCase(f, &c); err != nil {
			t.Fatalf("%s: %v", f, err)
		}
		v := runCase(c)
		if fresh := ev.C().Record(ev.JSON(c), v); len(fresh) > 0 {
			t.Errorf("%s: %v", f, fresh)
		}
	}
}

// ---- generators --------------------------------------------------------------

// (each pool holds different spellings of one prefix - host bits set, upper-case hex, uncompressed
// zeros: entries are keyed by the string the server reports, so these are different entries)
var v4s = []string{"1.0.0.0/8", "2.2.0.0/16", "10.1.1.0/24", "10.1.1.9/24", "1.2.3.4/8"}
var v6s = []string{"2001:db8::/32", "::/0", "2001:db8::1/32", "2001:DB8::/32", "2001:db8:0:0::/32"}

func drawDet(rt *rapid.T) *Det {
	d := &Det{Type: int64(rapid.IntRange(1, 3).Draw(rt, "optype"))}
	switch rapid.IntRange(0, 4).Draw(rt, "kind") {
	case 0:
		d.NH = uint64(rapid.IntRange(1, 4).Draw(rt, "nh"))
	case 1:
		d.NHG = uint64(rapid.IntRange(1, 4).Draw(rt, "nhg"))
	case 2:
		d.V4 = v4s[rapid.IntRange(0, len(v4s)-1).Draw(rt, "v4")]
	case 3:
		d.V6 = v6s[rapid.IntRange(0, len(v6s)-1).Draw(rt, "v6")]
	default:
		d.MPLS = uint64(rapid.IntRange(100, 102).Draw(rt, "mpls"))
	}
	return d
}

func drawRes(rt *rapid.T) Res {
	r := Res{TS: int64(rapid.IntRange(0, 1000).Draw(rt, "ts"))}
	switch k := rapid.IntRange(0, 11).Draw(rt, "reskind"); {
	case k == 0:
		r.Elec = &gen.ID128{Hi: uint64(rapid.IntRange(0, 1).Draw(rt, "hi")), Lo: uint64(rapid.IntRange(1, 3).Draw(rt, "lo"))}
	case k == 1:
		r.Params = true
	default:
		r.OpID = uint64(rapid.IntRange(1, 8).Draw(rt, "opid"))
		r.Prog = int32(rapid.IntRange(1, 4).Draw(rt, "prog"))
		if rapid.IntRange(0, 9).Draw(rt, "det?") < 8 {
			r.Det = drawDet(rt)
		}
		if rapid.IntRange(0, 5).Draw(rt, "serr?") == 0 {
			r.SErr = "server says no"
		}
		if rapid.IntRange(0, 11).Draw(rt, "cerr?") == 0 {
			r.CErr = "client error"
		}
	}
	return r
}

// perturb returns a want derived from r that is usually not equal to it.
func perturb(rt *rapid.T, r Res) Res {
	w := r
	if r.Det != nil {
		d := *r.Det
		w.Det = &d
	}
	switch rapid.IntRange(0, 9).Draw(rt, "perturb") {
	case 0:
		w.OpID += 100
	case 1:
		w.Prog = w.Prog%4 + 1
	case 2:
		if w.Det != nil {
			switch {
			case w.Det.NH != 0:
				w.Det.NH += 10
			case w.Det.NHG != 0:
				w.Det.NHG += 10
			case w.Det.V4 != "":
				w.Det.V4 = "203.0.113.0/24"
			case w.Det.V6 != "":
				w.Det.V6 = "2001:db8:ffff::/48"
			default:
				w.Det.MPLS += 10
			}
		} else {
			w.Det = drawDet(rt)
		}
	case 3:
		if w.Det != nil {
			w.Det.Type = w.Det.Type%3 + 1
		}
	case 4:
		// key of another kind
		if w.Det != nil {
			t := w.Det.Type
			w.Det = drawDet(rt)
			w.Det.Type = t
		}
	case 5:
		w.SErr += "!"
	case 6:
		w.CErr += "!"
	case 7:
		if w.Elec != nil {
			w.Elec = &gen.ID128{Hi: w.Elec.Hi + 1, Lo: w.Elec.Lo}
		} else {
			w.Elec = &gen.ID128{Hi: 0, Lo: 9}
		}
	case 8:
		w.Params = !w.Params
	case 9:
		w.Det = nil
	}
	return w
}

func drawWant(rt *rapid.T, res []Res) Res {
	if len(res) == 0 {
		return drawRes(rt)
	}
	r := res[rapid.IntRange(0, len(res)-1).Draw(rt, "base")]
	if rapid.IntRange(0, 9).Draw(rt, "absent?") < 7 {
		return perturb(rt, r)
	}
	return r
}

// instance names: two of them extend another one by a digit, so that (instance, key) pairs
// exist whose concatenations coincide ("VRF-1"+"23" and "VRF-12"+"3")
var niNames = []string{"DEFAULT", "VRF-A", "VRF-B", "VRF-1", "VRF-12", "VRF-1"}

func drawEntry(rt *rapid.T) Entry {
	e := Entry{NI: niNames[rapid.IntRange(0, len(niNames)-1).Draw(rt, "ni")]}
	e.Kind = gen.Kinds[rapid.IntRange(0, 4).Draw(rt, "kind")]
	switch e.Kind {
	case gen.V4:
		e.Key = v4s[rapid.IntRange(0, len(v4s)-1).Draw(rt, "v4")]
	case gen.V6:
		e.Key = v6s[rapid.IntRange(0, len(v6s)-1).Draw(rt, "v6")]
	case gen.MPLS:
		// labels include the ends of the 20-bit range: 0 (explicit null) is a valid key
		// (and labels a server could report that alias small ones modulo 2^32)
		e.Key = fmt.Sprint([]uint64{100, 101, 102, 100, 101, 0, 16, 1048575, 1<<32 + 100, 1<<32 + 16, 1 << 32}[rapid.IntRange(0, 10).Draw(rt, "mpls")])
	default:
		// ids include values beyond 32 bits (0 is not a valid next-hop index / group id)
		e.Key = fmt.Sprint([]uint64{1, 2, 3, 1, 2, 1<<32 + 1, 1<<64 - 1}[rapid.IntRange(0, 6).Draw(rt, "id")])
	}
	return e
}

func drawStatus(rt *rapid.T) StatusSpec {
	s := StatusSpec{Code: uint32([]codes.Code{codes.FailedPrecondition, codes.Unimplemented, codes.InvalidArgument, codes.Internal, codes.Unknown}[rapid.IntRange(0, 4).Draw(rt, "code")])}
	if rapid.Bool().Draw(rt, "msg?") {
		s.Msg = []string{"boom", "other"}[rapid.IntRange(0, 1).Draw(rt, "msg")]
	}
	if rapid.Bool().Draw(rt, "details?") {
		r := int32(rapid.IntRange(0, 4).Draw(rt, "reason"))
		s.Reason = &r
	}
	return s
}

func drawCase(rt *rapid.T) Case {
	helpers := []string{"HasResult", "HasResult", "HasResultsCache", "HasResultsCache", "GetResponseHasEntries", "GetResponseHasEntries", "HasNSendErrors", "HasNRecvErrors", "HasRecvClientErrorWithStatus", "HasRecvClientErrorWithStatus"}
	c := Case{Helper: helpers[rapid.IntRange(0, len(helpers)-1).Draw(rt, "helper")]}
	switch c.Helper {
	case "HasResult", "HasResultsCache":
		n := rapid.IntRange(0, 12).Draw(rt, "nres")
		for i := 0; i < n; i++ {
			c.Res = append(c.Res, drawRes(rt))
		}
		if c.Helper == "HasResultsCache" && rapid.Bool().Draw(rt, "uniquekeys") {
			// make operation ids unique
			for i := range c.Res {
				if c.Res[i].Elec == nil && !c.Res[i].Params {
					c.Res[i].OpID = uint64(i + 1)
				}
			}
		}
		c.IgnoreOpID = rapid.Bool().Draw(rt, "ignoreopid")
		c.IncludeSrvErr = rapid.IntRange(0, 3).Draw(rt, "includesrverr") == 0
		nw := 1
		if c.Helper == "HasResultsCache" {
			nw = rapid.IntRange(0, 4).Draw(rt, "nwants")
		}
		for i := 0; i < nw; i++ {
			c.Wants = append(c.Wants, drawWant(rt, c.Res))
		}
	case "GetResponseHasEntries":
		n := rapid.IntRange(0, 10).Draw(rt, "ngot")
		seen := map[Entry]bool{}
		for i := 0; i < n; i++ {
			e := drawEntry(rt)
			if !seen[e] {
				seen[e] = true
				c.Got = append(c.Got, e)
			}
		}
		nw := rapid.IntRange(1, 3).Draw(rt, "nwants")
		for i := 0; i < nw; i++ {
			if len(c.Got) > 0 && rapid.IntRange(0, 9).Draw(rt, "present?") < 4 {
				c.WantE = append(c.WantE, c.Got[rapid.IntRange(0, len(c.Got)-1).Draw(rt, "which")])
			} else if len(c.Got) > 0 && rapid.Bool().Draw(rt, "near-miss") {
				e := c.Got[rapid.IntRange(0, len(c.Got)-1).Draw(rt, "which")]
				switch rapid.IntRange(0, 3).Draw(rt, "miss") {
				case 3:
					// the boundary between instance name and key moved by one character; the
					// shorter-named instance is made to appear in the response as well
					if l := len(e.NI); l > 0 && e.NI[l-1] >= '0' && e.NI[l-1] <= '9' && e.Kind != gen.V6 {
						e.Key, e.NI = e.NI[l-1:]+e.Key, e.NI[:l-1]
						if other := (Entry{NI: e.NI, Kind: gen.NH, Key: "1"}); !seen[other] {
							seen[other] = true
							c.Got = append(c.Got, other)
						}
					} else {
						e.NI = "VRF-12"
					}
				case 0:
					e.NI = map[string]string{"DEFAULT": "VRF-A", "VRF-A": "VRF-B", "VRF-B": "VRF-1", "VRF-1": "VRF-12", "VRF-12": "DEFAULT"}[e.NI]
				case 1:
					k := drawEntry(rt)
					e.Kind, e.Key = k.Kind, k.Key
				default:
					if e.Kind == gen.V4 || e.Kind == gen.V6 {
						e.Key = map[string]string{gen.V4: "203.0.113.0/24", gen.V6: "2001:db8:ffff::/48"}[e.Kind]
					} else {
						e.Key = fmt.Sprint((&gen.Op{Key: e.Key}).KeyNum() + 50)
					}
				}
				c.WantE = append(c.WantE, e)
			} else {
				c.WantE = append(c.WantE, drawEntry(rt))
			}
		}
		// (a want is expressed with fluent.LabelEntry().WithLabel(uint32): labels beyond 32 bits
		// can only occur in what the server reports)
		for i, e := range c.WantE {
			if e.Kind == gen.MPLS {
				c.WantE[i].Key = fmt.Sprint((&gen.Op{Key: e.Key}).KeyNum() & 0xffffffff)
			}
		}
	default:
		c.ErrKind = []string{"nil", "other", "client", "client", "client", "client"}[rapid.IntRange(0, 5).Draw(rt, "errkind")]
		ns := rapid.IntRange(0, 3).Draw(rt, "nsend")
		nr := rapid.IntRange(0, 3).Draw(rt, "nrecv")
		for i := 0; i < ns; i++ {
			c.Send = append(c.Send, drawStatus(rt))
		}
		for i := 0; i < nr; i++ {
			c.Recv = append(c.Recv, drawStatus(rt))
		}
		c.PlainRecv = rapid.IntRange(0, 1).Draw(rt, "plainrecv")
		c.Count = rapid.IntRange(0, 4).Draw(rt, "count")
		if c.Helper == "HasRecvClientErrorWithStatus" {
			var w StatusSpec
			if len(c.Recv) > 0 && rapid.IntRange(0, 9).Draw(rt, "present?") < 5 {
				w = c.Recv[rapid.IntRange(0, len(c.Recv)-1).Draw(rt, "which")]
				switch rapid.IntRange(0, 4).Draw(rt, "tweak") {
				case 0:
					w.Msg = ""
				case 1:
					w.Reason = nil
				case 2:
					r := int32(3)
					if w.Reason != nil {
						r = (*w.Reason + 1) % 5
					}
					w.Reason = &r
				case 3:
					w.Code = uint32(codes.NotFound)
				}
			} else if c.PlainRecv > 0 && rapid.IntRange(0, 2).Draw(rt, "want-like-plain?") == 0 {
				// a status that a careless conversion of the plain (non-status) receive error yields
				w = StatusSpec{Code: uint32(codes.Unknown)}
				if rapid.Bool().Draw(rt, "plain-msg?") {
					w.Msg = "EOF-like plain error"
				}
			} else {
				w = drawStatus(rt)
			}
			c.WantS = &w
			c.AllowUnimpl = rapid.IntRange(0, 2).Draw(rt, "allowunimpl") == 0
			c.IgnoreDetails = rapid.IntRange(0, 2).Draw(rt, "ignoredetails") == 0
		}
	}
	return c
}

func TestCampaign(t *testing.T) {
	setup()
	col := ev.C()
	t.Run("random", func(t *testing.T) {
		rapid.Check(t, func(rt *rapid.T) {
			c := drawCase(rt)
			v := runCase(c)
			col.Check(rt, ev.JSON(c), v)
		})
	})
}
