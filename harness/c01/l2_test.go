package c01

import (
	"testing"

	"pgregory.net/rapid"

	"verifh/internal/ev"
	"verifh/internal/gen"
	"verifh/internal/hgen"
	"verifh/internal/l2"
)

func runL2(c Case) *ev.Verdict {
	v, tr := l2.RunHistory(c.H, l2.Opts{P: "C01", Trusted: true, Batch: c.Batch, Fatal: c.Fatal, FatalKind: c.FatalKind, Net: c.Level == "L3", ObserveEvery: c.Every, NoRefCheck: c.NoRefCheck, ReElect: c.ReElect, LateVRF: c.LateVRF})
	if c.NoRefCheck {
		v.Class("reference-checks-disabled")
	}
	if c.Level == "L3" {
		v.Class("L3-real-grpc")
	}
	classify(v, tr)
	if c.Fatal > 0 && tr.Failed > 0 {
		v.Class("fatal-op-mid-request")
		v.NonTrivial = true
	}
	return v
}

func drawL2(rt *rapid.T) Case {
	cfg := hgen.DefaultCfg()
	cfg.AliasLabels = true
	cfg.MinLen, cfg.MaxLen = 4, 24
	c := Case{Level: "L2", H: hgen.DrawHistory(rt, cfg)}
	nb := rapid.IntRange(1, 4).Draw(rt, "nbatch")
	for i := 0; i < nb; i++ {
		c.Batch = append(c.Batch, rapid.IntRange(1, 6).Draw(rt, "batch"))
	}
	if rapid.IntRange(0, 9).Draw(rt, "fatal?") < 3 {
		nops := 0
		for _, s := range c.H.Steps {
			if s.Op != nil {
				nops++
			}
		}
		if nops > 0 {
			c.Fatal = rapid.IntRange(1, nops).Draw(rt, "fatalidx")
			c.FatalKind = rapid.IntRange(1, 2).Draw(rt, "fatalkind")
			// make sure an operation with a visible effect follows the fatal one
			// in the history (it shares the request when the batch allows)
			var steps []hgen.Step
			n := 0
			for _, s := range c.H.Steps {
				steps = append(steps, s)
				if s.Op != nil {
					n++
					if n == c.Fatal {
						steps = append(steps, hgen.Step{Op: &gen.Op{ID: 100000, NI: "DEFAULT", Kind: gen.NH, Act: gen.ADD, Key: "4", IP: "203.0.113.9"}})
					}
				}
			}
			c.H.Steps = steps
		}
	}
	return c
}

func campaignL2(t *testing.T) {
	col := ev.C()
	rapid.Check(t, func(rt *rapid.T) {
		var c Case
		var wild string
		if rapid.IntRange(0, 29).Draw(rt, "bulk?") == 7 {
			// large requests: up to 64 operations per ModifyRequest
			c = Case{Level: "L2", H: hgen.DrawBulk(rt, hgen.DefaultBulk())}
			for i := rapid.IntRange(1, 4).Draw(rt, "nbatch"); i > 0; i-- {
				c.Batch = append(c.Batch, rapid.IntRange(8, 64).Draw(rt, "bigbatch"))
			}
			wild = "bulk"
		} else {
			c = drawL2(rt)
			c.H, wild = hgen.MaybeRename(rt, c.H, 20)
		}
		if rapid.IntRange(0, 2).Draw(rt, "sparse-reads?") == 0 {
			// read back only after every 2nd-5th request
			c.Every = rapid.IntRange(2, 5).Draw(rt, "every")
		}
		c.NoRefCheck = rapid.IntRange(0, 7).Draw(rt, "norefcheck?") == 0
		if c.Fatal == 0 && rapid.IntRange(0, 3).Draw(rt, "reelect?") == 0 {
			c.ReElect = rapid.IntRange(1, 3).Draw(rt, "reelect")
		}
		if wild != "bulk" && len(c.H.Steps) > 2 && rapid.IntRange(0, 3).Draw(rt, "late-vrf?") == 0 {
			c.LateVRF = rapid.IntRange(1, len(c.H.Steps)-1).Draw(rt, "late-vrf")
			// (an operation for an instance that does not exist yet is refused in-band before its
			// stamp is looked at: the fatal-stamp clause is left to the cases with all instances)
			c.Fatal, c.FatalKind = 0, 0
		}
		if rapid.IntRange(0, 3).Draw(rt, "l3?") == 0 {
			// the same history over real gRPC (bufconn): transport must not change anything
			c.Level, c.Fatal, c.FatalKind = "L3", 0, 0
		}
		v := runCase(c)
		if wild == "bulk" {
			v.Class("bulk-history")
		} else if wild != "" {
			v.Class("renamed:" + wild)
		}
		col.Check(rt, ev.JSON(c), v)
	})
}
