package c04

import (
	"pgregory.net/rapid"

	"verifh/internal/ev"
	"verifh/internal/sess"
)

// InFlight schedules live in package sess (shared with C05).
type InFlight = sess.InFlight
type Ann = sess.Ann

func runInFlight(c Case) *ev.Verdict { return sess.RunInFlight(c.InFlight, "C04") }

func drawInFlight(rt *rapid.T) Case { return Case{InFlight: sess.DrawInFlight(rt)} }
