package drive

import (
	"bufio"
	"bytes"
	"regexp"
	"runtime"
	"sort"
	"strconv"
	"strings"
)

// G is one goroutine of a runtime.Stack dump.
type G struct {
	ID        int64
	State     string
	Frames    []string // function names, innermost first
	CreatedBy string
	Parent    int64
}

var (
	hdrRE     = regexp.MustCompile(`^goroutine (\d+)(?: gp=\S+ m=\S+(?: mp=\S+)?)? \[([^\]]*)\]:`)
	createdRE = regexp.MustCompile(`^created by (\S+)(?: in goroutine (\d+))?`)
)

// Dump returns the text of all goroutine stacks.
func Dump() string {
	buf := make([]byte, 1<<20)
	for {
		n := runtime.Stack(buf, true)
		if n < len(buf) {
			return string(buf[:n])
		}
		buf = make([]byte, 2*len(buf))
	}
}

// CurGID returns the id of the calling goroutine.
func CurGID() int64 {
	buf := make([]byte, 64)
	n := runtime.Stack(buf, false)
	f := bytes.Fields(buf[:n])
	if len(f) < 2 {
		return -1
	}
	id, _ := strconv.ParseInt(string(f[1]), 10, 64)
	return id
}

// Parse parses a dump.
func Parse(dump string) []*G {
	var out []*G
	var cur *G
	sc := bufio.NewScanner(strings.NewReader(dump))
	sc.Buffer(make([]byte, 1<<20), 1<<24)
	for sc.Scan() {
		l := sc.Text()
		if m := hdrRE.FindStringSubmatch(l); m != nil {
			id, _ := strconv.ParseInt(m[1], 10, 64)
			st := m[2]
			if i := strings.Index(st, ","); i >= 0 {
				st = st[:i]
			}
			cur = &G{ID: id, State: st}
			out = append(out, cur)
			continue
		}
		if cur == nil || l == "" || strings.HasPrefix(l, "\t") {
			continue
		}
		if m := createdRE.FindStringSubmatch(l); m != nil {
			cur.CreatedBy = m[1]
			if m[2] != "" {
				cur.Parent, _ = strconv.ParseInt(m[2], 10, 64)
			}
			continue
		}
		fn := l
		if i := strings.LastIndex(fn, "("); i > 0 {
			fn = fn[:i]
		}
		cur.Frames = append(cur.Frames, fn)
	}
	return out
}

// Has reports whether a frame of g contains sub.
func (g *G) Has(sub string) bool {
	for _, f := range g.Frames {
		if strings.Contains(f, sub) {
			return true
		}
	}
	return false
}

// FirstGribigo returns the innermost frame that belongs to gribigo. It
// returns "" when the goroutine is parked inside harness code that gribigo
// called (a fake stream's Send/Recv): that wait is harness-induced.
func (g *G) FirstGribigo() string {
	for _, f := range g.Frames {
		if strings.HasPrefix(f, "verifh/") {
			return ""
		}
		if strings.Contains(f, "github.com/openconfig/gribigo/") {
			return strings.TrimPrefix(f, "github.com/openconfig/")
		}
	}
	return ""
}

// Descendants returns the goroutines whose creation chain leads back to root
// (root itself included when present).
func Descendants(gs []*G, root int64) []*G {
	in := map[int64]bool{root: true}
	for changed := true; changed; {
		changed = false
		for _, g := range gs {
			if !in[g.ID] && g.Parent != 0 && in[g.Parent] {
				in[g.ID] = true
				changed = true
			}
		}
	}
	var out []*G
	for _, g := range gs {
		if in[g.ID] {
			out = append(out, g)
		}
	}
	return out
}

// parkedStates are the goroutine states that cannot make progress on their own.
func parked(state string) bool {
	switch state {
	case "chan send", "chan receive", "select", "sync.Mutex.Lock", "sync.RWMutex.Lock", "sync.RWMutex.RLock",
		"sync.WaitGroup.Wait", "sync.Cond.Wait", "chan send (nil chan)", "chan receive (nil chan)", "select (no cases)":
		// "semacquire" is deliberately absent: it is the state of runtime-internal waits
		// (stop-the-world for a stack dump or the GC, allocation), not of a sync primitive
		return true
	}
	return false
}

// BlockedInGribigo returns a signature ("" if none) naming the gribigo frames
// in which goroutines of the watched call are parked on a lock or channel.
func BlockedInGribigo(gs []*G, roots ...int64) string {
	var sigs []string
	seen := map[string]bool{}
	for _, r := range roots {
		for _, g := range Descendants(gs, r) {
			if !parked(g.State) {
				continue
			}
			f := g.FirstGribigo()
			if f == "" {
				continue
			}
			s := f + "[" + g.State + "]"
			// the idle states of a healthy Modify RPC: the handler waits for an
			// error, its sender waits for a response to write
			if s == "gribigo/server.(*Server).Modify[chan receive]" || s == "gribigo/server.(*Server).Modify.func2[select]" {
				continue
			}
			if !seen[s] {
				seen[s] = true
				sigs = append(sigs, s)
			}
		}
	}
	sort.Strings(sigs)
	return strings.Join(sigs, "+")
}

// Busy reports whether a goroutine of the watched call - a descendant of one of the roots,
// the roots' own goroutines excepted when they are the caller - can still make progress:
// it is running, runnable, in a system call, sleeping or in a runtime-internal wait.
func Busy(gs []*G, roots ...int64) bool {
	cur := CurGID()
	for _, r := range roots {
		for _, g := range Descendants(gs, r) {
			if g.ID == cur {
				continue
			}
			if !parked(g.State) {
				return true
			}
		}
	}
	return false
}

// AnyBusyInGribigo reports whether any goroutine that has a gribigo frame can make progress.
func AnyBusyInGribigo(gs []*G) bool {
	cur := CurGID()
	for _, g := range gs {
		if g.ID != cur && !parked(g.State) && g.Has("github.com/openconfig/gribigo/") {
			return true
		}
	}
	return false
}
