package c08

import (
	"fmt"
	"strings"

	"pgregory.net/rapid"

	spb "github.com/openconfig/gribi/v1/proto/service"
	"github.com/openconfig/gribigo/rib"

	"verifh/internal/ev"
	"verifh/internal/gen"
	"verifh/internal/hgen"
	"verifh/internal/l1"
	"verifh/internal/obs"
)

// runNoCheck (mode "nocheck", rib API): a RIB built with rib.DisableRIBCheckFn - the
// configuration the reconciler's remote RIB and rib.FromGetResponses use - accepts whatever is
// schema-valid: entries whose group does not exist, or whose group network instance is not
// known. Whatever it then holds (read back with RIBContents, no model involved), a Flush of
// the instances Flush must succeed, empty exactly those and leave the others as they were.
func runNoCheck(c Case) *ev.Verdict {
	v := &ev.Verdict{}
	r := l1.NewRIB(true, l1.Opts{RIBOpts: []rib.RIBOpt{rib.DisableRIBCheckFn()}})
	for _, st := range c.H.Steps {
		if st.Op == nil {
			continue
		}
		op := st.Op.Proto()
		if p := l1.Protect(func() {
			if op.GetOp() == spb.AFTOperation_DELETE {
				r.DeleteEntry(st.Op.NI, op)
			} else {
				r.AddEntry(st.Op.NI, op)
			}
		}); p != "" {
			v.Fail(l1.Sig("C08", p), "%s panicked with reference checks disabled: %s", st.Op, p)
			return v
		}
	}
	before, err := obs.FromRIB(r)
	if err != nil {
		v.Fail("C08/contents-unreadable", "before the flush: %v", err)
		return v
	}
	var ferr error
	if p := l1.Protect(func() { ferr = r.Flush(c.NoCheck) }); p != "" {
		v.Fail(l1.Sig("C08", p), "Flush(%v) panicked with reference checks disabled: %s", c.NoCheck, p)
		return v
	}
	if ferr != nil {
		v.Fail("C08/flush-error:checks-disabled", "Flush(%v) of a RIB built with DisableRIBCheckFn returned %v", c.NoCheck, ferr)
	}
	after, err := obs.FromRIB(r)
	if err != nil {
		v.Fail("C08/contents-unreadable", "after the flush: %v", err)
		return v
	}
	flushed := map[string]bool{}
	for _, n := range c.NoCheck {
		flushed[n] = true
	}
	want := obs.State{}
	dangling, nis := 0, map[string]bool{}
	for k, p := range before {
		nis[k.NI] = true
		if !flushed[k.NI] {
			want[k] = p
		}
		if s := fmt.Sprint(p); strings.Contains(s, "NO-SUCH-NI") {
			dangling++
		}
	}
	if d := obs.Diff(want, after); len(d) > 0 {
		v.Fail("C08/flush-result:checks-disabled:"+obs.DiffClass(d), "Flush(%v) of a RIB built with DisableRIBCheckFn (%d entries before, %d naming an unknown group instance): want exactly the flushed instances empty and the others unchanged: %s", c.NoCheck, len(before), dangling, strings.Join(d, "; "))
	}
	v.Class("reference-checks-disabled")
	if dangling > 0 {
		v.Class("entries-naming-an-unknown-group-instance")
	}
	v.NonTrivial = len(nis) >= 2 && len(before) > len(want)
	return v
}

func drawNoCheck(rt *rapid.T) Case {
	cfg := hgen.DefaultCfg()
	cfg.FlushPct = 0
	cfg.MinLen, cfg.MaxLen = 4, 24
	h := hgen.DrawHistory(rt, cfg)
	// with checks off anything schema-valid is installed: add entries whose group is not
	// installed and entries whose group network instance does not exist
	id := uint64(700000)
	for n := rapid.IntRange(0, 4).Draw(rt, "extra"); n > 0; n-- {
		id++
		ni := hgen.NIs[rapid.IntRange(0, 2).Draw(rt, "ni")]
		o := &gen.Op{ID: id, NI: ni, Act: gen.ADD, Group: uint64(rapid.IntRange(1, 6).Draw(rt, "group"))}
		switch rapid.IntRange(0, 2).Draw(rt, "kind") {
		case 0:
			o.Kind, o.Key = gen.V4, hgen.V4s[rapid.IntRange(0, len(hgen.V4s)-1).Draw(rt, "key")]
		case 1:
			o.Kind, o.Key = gen.V6, hgen.V6s[rapid.IntRange(0, len(hgen.V6s)-1).Draw(rt, "key")]
		default:
			o.Kind, o.Key = gen.MPLS, []string{"100", "101", "1048575"}[rapid.IntRange(0, 2).Draw(rt, "key")]
		}
		if rapid.Bool().Draw(rt, "unknown-ni") {
			o.GroupNI = "NO-SUCH-NI"
		}
		at := rapid.IntRange(0, len(h.Steps)).Draw(rt, "at")
		h.Steps = append(h.Steps[:at], append([]hgen.Step{{Op: o}}, h.Steps[at:]...)...)
	}
	c := Case{Mode: "nocheck", H: h}
	switch rapid.IntRange(0, 2).Draw(rt, "targets") {
	case 0:
		c.NoCheck = []string{hgen.NIs[rapid.IntRange(0, 2).Draw(rt, "flush-ni")]}
	case 1:
		c.NoCheck = rapid.Permutation(append([]string(nil), hgen.NIs...)).Draw(rt, "order")[:2]
	default:
		c.NoCheck = rapid.Permutation(append([]string(nil), hgen.NIs...)).Draw(rt, "order")
	}
	return c
}

var _ = ev.JSON
