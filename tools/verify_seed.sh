#!/bin/bash
# usage: tools/verify_seed.sh <dir with the change applied + patch.diff> <pkg of demo> <demo test regexp>
# Confirms: demo fails with the change, passes without it, and existing tests pass with it.
# (git stash is shared between worktrees: the change is removed with git apply -R instead.)
set -u
wt=$1; pkg=$2; re=$3
export GOFLAGS=-mod=mod GOPROXY=off
cd "$wt" || exit 2
echo "--- demo WITH change (expect FAIL)"
go test -count=1 -run "$re" $pkg 2>&1 | grep -v "^[IEW][0-9]" | tail -3
git apply -R patch.diff && echo "--- demo WITHOUT change (expect ok)" && go test -count=1 -run "$re" $pkg 2>&1 | grep -v "^[IEW][0-9]" | tail -2; git apply patch.diff
echo "--- existing tests WITH change (demo skipped)"
go test -count=1 -skip "$re" ./rib/... ./server/... ./chk/... ./fluent/... 2>&1 | tail -6
