package c07

import (
	"encoding/json"
	"fmt"
	"strings"
	"testing"
	"time"

	"pgregory.net/rapid"

	spb "github.com/openconfig/gribi/v1/proto/service"
	"github.com/openconfig/gribigo/rib"

	"verifh/internal/drive"
	"verifh/internal/ev"
	"verifh/internal/gen"
	"verifh/internal/hgen"
	"verifh/internal/l2"
	"verifh/internal/model"
	"verifh/internal/obs"
)

func TestMain(m *testing.M) { ev.Main(m, "C07", "exploration") }

// Case: contents are built through Modify by the history, then the whole
// (network instance x table) request matrix is issued.
type Case struct {
	H     hgen.History `json:"h"`
	Batch []int        `json:"batch,omitempty"`
	// Every > 1: contents are read back only after every n-th request (and at the end)
	Every int `json:"every,omitempty"`
	// Net: the server sits behind a real grpc.Server over bufconn (every response is marshalled)
	Net bool `json:"net,omitempty"`
	// VRFs, when set: the server's non-default instances (default {VRF-A, VRF-B})
	VRFs []string `json:"vrfs,omitempty"`
	// SlowAt > 0: instead of the request matrix one Get(all, ALL) is issued by a reader that
	// takes SlowMs milliseconds (real time) to accept the SlowAt-th response; the stream must
	// still deliver every entry and end OK
	SlowAt int `json:"slowat,omitempty"`
	SlowMs int `json:"slowms,omitempty"`
}

func setup() {
	c := ev.C()
	c.Rule = "RIB contents reached through Modify (in-process streams; one case in four through a real grpc.Server over bufconn, so that every response is marshalled and parsed; one in three with the contents read back only after every 2nd-6th request) by model-aimed histories whose payloads populate every field the fluent builders can set (addresses, MAC, interface/subinterface, IP-in-IP, encap/decap header, encap-header list with MPLS stacks and UDPv6 fields, pushed/popped label stacks with duplicates, pop-top-label, next-hop NI, weights incl. 0, backup group, metadata, cross-NI group references); then every request in {DEFAULT,VRF-A,VRF-B,all,unknown} x {ALL,IPV4,IPV6,MPLS,NEXTHOP_GROUP,NEXTHOP}. Oracle: key set == model for the scope, payload proto.Equal (keyed lists canonicalised) to the last programmed payload, every entry tagged with its NI, Get(ALL) == disjoint union of per-table Gets, Get(all) == union of per-NI Gets, empty scope -> empty OK stream, unknown NI -> no entries, rib.FromGetResponses(...).RIBContents() == source contents. Non-trivial = >=3 distinct optional payload fields populated among installed entries and >=2 network instances non-empty; distinct by FNV-64 of the case JSON. Later additions: many-instances scope (1-21 instances); slow-reader scope (one case per shard: a live reader taking 1-6 s, thorough 15 s, for one response); clock steps."
	c.Assumptions = []string{"payloads are schema-valid; keyed proto lists are unordered (canonicalised by key), leaf-lists ordered"}
}

var afts = []spb.AFTType{spb.AFTType_ALL, spb.AFTType_IPV4, spb.AFTType_IPV6, spb.AFTType_MPLS, spb.AFTType_NEXTHOP_GROUP, spb.AFTType_NEXTHOP}

func kindOfAFT(a spb.AFTType) string {
	switch a {
	case spb.AFTType_IPV4:
		return gen.V4
	case spb.AFTType_IPV6:
		return gen.V6
	case spb.AFTType_MPLS:
		return gen.MPLS
	case spb.AFTType_NEXTHOP_GROUP:
		return gen.NHG
	case spb.AFTType_NEXTHOP:
		return gen.NH
	}
	return ""
}

func scope(m *model.RIB, ni string, a spb.AFTType) obs.State {
	st := obs.State{}
	for k, p := range m.Ent {
		if ni != "all" && k.NI != ni {
			continue
		}
		if a != spb.AFTType_ALL && k.Kind != kindOfAFT(a) {
			continue
		}
		st[k] = p
	}
	return st
}

func getReq(ni string, a spb.AFTType) *spb.GetRequest {
	r := &spb.GetRequest{Aft: a}
	if ni == "all" {
		r.NetworkInstance = &spb.GetRequest_All{All: &spb.Empty{}}
	} else {
		r.NetworkInstance = &spb.GetRequest_Name{Name: ni}
	}
	return r
}

// matrix issues the whole request matrix and checks it.
func matrix(s *drive.Srv, m *model.RIB, v *ev.Verdict, names []string) {
	got := map[string]obs.State{}
	var allResp []*spb.GetResponse
	for _, ni := range append(append([]string(nil), names...), "all") {
		for _, a := range afts {
			name := fmt.Sprintf("Get(%s,%s)", ni, a)
			rs, err, hg := s.Get(getReq(ni, a), 0)
			if hg != nil {
				l2.HangFinding(v, "C07", hg)
				return
			}
			if err != nil {
				v.Fail("C07/get-error", "%s failed: %v", name, err)
				continue
			}
			st, dups, bad := obs.FromGet(rs)
			if len(dups) > 0 {
				v.Fail("C07/duplicate-entry", "%s streamed keys more than once: %v", name, dups)
			}
			if len(bad) > 0 {
				v.Fail("C07/entry-without-payload", "%s: %v", name, bad)
			}
			for _, r := range rs {
				for _, e := range r.GetEntry() {
					if ni != "all" && e.GetNetworkInstance() != ni {
						v.Fail("C07/wrong-ni-tag", "%s returned an entry tagged %q", name, e.GetNetworkInstance())
					}
					if e.GetNetworkInstance() == "" {
						v.Fail("C07/missing-ni-tag", "%s returned an entry without network instance tag", name)
					}
				}
			}
			want := scope(m, ni, a)
			if d := obs.Diff(want, st); len(d) > 0 {
				cl := obs.DiffClass(d)
				if cl == "payload" {
					cl += ":" + payloadField(d)
				}
				v.Fail("C07/scope-mismatch:"+cl, "%s does not return exactly the installed entries of its scope: %s", name, strings.Join(d, "; "))
			}
			if len(want) == 0 && len(rs) != 0 {
				v.Fail("C07/empty-scope-not-empty", "%s: empty scope but %d messages", name, len(rs))
			}
			got[ni+"/"+a.String()] = st
			if ni == "all" && a == spb.AFTType_ALL {
				allResp = rs
			}
		}
	}
	if len(v.Findings) > 0 {
		return
	}
	// metamorphic relations
	for _, ni := range append(append([]string(nil), names...), "all") {
		union := obs.State{}
		n := 0
		for _, a := range afts[1:] {
			for k, p := range got[ni+"/"+a.String()] {
				union[k] = p
				n++
			}
		}
		if n != len(union) {
			v.Fail("C07/per-table-gets-overlap", "per-table Gets of %s overlap", ni)
		}
		if d := obs.Diff(union, got[ni+"/ALL"]); len(d) > 0 {
			v.Fail("C07/all-not-union-of-tables", "Get(%s,ALL) is not the union of the per-table Gets: %s", ni, strings.Join(d, "; "))
		}
	}
	for _, a := range afts {
		union := obs.State{}
		for _, ni := range names {
			for k, p := range got[ni+"/"+a.String()] {
				union[k] = p
			}
		}
		if d := obs.Diff(union, got["all/"+a.String()]); len(d) > 0 {
			v.Fail("C07/all-nis-not-union", "Get(all,%s) is not the union of the per-NI Gets: %s", a, strings.Join(d, "; "))
		}
	}
	// unknown network instance: no entries, whatever the status
	rs, _, hg := s.Get(getReq("NO-SUCH-NI", spb.AFTType_ALL), 0)
	if hg != nil {
		l2.HangFinding(v, "C07", hg)
		return
	}
	if len(rs) != 0 {
		v.Fail("C07/unknown-ni-returns-entries", "Get for an unknown network instance returned %d messages", len(rs))
	}
	// round trip through FromGetResponses
	r2, err := rib.FromGetResponses("DEFAULT", allResp)
	if err != nil {
		v.Fail("C07/from-get-responses-error", "rib.FromGetResponses failed on the server's own responses: %v", err)
		return
	}
	st2, err := obs.FromRIB(r2)
	if err != nil {
		v.Fail("C07/from-get-responses-unreadable", "%v", err)
		return
	}
	src, err := obs.FromRIB(s.S.VerifRIB())
	if err != nil {
		v.Fail("C07/contents-unreadable", "%v", err)
		return
	}
	if d := obs.Diff(src, st2); len(d) > 0 {
		v.Fail("C07/rebuild-differs:"+obs.DiffClass(d), "RIB rebuilt from the Get responses differs from the source: %s", strings.Join(d, "; "))
	}
}

// payloadField names a field that differs, for signatures.
func payloadField(d []string) string {
	for _, l := range d {
		i := strings.Index(l, "only in want [")
		if i < 0 {
			continue
		}
		rest := l[i:]
		if j := strings.Index(rest, "; want {"); j > 0 {
			rest = rest[:j]
		}
		for _, f := range fieldNames {
			if strings.Contains(rest, f) {
				return f
			}
		}
	}
	return "value"
}

var fieldNames = []string{"pop_top_label", "entry_metadata", "weight", "backup_next_hop_group", "encap_header", "pushed_mpls_label_stack", "popped_mpls_label_stack", "subinterface", "ip_in_ip", "mac_address", "ip_address", "decapsulate_header", "encapsulate_header", "next_hop_group_network_instance", "udp_v6", "color"}

func runCase(c Case) *ev.Verdict {
	fields := map[string]bool{}
	nis := map[string]bool{}
	names := hgen.NIs
	if c.VRFs != nil {
		names = append([]string{"DEFAULT"}, c.VRFs...)
	}
	v, _ := l2.RunHistory(c.H, l2.Opts{P: "C07", Trusted: true, Batch: c.Batch, ObserveEvery: c.Every, Net: c.Net, VRFs: c.VRFs, Final: func(s *drive.Srv, m *model.RIB, vv *ev.Verdict) {
		for k, p := range m.Ent {
			nis[k.NI] = true
			txt := fmt.Sprint(p)
			for _, f := range fieldNames {
				if strings.Contains(txt, f) {
					fields[f] = true
				}
			}
		}
		if c.SlowAt > 0 {
			rs, err, hg := s.GetSlow(getReq("all", spb.AFTType_ALL), c.SlowAt, time.Duration(c.SlowMs)*time.Millisecond)
			if hg != nil {
				l2.HangFinding(vv, "C07", hg)
				return
			}
			if err != nil {
				vv.Fail("C07/get-error", "Get(all,ALL) for a reader that took %d ms for response %d failed: %v", c.SlowMs, c.SlowAt, err)
				return
			}
			st, dups, _ := obs.FromGet(rs)
			if len(dups) > 0 {
				vv.Fail("C07/duplicate-entry", "Get(all,ALL) for a slow reader streamed keys more than once: %v", dups)
			}
			if d := obs.Diff(scope(m, "all", spb.AFTType_ALL), st); len(d) > 0 {
				vv.Fail("C07/scope-mismatch:slow-reader:"+obs.DiffClass(d), "Get(all,ALL) for a reader that took %d ms to accept response %d ended OK but does not return exactly the installed entries: %s", c.SlowMs, c.SlowAt, strings.Join(d, "; "))
			}
			vv.Class(fmt.Sprintf("slow-reader:%dms", c.SlowMs))
			return
		}
		matrix(s, m, vv, names)
	}})
	for f := range fields {
		v.Class("field:" + f)
	}
	v.NonTrivial = len(fields) >= 3 && len(nis) >= 2
	return v
}

func TestReplay(t *testing.T) {
	setup()
	for _, f := range ev.ReplayFiles() {
		var c Case
		if err := ev.LoadCase(f, &c); err != nil {
			t.Fatalf("%s: %v", f, err)
		}
		for i := 0; i < 10; i++ {
			v := runCase(c)
			if fresh := ev.C().Record(ev.JSON(c), v); len(fresh) > 0 {
				t.Errorf("%s: %v", f, fresh)
				break
			}
		}
	}
}

func drawCase(rt *rapid.T) Case {
	cfg := hgen.DefaultCfg()
	cfg.Rich = 70
	cfg.PopTop = true
	cfg.FlushPct = 1
	cfg.Backups = 30
	cfg.MinLen, cfg.MaxLen = 6, 30
	c := Case{H: hgen.DrawHistory(rt, cfg)}
	c.Batch = []int{rapid.IntRange(1, 8).Draw(rt, "batch")}
	if rapid.IntRange(0, 2).Draw(rt, "sparse-reads?") == 0 {
		c.Every = rapid.IntRange(2, 6).Draw(rt, "every")
	}
	c.Net = rapid.IntRange(0, 3).Draw(rt, "net?") == 0
	return c
}

func TestCampaign(t *testing.T) {
	setup()
	col := ev.C()
	t.Run("random", func(t *testing.T) {
		rapid.Check(t, func(rt *rapid.T) {
			var c Case
			var wild string
			if rapid.IntRange(0, 29).Draw(rt, "bulk?") == 7 {
				// a RIB with a hundred-odd entries: long Get streams, every table well filled
				bc := hgen.DefaultBulk()
				bc.Churn = 10
				c = Case{H: hgen.DrawBulk(rt, bc), Batch: []int{rapid.IntRange(16, 64).Draw(rt, "bigbatch")}}
				// keep the entries: the matrix is issued after the last step
				for i, s := range c.H.Steps {
					if i > 20 && s.Op != nil && s.Op.Act == gen.DELETE && s.Op.NoPayload && i > len(c.H.Steps)*2/3 {
						c.H.Steps = c.H.Steps[:i]
						break
					}
				}
			} else {
				c = drawCase(rt)
				c.H, wild = hgen.MaybeRename(rt, c.H, 20)
			}
			v := runCase(c)
			if wild != "" {
				v.Class("renamed:" + wild)
			}
			col.Check(rt, ev.JSON(c), v)
		})
	})
	t.Run("slow-reader", func(t *testing.T) {
		// one case per shard: a live reader that takes seconds (real time) for one response
		ms := []int{1100, 2100, 5100, 6000}
		if ev.Thorough() {
			ms = append(ms, 10100, 11000, 15100)
		}
		sk, _ := ev.Shard()
		c := Case{Batch: []int{4}, SlowAt: 1 + sk%3, SlowMs: ms[(sk+int(ev.Seed()))%len(ms)]}
		c.H.FwdRefs = true
		id := uint64(0)
		for i, ni := range hgen.NIs {
			for j := 1; j <= 3; j++ {
				id++
				c.H.Steps = append(c.H.Steps, hgen.Step{Op: &gen.Op{ID: id, NI: ni, Kind: gen.NH, Act: gen.ADD, Key: fmt.Sprint(j), IP: fmt.Sprintf("192.0.2.%d", 10*i+j)}})
			}
			id++
			c.H.Steps = append(c.H.Steps, hgen.Step{Op: &gen.Op{ID: id, NI: ni, Kind: gen.NHG, Act: gen.ADD, Key: "1", Hops: []gen.Hop{{Index: 1}, {Index: 2}}}})
			id++
			c.H.Steps = append(c.H.Steps, hgen.Step{Op: &gen.Op{ID: id, NI: ni, Kind: gen.V4, Act: gen.ADD, Key: "10.0.0.0/8", Group: 1}})
		}
		v := runCase(c)
		v.NonTrivial = true
		if fresh := col.Record(ev.JSON(c), v); len(fresh) > 0 {
			t.Errorf("%s: %v", ev.JSON(c), fresh)
		}
	})
	t.Run("many-instances", func(t *testing.T) {
		// servers with 0-20 non-default instances (sizes around 4, 8 and 16 preferred) holding a
		// next-hop, a group and one or two prefixes in a drawn subset of them
		sizes := []int{0, 1, 2, 3, 4, 5, 6, 7, 8, 9, 12, 15, 16, 17, 20}
		rapid.Check(t, func(rt *rapid.T) {
			if rapid.IntRange(0, 3).Draw(rt, "run?") != 0 {
				return
			}
			n := sizes[rapid.IntRange(0, len(sizes)-1).Draw(rt, "instances")]
			c := Case{VRFs: []string{}, Batch: []int{rapid.IntRange(1, 8).Draw(rt, "batch")}}
			for i := 0; i < n; i++ {
				c.VRFs = append(c.VRFs, fmt.Sprintf("VRF-%02d", i))
			}
			c.H.FwdRefs = true
			id := uint64(0)
			add := func(o *gen.Op) {
				id++
				o.ID = id
				c.H.Steps = append(c.H.Steps, hgen.Step{Op: o})
			}
			for i, ni := range append([]string{"DEFAULT"}, c.VRFs...) {
				if n > 2 && rapid.IntRange(0, 3).Draw(rt, "skip-instance") == 0 && i != n {
					continue // the last instance is always populated
				}
				add(&gen.Op{NI: ni, Kind: gen.NH, Act: gen.ADD, Key: fmt.Sprint(i + 1), IP: fmt.Sprintf("192.0.2.%d", i+1)})
				add(&gen.Op{NI: ni, Kind: gen.NHG, Act: gen.ADD, Key: fmt.Sprint(i + 1), Hops: []gen.Hop{{Index: uint64(i + 1)}}})
				add(&gen.Op{NI: ni, Kind: gen.V4, Act: gen.ADD, Key: fmt.Sprintf("10.%d.0.0/16", i), Group: uint64(i + 1)})
				if rapid.Bool().Draw(rt, "more") {
					add(&gen.Op{NI: ni, Kind: gen.V6, Act: gen.ADD, Key: fmt.Sprintf("2001:db8:%x::/48", i), Group: uint64(i + 1)})
					add(&gen.Op{NI: ni, Kind: gen.MPLS, Act: gen.ADD, Key: fmt.Sprint(100 + i), Group: uint64(i + 1)})
				}
			}
			v := runCase(c)
			v.Class(fmt.Sprintf("instances:%d", n+1))
			v.NonTrivial = n >= 2
			col.Check(rt, ev.JSON(c), v)
		})
	})
	col.MinimizeAll(minimize)
}

func minimize(sig string, cs []byte) []byte {
	var c Case
	if err := json.Unmarshal(cs, &c); err != nil {
		return nil
	}
	fails := func(h hgen.History) bool {
		cc := c
		cc.H = h
		for i := 0; i < 3; i++ {
			if runCase(cc).HasSig(sig) {
				return true
			}
		}
		return false
	}
	fails = ev.Bounded(fails)
	if !fails(c.H) {
		return nil
	}
	c.H = hgen.Minimize(c.H, fails)
	return ev.JSON(c)
}
