package c16

import (
	"encoding/json"
	"fmt"
	"reflect"
	"runtime"
	"strconv"
	"strings"
	"sync"
	"testing"
	"time"

	"pgregory.net/rapid"

	"github.com/openconfig/gribigo/aft"
	"github.com/openconfig/gribigo/constants"
	"github.com/openconfig/gribigo/rib"
	"github.com/openconfig/gribigo/server"
	"github.com/openconfig/ygot/ygot"

	"verifh/internal/drive"
	"verifh/internal/ev"
	"verifh/internal/gen"
	"verifh/internal/hgen"
	"verifh/internal/inject"
	"verifh/internal/l1"
	"verifh/internal/l2"
	"verifh/internal/model"
	"verifh/internal/obs"
)

func TestMain(m *testing.M) { ev.Main(m, "C16", "exploration") }

// Case: a history plus the order in which hook and network instances are set up.
type Case struct {
	// Config: "rib-hook-then-nis", "rib-nis-then-hook", "server-opts" (WithPostChangeRIBHook + WithVRFs),
	// "server-runtime-nis" (hook at New, AddNetworkInstance afterwards)
	Config string       `json:"config"`
	H      hgen.History `json:"h"`
	Batch  []int        `json:"batch,omitempty"`
	// Config "inject" (inject_test.go): a second actor's operation starts inside a Flush
	Inject *inject.Spec `json:"inject,omitempty"`
}

var configs = []string{"rib-hook-then-nis", "rib-nis-then-hook", "server-opts", "server-runtime-nis"}

func setup() {
	c := ev.C()
	c.Rule = "C01-style histories (rapid, model-aimed, with held-operation resolution and single-NI/all-NI flushes) x 4 configuration orders (hook registered before / after the network instances exist, via rib.SetPostChangeHook+AddNetworkInstance, server.WithPostChangeRIBHook+WithVRFs, Server.AddNetworkInstance at runtime). Oracle: a consumer folding the post-change notifications (ADD -> put, DELETE with non-nil entry -> remove) must equal RIBContents in every NI after every step; every resolved-entry notification (count == model-predicted, awaited by goroutine state) must contain the key for ADD, lack it for DELETE and be unchanged at the end of the history. Plus (rib API) Flushes stopped at a drawn removal notification where a second actor's operation (mostly re-programming a key that is being flushed) is started and the Flush resumes once it returned or is parked on a lock: when both have finished the fold of all notifications must equal the RIB contents. Non-trivial = history changes an NI that was created after hook registration, or contains a flush that removed entries, or a held-operation resolution; distinct by FNV-64 of the case JSON. Later additions: harness-owned wall clock stepped/frozen before drawn steps; injected schedules with the resolved-entry hook registered and AddNetworkInstance as second actor."
	c.Assumptions = []string{"payloads are schema-valid", "the consumer does not call back into the RIB from the hook"}
}

type consumer struct {
	mu       sync.Mutex
	st       map[gen.EntryKey]ygot.ValidatedGoStruct
	bad      []string
	resolved []*resolvedEv
}

type resolvedEv struct {
	op      constants.OpType
	ni      string
	aft     constants.AFT
	key     string
	ribs    map[string]*aft.RIB
	atRecv  obs.State
	recvErr error
}

func keyOfStruct(ni string, g ygot.ValidatedGoStruct) (gen.EntryKey, bool) {
	if g == nil || reflect.ValueOf(g).IsNil() {
		return gen.EntryKey{}, false
	}
	switch t := g.(type) {
	case *aft.Afts_Ipv4Entry:
		return gen.EntryKey{NI: ni, Kind: gen.V4, Key: t.GetPrefix()}, true
	case *aft.Afts_Ipv6Entry:
		return gen.EntryKey{NI: ni, Kind: gen.V6, Key: t.GetPrefix()}, true
	case *aft.Afts_LabelEntry:
		if l, ok := t.GetLabel().(aft.UnionUint32); ok {
			return gen.EntryKey{NI: ni, Kind: gen.MPLS, Key: strconv.FormatUint(uint64(l), 10)}, true
		}
	case *aft.Afts_NextHopGroup:
		return gen.EntryKey{NI: ni, Kind: gen.NHG, Key: strconv.FormatUint(t.GetId(), 10)}, true
	case *aft.Afts_NextHop:
		return gen.EntryKey{NI: ni, Kind: gen.NH, Key: strconv.FormatUint(t.GetIndex(), 10)}, true
	}
	return gen.EntryKey{}, false
}

func (c *consumer) hook(op constants.OpType, ts int64, ni string, g ygot.ValidatedGoStruct) {
	c.mu.Lock()
	defer c.mu.Unlock()
	k, ok := keyOfStruct(ni, g)
	switch op {
	case constants.Add, constants.Replace:
		if !ok {
			c.bad = append(c.bad, fmt.Sprintf("ADD notification in %s without a usable entry (%T)", ni, g))
			return
		}
		c.st[k] = g
	case constants.Delete:
		if ok {
			delete(c.st, k)
		}
	default:
		c.bad = append(c.bad, fmt.Sprintf("notification with unknown op type %v", op))
	}
}

func keyString(k any) string {
	switch t := k.(type) {
	case string:
		return t
	case uint64:
		return strconv.FormatUint(t, 10)
	case uint32:
		return strconv.FormatUint(uint64(t), 10)
	case aft.UnionUint32:
		return strconv.FormatUint(uint64(t), 10)
	}
	return fmt.Sprintf("%v", k)
}

func (c *consumer) resolvedHook(ribs map[string]*aft.RIB, op constants.OpType, ni string, a constants.AFT, key any, _ ...rib.ResolvedDetails) {
	st, err := obs.FromContents(ribs)
	c.mu.Lock()
	defer c.mu.Unlock()
	c.resolved = append(c.resolved, &resolvedEv{op: op, ni: ni, aft: a, key: keyString(key), ribs: ribs, atRecv: st, recvErr: err})
}

// state converts the consumer's fold into comparable form.
func (c *consumer) state() (obs.State, error) {
	c.mu.Lock()
	defer c.mu.Unlock()
	st := obs.State{}
	for k, g := range c.st {
		var err error
		switch t := g.(type) {
		case *aft.Afts_Ipv4Entry:
			p, e := rib.ConcreteIPv4Proto(t)
			st[k], err = model.Canon(p), e
		case *aft.Afts_Ipv6Entry:
			p, e := rib.ConcreteIPv6Proto(t)
			st[k], err = model.Canon(p), e
		case *aft.Afts_LabelEntry:
			p, e := rib.ConcreteMPLSProto(t)
			st[k], err = model.Canon(p), e
		case *aft.Afts_NextHopGroup:
			p, e := rib.ConcreteNextHopGroupProto(t)
			st[k], err = model.Canon(p), e
		case *aft.Afts_NextHop:
			p, e := rib.ConcreteNextHopProto(t)
			st[k], err = model.Canon(p), e
		}
		if err != nil {
			return nil, err
		}
	}
	return st, nil
}

// waitResolvedQuiet waits until no resolved-entry callback goroutine exists any more.
func waitResolvedQuiet() bool {
	deadline := time.Now().Add(drive.Watchdog)
	for {
		busy := false
		for _, g := range drive.Parse(drive.Dump()) {
			if strings.Contains(g.CreatedBy, "callResolvedEntryHook") {
				busy = true
				break
			}
		}
		if !busy {
			return true
		}
		if time.Now().After(deadline) {
			return false
		}
		runtime.Gosched()
	}
}

type tracker struct {
	cons    *consumer
	touched map[string]bool
}

// check is run at every observation point.
func (tk *tracker) check(r *rib.RIB, m *model.RIB, v *ev.Verdict, when string) {
	got, err := obs.FromRIB(r)
	if err != nil {
		v.Fail("C16/contents-unreadable", "%s: %v", when, err)
		return
	}
	cs, err := tk.cons.state()
	if err != nil {
		v.Fail("C16/consumer-unreadable", "%s: %v", when, err)
		return
	}
	tk.cons.mu.Lock()
	bad := append([]string(nil), tk.cons.bad...)
	tk.cons.mu.Unlock()
	for _, b := range bad {
		v.Fail("C16/bad-notification", "%s: %s", when, b)
	}
	if d := obs.Diff(got, cs); len(d) > 0 {
		late := ""
		for _, l := range d {
			if strings.Contains(l, "VRF-") {
				late = "+vrf"
			}
		}
		v.Fail("C16/fold-of-notifications:"+obs.DiffClass(d)+late, "%s: folding the post-change notifications does not give the RIB contents (want = RIB, got = consumer): %s", when, strings.Join(d, "; "))
	}
	for k := range got {
		tk.touched[k.NI] = true
	}
}

func runCase(c Case) *ev.Verdict {
	if c.Config == "inject" {
		return runInject(c)
	}
	cons := &consumer{st: map[gen.EntryKey]ygot.ValidatedGoStruct{}}
	tk := &tracker{cons: cons, touched: map[string]bool{}}
	var v *ev.Verdict
	var tr *l1.Trace
	var finalRIB *rib.RIB
	switch c.Config {
	case "rib-hook-then-nis", "rib-nis-then-hook":
		o := l1.Opts{P: "C16", Trusted: true}
		if c.Config == "rib-hook-then-nis" {
			o.Setup = func(r *rib.RIB) {
				r.SetPostChangeHook(cons.hook)
				r.SetResolvedEntryHook(cons.resolvedHook)
			}
		} else {
			o.NoVRFs = true
			o.Setup = func(r *rib.RIB) {
				for _, n := range hgen.NIs[1:] {
					if err := r.AddNetworkInstance(n); err != nil {
						panic(err)
					}
				}
				r.SetPostChangeHook(cons.hook)
				r.SetResolvedEntryHook(cons.resolvedHook)
			}
		}
		o.AfterStep = func(i int, r *rib.RIB, m *model.RIB, vv *ev.Verdict) {
			finalRIB = r
			tk.check(r, m, vv, fmt.Sprintf("step %d", i))
		}
		v, tr = l1.Run(c.H, o)
	default:
		so := []server.ServerOpt{server.WithPostChangeRIBHook(cons.hook), server.WithRIBResolvedEntryHook(cons.resolvedHook)}
		o := l2.Opts{P: "C16", Trusted: true, Batch: c.Batch, SrvOpts: so}
		if c.Config == "server-runtime-nis" {
			o.RuntimeVRFs = true
		}
		o.AfterBatch = func(s *drive.Srv, m *model.RIB, vv *ev.Verdict, when string) {
			finalRIB = s.S.VerifRIB()
			tk.check(s.S.VerifRIB(), m, vv, when)
		}
		v, tr = l2.RunHistory(c.H, o)
	}
	// resolved-entry notifications
	if !waitResolvedQuiet() {
		v.Inconclusive = "resolved-entry callbacks still running after the watchdog"
		return v
	}
	cons.mu.Lock()
	evs := append([]*resolvedEv(nil), cons.resolved...)
	cons.mu.Unlock()
	if len(v.Findings) == 0 {
		want := tr.TopAcks + tr.TopDeletes
		if len(evs) != want {
			v.Fail("C16/resolved-count", "resolved-entry hook was called %d times, the history acknowledged %d top-level installs and %d deletes of installed top-level entries", len(evs), tr.TopAcks, tr.TopDeletes)
		}
	}
	for _, e := range evs {
		if e.recvErr != nil {
			v.Fail("C16/resolved-snapshot-unreadable", "%v", e.recvErr)
			continue
		}
		kind := map[constants.AFT]string{constants.IPv4: gen.V4, constants.IPv6: gen.V6, constants.MPLS: gen.MPLS}[e.aft]
		k := gen.EntryKey{NI: e.ni, Kind: kind, Key: e.key}
		_, has := e.atRecv[k]
		switch {
		case e.op == constants.Add && !has:
			v.Fail("C16/resolved-add-missing", "resolved-entry ADD notification for %s: the snapshot does not contain the entry", k)
		case e.op == constants.Delete && has:
			v.Fail("C16/resolved-delete-present", "resolved-entry DELETE notification for %s: the snapshot still contains the entry", k)
		}
		now, err := obs.FromContents(e.ribs)
		if err != nil {
			v.Fail("C16/resolved-snapshot-unreadable", "%v", err)
			continue
		}
		if d := obs.Diff(e.atRecv, now); len(d) > 0 {
			v.Fail("C16/resolved-snapshot-not-private", "snapshot handed to the resolved-entry hook for %s changed after it was delivered: %s", k, strings.Join(d, "; "))
		}
	}
	_ = finalRIB
	lateNI := false
	if c.Config != "rib-nis-then-hook" {
		for ni := range tk.touched {
			if ni != "DEFAULT" {
				lateNI = true
			}
		}
	}
	if lateNI {
		v.Class("ni-created-after-registration-changed")
	}
	if tr.FlushSurvivors+tr.Flushes > 0 {
		v.Class("flush")
	}
	if tr.HeldResolved > 0 {
		v.Class("held-resolved")
	}
	if len(evs) > 0 {
		v.Class("resolved-entry-notifications")
	}
	v.Class("config:" + c.Config)
	v.NonTrivial = lateNI || tr.Flushes > 0 || tr.HeldResolved > 0
	return v
}

func TestReplay(t *testing.T) {
	setup()
	for _, f := range ev.ReplayFiles() {
		var c Case
		if err := ev.LoadCase(f, &c); err != nil {
			t.Fatalf("%s: %v", f, err)
		}
		for i := 0; i < 10; i++ {
			v := runCase(c)
			if fresh := ev.C().Record(ev.JSON(c), v); len(fresh) > 0 {
				t.Errorf("%s: %v", f, fresh)
				break
			}
		}
	}
}

func TestCampaign(t *testing.T) {
	setup()
	col := ev.C()
	t.Run("random", func(t *testing.T) {
		cfg := hgen.DefaultCfg()
		cfg.ClockPct = 10
		cfg.FlushPct = 5
		cfg.MinLen, cfg.MaxLen = 4, 30
		rapid.Check(t, func(rt *rapid.T) {
			c := Case{Config: configs[rapid.IntRange(0, len(configs)-1).Draw(rt, "config")], H: hgen.DrawHistory(rt, cfg)}
			if strings.HasPrefix(c.Config, "server") {
				c.Batch = []int{rapid.IntRange(1, 5).Draw(rt, "batch")}
			}
			var wild string
			if rapid.IntRange(0, 29).Draw(rt, "bulk?") == 7 {
				c.H = hgen.DrawBulk(rt, hgen.BulkCfg{MaxNH: 16, MaxNHG: 10, MaxTop: 40, MaxHops: 8, Churn: 20})
				if c.Batch != nil {
					c.Batch = []int{rapid.IntRange(8, 40).Draw(rt, "bigbatch")}
				}
			} else {
				c.H, wild = hgen.MaybeRename(rt, c.H, 20)
			}
			v := runCase(c)
			if wild != "" {
				v.Class("renamed:" + wild)
			}
			col.Check(rt, ev.JSON(c), v)
		})
	})
	t.Run("operation-injected-inside-a-flush", func(t *testing.T) {
		rapid.Check(t, func(rt *rapid.T) {
			if rapid.IntRange(0, 1).Draw(rt, "run?") != 0 {
				return
			}
			c := drawInject(rt)
			v := runCase(c)
			col.Check(rt, ev.JSON(c), v)
		})
	})
	col.MinimizeAll(minimize)
}

func minimize(sig string, cs []byte) []byte {
	var c Case
	if err := json.Unmarshal(cs, &c); err != nil {
		return nil
	}
	fails := func(h hgen.History) bool {
		cc := c
		cc.H = h
		for i := 0; i < 3; i++ {
			if runCase(cc).HasSig(sig) {
				return true
			}
		}
		return false
	}
	fails = ev.Bounded(fails)
	if !fails(c.H) {
		return nil
	}
	c.H = hgen.Minimize(c.H, fails)
	return ev.JSON(c)
}
