#!/usr/bin/env python3
"""usage: tools/seed_prompt.py <Cxx> <worktree dir> [flavour]

Prints the prompt given to an independent sub-agent that writes a seeded change: the text of one
property (the record of properties.jsonl), the scratch worktree to work in, what kind of
manifestation is wanted, and one line per earlier seed of that property (mechanism only, so that
a different one is chosen). Nothing else from /verif is given.
"""
import json, os, sys, glob

FLAVOURS = {
    "scale": "Prefer a change that only shows with unusual values or at scale (an unusual but valid input value, a boundary, a size above some threshold, a long-lived session, many entries).",
    "interleave": "Prefer a change that needs a particular interleaving of two or more concurrent actors, or a particular order of events between goroutines, to manifest (and explain how your demonstration forces that interleaving deterministically, e.g. with in-process fake streams, channels or by controlling message order).",
    "fault": "Prefer a change that needs a crash, disconnect, error return or cancellation at one particular point (a particular message, a particular position in a batch or stream) to manifest.",
    "twosite": "Prefer a change made of two cooperating edits in different functions (or different files) that each look fine in isolation and only break the property together, or a change whose effect appears only several operations after the step that causes it.",
    "free": "Choose yourself what the change needs in order to manifest - an unusual but valid value or a size, a particular interleaving of two actors, a disconnect or error at one particular point, two cooperating edits that each look fine alone, or a specific multi-step sequence - whichever you find most promising for staying unnoticed. Prefer code paths, functions and input features that the earlier changes listed below did NOT use; read the code the property is anchored in (and its callers and helpers) widely before choosing.",
    "evasive": "Assume the project is ALSO checked by generic property-based tests written by someone else: random operation histories over a small universe of keys compared with a reference model after every step, exhaustive enumeration of very short histories, fault injection at every message boundary, hand-over schedules, and concurrent workloads under the race detector. Choose a change that such testing is unlikely to hit within a few minutes: for example one that needs a precise combination of several rare conditions, a value or size that a small test universe would not contain, state that accumulates over a long-lived process (counters, caches, timestamps, identifiers), a rarely used but documented API entry point or configuration option, or an interaction between two packages. Read the code widely before choosing, and prefer code paths that the earlier changes listed below did NOT use.",
    "multistep": "Prefer a change that needs a specific multi-step sequence of operations (three or more distinct steps, in a particular order, possibly across sessions or network instances) to manifest.",
}

def main():
    pid, wt = sys.argv[1], sys.argv[2]
    flavour = sys.argv[3] if len(sys.argv) > 3 else "multistep"
    here = os.path.dirname(os.path.abspath(__file__))
    rec = None
    for l in open(os.path.join(here, "..", "properties.jsonl")):
        r = json.loads(l)
        if r["id"] == pid:
            rec = r
    earlier = []
    for m in sorted(glob.glob(os.path.join(here, "..", "seeded", "S*-%s-*" % pid, "meta.json"))):
        j = json.load(open(m))
        earlier.append("- " + j.get("needs_to_manifest", "")[:300])
    print(f"""You are helping to evaluate a verification framework for the Go project openconfig/gribigo (a reference implementation of the gRIBI protocol). Your job is to write ONE realistic, subtle bug.

A git worktree of the project is at {wt} — work ONLY inside that directory (never touch /repo or /verif, never read /verif). Environment for every shell call: `export GOFLAGS=-mod=mod GOPROXY=off` (no network; do not set GOSUMDB). The default `go` switches to the right toolchain by itself.

Here is a semantic property of the project that is supposed to hold (JSON record; "anchors" says where the relevant code is):

{json.dumps(rec, indent=1)}

Task: make a change to the NON-TEST source code of the project (any package; not *_test.go, not generated code, not vendored protos) such that
 1. the project still compiles (`go build ./...` and `go vet ./...` as far as it passed before),
 2. the ENTIRE existing test suite still passes: `go test -count=1 ./...` (takes a few minutes; run it at the end, and fix your change if anything fails),
 3. the property above is broken — but NOT in a way that ordinary use would expose at once. {FLAVOURS[flavour]} It should look like a plausible refactoring, optimisation or feature a maintainer could have written, not sabotage: no magic constants that exist only to trigger the bug, no comments that give it away.
 4. you write a demonstration: a new Go test file containing exactly one test function named `TestSeedDemo` (in an existing package directory of the worktree, file name `seed_demo_test.go`) that FAILS with your change and PASSES without it (check both: `git stash` / `git apply -R` the source change, run the demo, re-apply). The demonstration must be deterministic (fails every time with the change; run it 3 times).

Earlier changes already written for this property used these mechanisms — choose a DIFFERENT one:
{chr(10).join(earlier) if earlier else '- (none)'}

When done, leave the worktree with the source change applied (uncommitted) and the demo file present (untracked), and write the source change (without the demo file) to {wt}/patch.diff using `git diff -- . ':!*_test.go' > patch.diff`. Do not commit anything.

Report back (short): which files/functions you changed, the mechanism of the bug in two sentences, exactly what is needed for it to manifest, the package directory of the demo, and the outputs (pass/fail lines) of: demo with change, demo without change, full test suite with change.""")

if __name__ == "__main__":
    main()
