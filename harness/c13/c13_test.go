package c13

import (
	"context"
	"encoding/json"
	"errors"
	"fmt"
	"sort"
	"sync"
	"sync/atomic"
	"testing"
	"time"

	"pgregory.net/rapid"

	spb "github.com/openconfig/gribi/v1/proto/service"
	"github.com/openconfig/gribigo/client"
	"github.com/openconfig/gribigo/constants"

	"verifh/internal/cstub"
	"verifh/internal/ev"
	"verifh/internal/gen"
)

func TestMain(m *testing.M) {
	client.BusyLoopDelay = time.Millisecond
	cstub.Watchdog = 10 * time.Second
	ev.Main(m, "C13", "exploration")
}

// OpSpec is one operation the application hands to the client.
type OpSpec struct {
	Kind string `json:"k"`
	Key  string `json:"key"`
	Act  string `json:"a"`
}

// Result is one AFTResult the scripted server sends.
type Result struct {
	ID     uint64 `json:"id"`
	Status int32  `json:"status"`
}

// Event is one step of the schedule.
type Event struct {
	// K: q (the application queues request Req) | resp (server sends Results) | params-resp | elec-resp |
	// probe (sample the accounting and AwaitConverged) | bad-unknown-id | bad-dup-terminal | bad-multi-field
	K       string   `json:"k"`
	Req     int      `json:"req,omitempty"`
	Results []Result `json:"results,omitempty"`
	// Pos (bad-* events): the violating result is inserted at this position among
	// the valid results of Results that share its response.
	Pos int `json:"pos,omitempty"`
	// Mixed (q): the request carries, besides its operations, the client's election id once
	// more ("e") - the election is then pending again until the server answers it
	Mixed string `json:"mixed,omitempty"`
}

type Case struct {
	FIB    bool       `json:"fib"`
	Reqs   [][]OpSpec `json:"reqs"`
	Events []Event    `json:"events"`
	// Dup (dupid_test.go): an operation id handed in twice while unanswered
	Dup *Dup `json:"dup,omitempty"`
	// ReSess (resess_test.go): a second session on the same client after Reset
	ReSess *ReSess `json:"resess,omitempty"`
}

func setup() {
	c := ev.C()
	c.Rule = "the client library driven through a scripted stub GRIBIClient: RIB-ack or FIB-ack mode, 1-6 requests of 1-20 operations over all entry kinds queued at drawn points, and an adversarial server schedule: results in any order across ids that keeps RIB-before-FIB per id (FAILED | RIB_PROGRAMMED | RIB then FIB_PROGRAMMED/FIB_FAILED/FAILED | FIB_PROGRAMMED alone), arbitrarily grouped into responses, interleaved with the election and session-parameter responses; plus violating schedules (result for an unknown id, duplicate terminal result, multi-field response); plus an operation id handed in a second time while unanswered (inside one request or in a later one), every distinct id answered once: AwaitConverged must not return nil. The application acknowledges results at drawn points (AckResult: exactly those results leave Results(), ids without a result are reported as an error). Pending/Results/Status are polled concurrently by a sampler goroutine. Oracle (client model: queued -> pending -> terminal result): at every probe and at the end each handed-over id is in exactly one of pending / terminal-result, result sequences per id equal what the server sent, every result carries the operation type and key of its id, a RIB ack never completes an operation in FIB-ack mode, AwaitConverged returns nil iff nothing is pending and no error was recorded (checked in both directions) and a *ClientErr with the recorded errors after a violating schedule. Non-trivial = results reordered across ids or >=2 results in one response, or FIB-ack mode with the RIB and FIB acks of an id in different responses; distinct by FNV-64 of the case JSON. Later additions: requests carrying the election id together with operations."
	c.Assumptions = []string{"client.BusyLoopDelay is set to 1ms (exported tunable); negative AwaitConverged expectations use a 5ms context and only assert that nil is NOT returned"}
}

func (o OpSpec) op(id uint64) *spb.AFTOperation {
	g := &gen.Op{ID: id, NI: "DEFAULT", Kind: o.Kind, Act: o.Act, Key: o.Key, Elec: &gen.ID128{Lo: 1}}
	switch o.Kind {
	case gen.V4, gen.V6, gen.MPLS:
		g.Group = 1
	case gen.NHG:
		g.Hops = []gen.Hop{{Index: 1}}
	case gen.NH:
		g.IP = "192.0.2.1"
	}
	return g.Proto()
}

func terminal(st spb.AFTResult_Status, fib bool) bool {
	switch st {
	case spb.AFTResult_FAILED:
		return true
	case spb.AFTResult_RIB_PROGRAMMED:
		return !fib
	case spb.AFTResult_FIB_PROGRAMMED, spb.AFTResult_FIB_FAILED:
		return true
	}
	return false
}

type world struct {
	c                           Case
	v                           *ev.Verdict
	cl                          *client.Client
	st                          *cstub.Stream
	ops                         map[uint64]OpSpec
	handed                      map[uint64]bool
	seq                         map[uint64][]spb.AFTResult_Status // what the server sent per id
	done                        map[uint64]bool
	paramsPending, elecPending  bool
	elecNeed                    int // messages the server must have received before it can answer the pending election
	resps                       int
	bad                         bool
	badKind                     string
	unsure                      map[uint64]bool // ids answered in the same response as a violating result
	recvStopped                 bool
	reorder, grouped, splitAcks bool
	acked                       map[uint64]bool // completed ids whose results the application acknowledged (AckResult)
}

func (w *world) fail(sig, f string, a ...any) { w.v.Fail("C13/"+sig, f, a...) }

func (w *world) modelPending() []uint64 {
	var out []uint64
	for id := range w.handed {
		if !w.done[id] {
			out = append(out, id)
		}
	}
	sort.Slice(out, func(i, j int) bool { return out[i] < out[j] })
	return out
}

// probe samples the client's view once everything sent so far was processed.
func (w *world) probe(when string) bool {
	if !w.syncRecv(when) {
		return false
	}
	return w.probeState(when)
}

// syncRecv waits until the client has processed everything the server sent: its
// receiver comes back to Recv, or it stops (Done is signalled).
func (w *world) syncRecv(when string) bool {
	if !w.recvStopped {
		came := make(chan bool, 1)
		go func() { came <- w.st.WaitRecvCalls(w.resps + 1) }()
		select {
		case <-w.cl.Done():
			w.recvStopped = true
			if !w.bad {
				st, _ := w.cl.Status()
				w.fail("receiver-stopped", "%s: the client's receiver stopped although the server respected the protocol; recorded errors: send %v recv %v", when, st.SendErrs, st.ReadErrs)
				return false
			}
		case ok := <-came:
			if !ok {
				w.fail("receiver-stuck", "%s: the client's receiver neither stopped nor came back for response %d within the watchdog", when, w.resps+1)
				return false
			}
		}
	}
	return true
}

func (w *world) probeState(when string) bool {
	pend, err := w.cl.Pending()
	if err != nil {
		w.fail("pending-error", "%s: %v", when, err)
		return false
	}
	var got []uint64
	gotElec, gotParams := false, false
	for _, p := range pend {
		switch t := p.(type) {
		case *client.PendingOp:
			got = append(got, t.Op.GetId())
		case *client.ElectionReqDetails:
			gotElec = true
		case *client.SessionParamReqDetails:
			gotParams = true
		}
	}
	sort.Slice(got, func(i, j int) bool { return got[i] < got[j] })
	want := w.modelPending()
	if len(w.unsure) > 0 {
		f := func(xs []uint64) []uint64 {
			var out []uint64
			for _, x := range xs {
				if !w.unsure[x] {
					out = append(out, x)
				}
			}
			return out
		}
		got, want = f(got), f(want)
	}
	if fmt.Sprint(got) != fmt.Sprint(want) {
		extra, missing := diff(got, want)
		sig := "pending-set"
		if len(missing) > 0 {
			sig += ":op-lost-from-pending"
		}
		if len(extra) > 0 {
			sig += ":completed-op-still-pending"
		}
		w.fail(sig, "%s: Pending() has operation ids %v, the model %v (fib=%v; server sent %v)", when, got, want, w.c.FIB, w.seq)
	}
	if gotElec != w.elecPending || gotParams != w.paramsPending {
		w.fail("pending-session", "%s: pending election=%v params=%v, model election=%v params=%v", when, gotElec, gotParams, w.elecPending, w.paramsPending)
	}
	res, err := w.cl.Results()
	if err != nil {
		w.fail("results-error", "%s: %v", when, err)
		return false
	}
	perID := map[uint64][]spb.AFTResult_Status{}
	for _, r := range res {
		if r == nil || r.OperationID == 0 {
			continue // (after a violating response the client stores a nil result)
		}
		perID[r.OperationID] = append(perID[r.OperationID], r.ProgrammingResult)
		spec, known := w.ops[r.OperationID]
		if !known {
			continue
		}
		if r.Details == nil {
			w.fail("result-without-details", "%s: result for operation %d has no details", when, r.OperationID)
			continue
		}
		wantT := map[string]constants.OpType{gen.ADD: constants.Add, gen.REPLACE: constants.Replace, gen.DELETE: constants.Delete}[spec.Act]
		k := ""
		switch {
		case r.Details.IPv4Prefix != "":
			k = gen.V4 + ":" + r.Details.IPv4Prefix
		case r.Details.IPv6Prefix != "":
			k = gen.V6 + ":" + r.Details.IPv6Prefix
		case r.Details.MPLSLabel != 0:
			k = fmt.Sprintf("%s:%d", gen.MPLS, r.Details.MPLSLabel)
		case r.Details.NextHopGroupID != 0:
			k = fmt.Sprintf("%s:%d", gen.NHG, r.Details.NextHopGroupID)
		case r.Details.NextHopIndex != 0:
			k = fmt.Sprintf("%s:%d", gen.NH, r.Details.NextHopIndex)
		}
		if r.Details.Type != wantT || k != spec.Kind+":"+spec.Key {
			w.fail("result-details", "%s: result for operation %d carries type %v key %q, the operation was %s %s:%s", when, r.OperationID, r.Details.Type, k, spec.Act, spec.Kind, spec.Key)
		}
	}
	for id := range w.acked {
		if len(perID[id]) > 0 && !w.bad {
			w.fail("ack-did-not-remove", "%s: the results of operation %d were acknowledged with AckResult but Results() still has %v", when, id, perID[id])
		}
	}
	for id := range w.handed {
		if fmt.Sprint(perID[id]) != fmt.Sprint(w.seq[id]) && !w.bad {
			w.fail("result-sequence", "%s: Results() for operation %d are %v, the server sent %v", when, id, perID[id], w.seq[id])
		}
		nterm := 0
		for _, s := range perID[id] {
			if terminal(s, w.c.FIB) {
				nterm++
			}
		}
		if nterm > 1 && !w.bad {
			w.fail("completed-twice", "%s: operation %d has %d terminal results %v", when, id, nterm, perID[id])
		}
	}
	// AwaitConverged, both directions
	conv := len(want) == 0 && !w.elecPending && !w.paramsPending
	ctx, cancel := context.WithTimeout(context.Background(), 5*time.Millisecond)
	if conv {
		cancel()
		ctx, cancel = context.WithTimeout(context.Background(), cstub.Watchdog)
	} else if w.bad {
		// the violating response has been processed (synchronised above): a
		// recorded error is returned by the very first poll
		cancel()
		ctx, cancel = context.WithTimeout(context.Background(), 50*time.Millisecond)
	}
	aerr := w.cl.AwaitConverged(ctx)
	cancel()
	var ce *client.ClientErr
	switch {
	case w.bad:
		if !errors.As(aerr, &ce) || len(ce.Recv) == 0 {
			w.fail("violating-server-not-reported:"+w.badKind, "%s: the server violated the protocol (%s) but AwaitConverged returned %v", when, w.badKind, aerr)
		}
	case conv && aerr != nil:
		w.fail("await-not-converged", "%s: nothing is pending and no error was recorded but AwaitConverged returned %v", when, aerr)
	case !conv && aerr == nil:
		w.fail("await-converged-early", "%s: AwaitConverged returned nil while operations %v (election pending=%v, params pending=%v) are unanswered", when, want, w.elecPending, w.paramsPending)
	case !conv && errors.As(aerr, &ce):
		w.fail("await-spurious-error", "%s: AwaitConverged returned %v although the server behaved", when, aerr)
	}
	return len(w.v.Findings) == 0
}

func diff(got, want []uint64) (extra, missing []uint64) {
	g, wm := map[uint64]bool{}, map[uint64]bool{}
	for _, x := range got {
		g[x] = true
	}
	for _, x := range want {
		wm[x] = true
	}
	for _, x := range got {
		if !wm[x] {
			extra = append(extra, x)
		}
	}
	for _, x := range want {
		if !g[x] {
			missing = append(missing, x)
		}
	}
	return
}

func runCase(c Case) *ev.Verdict {
	if c.Dup != nil {
		return runDup(c)
	}
	if c.ReSess != nil {
		return runReSess(c)
	}
	v := &ev.Verdict{}
	stub := &cstub.Stub{}
	opts := []client.Opt{client.ElectedPrimaryClient(&spb.Uint128{Low: 1}), client.PersistEntries()}
	if c.FIB {
		opts = append(opts, client.FIBACK())
	}
	cl, err := client.New(opts...)
	if err != nil {
		v.Fail("C13/new", "%v", err)
		return v
	}
	cl.UseStub(stub)
	ctx, cancel := context.WithCancel(context.Background())
	defer cancel()
	if err := cl.Connect(ctx); err != nil {
		v.Fail("C13/connect", "%v", err)
		return v
	}
	cl.StartSending()
	w := &world{c: c, v: v, cl: cl, st: stub.Stream(0), ops: map[uint64]OpSpec{}, handed: map[uint64]bool{}, seq: map[uint64][]spb.AFTResult_Status{}, done: map[uint64]bool{}, paramsPending: true, elecPending: true, acked: map[uint64]bool{}}
	defer func() {
		done := make(chan struct{})
		go func() { cl.Close(); close(done) }()
		select {
		case <-done:
		case <-time.After(cstub.Watchdog):
			if len(v.Findings) == 0 {
				v.Fail("C13/close-hangs", "Close did not return")
			}
		}
	}()
	// operation ids: request i holds ids in order
	reqOps := make([][]*spb.AFTOperation, len(c.Reqs))
	id := uint64(0)
	reqOf := map[uint64]int{}
	for i, r := range c.Reqs {
		for _, o := range r {
			id++
			reqOps[i] = append(reqOps[i], o.op(id))
			w.ops[id] = o
			reqOf[id] = i
		}
	}
	// concurrent sampler: never lost, never completed twice
	var stop atomic.Bool
	var wg sync.WaitGroup
	var sampleErr atomic.Value
	var handedMu sync.Mutex
	handedSnap := func() map[uint64]bool {
		handedMu.Lock()
		defer handedMu.Unlock()
		m := map[uint64]bool{}
		for k := range w.handed {
			m[k] = true
		}
		return m
	}
	wg.Add(1)
	go func() {
		defer wg.Done()
		for !stop.Load() {
			h := handedSnap()
			stt, err := cl.Status()
			if err != nil {
				sampleErr.Store(fmt.Sprintf("Status(): %v", err))
				return
			}
			inPend := map[uint64]bool{}
			for _, p := range stt.PendingTransactions {
				if po, ok := p.(*client.PendingOp); ok {
					inPend[po.Op.GetId()] = true
				}
			}
			nterm := map[uint64]int{}
			for _, r := range stt.Results {
				if r != nil && r.OperationID != 0 && terminal(r.ProgrammingResult, c.FIB) {
					nterm[r.OperationID]++
				}
			}
			var h2 map[uint64]bool
			for id := range h {
				if !inPend[id] && nterm[id] == 0 {
					// (unless the application acknowledged its results between the two looks)
					if h2 == nil {
						h2 = handedSnap()
					}
					if !h2[id] {
						continue
					}
					sampleErr.Store(fmt.Sprintf("operation %d is neither pending nor has a terminal result (lost)", id))
					return
				}
			}
			time.Sleep(50 * time.Microsecond)
		}
	}()
	defer func() {
		stop.Store(true)
		wg.Wait()
		if s, ok := sampleErr.Load().(string); ok && len(v.Findings) == 0 && !w.bad {
			v.Fail("C13/sampler:lost-or-error", "concurrent sampler: %s", s)
		}
	}()

	queued := -1
	lastIDSeen := map[uint64]int{} // id -> response index of its first result
	for ei, e := range c.Events {
		when := fmt.Sprintf("event %d (%s)", ei, e.K)
		switch e.K {
		case "q":
			if e.Req != queued+1 || e.Req >= len(reqOps) {
				continue
			}
			mr := &spb.ModifyRequest{Operation: reqOps[e.Req]}
			if e.Mixed == "e" {
				// (the client keeps one pending election: the answer to the earlier one must have
				// been processed, or it would be taken for the answer to this one)
				if w.elecPending || !w.syncRecv(when) {
					continue
				}
				mr.ElectionId = &spb.Uint128{Low: 1}
				v.Class("request-with-operations-and-election-id")
			}
			queued = e.Req
			cl.Q(mr)
			if e.Mixed == "e" {
				w.elecPending = true
				w.elecNeed = 2 + queued + 1
			}
			// handed over once Q has returned
			handedMu.Lock()
			for _, o := range reqOps[e.Req] {
				w.handed[o.GetId()] = true
			}
			handedMu.Unlock()
		case "params-resp":
			if !w.paramsPending || w.bad {
				continue
			}
			if !w.st.WaitSent(1) {
				w.fail("handshake-missing", "%s: the session parameters never reached the server", when)
				return v
			}
			w.st.Respond(&spb.ModifyResponse{SessionParamsResult: &spb.SessionParametersResult{Status: spb.SessionParametersResult_OK}})
			w.resps++
			w.paramsPending = false
		case "elec-resp":
			if !w.elecPending || w.bad {
				continue
			}
			if !w.st.WaitSent(max(2, w.elecNeed)) {
				w.fail("handshake-missing", "%s: the election id never reached the server", when)
				return v
			}
			w.st.Respond(&spb.ModifyResponse{ElectionId: &spb.Uint128{Low: 1}})
			w.resps++
			w.elecPending = false
		case "resp":
			if w.bad {
				continue
			}
			m := &spb.ModifyResponse{}
			maxReq := -1
			for _, r := range e.Results {
				ri, ok := reqOf[r.ID]
				if !ok || ri > queued || w.done[r.ID] {
					continue // the generator only answers operations the server can know; after minimisation some may be gone
				}
				stt := spb.AFTResult_Status(r.Status)
				// keep RIB-before-FIB per id
				if len(w.seq[r.ID]) > 0 && stt == spb.AFTResult_RIB_PROGRAMMED {
					continue
				}
				if !c.FIB && (stt == spb.AFTResult_FIB_PROGRAMMED || stt == spb.AFTResult_FIB_FAILED) {
					continue
				}
				if stt == spb.AFTResult_FAILED && len(w.seq[r.ID]) > 0 && !(c.FIB && len(w.seq[r.ID]) == 1 && w.seq[r.ID][0] == spb.AFTResult_RIB_PROGRAMMED) {
					continue // FAILED is terminal in every mode; in FIB-ack mode it may follow the RIB ack
				}
				if ri > maxReq {
					maxReq = ri
				}
				m.Result = append(m.Result, &spb.AFTResult{Id: r.ID, Status: stt})
				if first, seen := lastIDSeen[r.ID]; seen && first != w.resps {
					w.splitAcks = true
				} else if !seen {
					lastIDSeen[r.ID] = w.resps
				}
				w.seq[r.ID] = append(w.seq[r.ID], stt)
				if terminal(stt, c.FIB) {
					w.done[r.ID] = true
				}
			}
			if len(m.Result) == 0 {
				continue
			}
			if len(m.Result) >= 2 {
				w.grouped = true
			}
			for i := 1; i < len(m.Result); i++ {
				if m.Result[i].Id < m.Result[i-1].Id {
					w.reorder = true
				}
			}
			if !w.st.WaitSent(2 + maxReq + 1) {
				w.fail("request-missing", "%s: request %d never reached the server", when, maxReq)
				return v
			}
			w.st.Respond(m)
			w.resps++
		case "bad-unknown-id", "bad-dup-terminal", "bad-multi-field":
			if w.bad {
				continue
			}
			m := &spb.ModifyResponse{}
			w.badKind = e.K
			switch e.K {
			case "bad-unknown-id":
				stt := spb.AFTResult_Status(e.Req%4 + 1) // FAILED, RIB_PROGRAMMED, FIB_PROGRAMMED, FIB_FAILED
				if !c.FIB && stt != spb.AFTResult_FAILED {
					stt = spb.AFTResult_RIB_PROGRAMMED
				}
				m.Result = []*spb.AFTResult{{Id: 999999, Status: stt}}
				w.badKind = fmt.Sprintf("unknown-id:%s:fib=%v", stt, c.FIB)
			case "bad-multi-field":
				m.Result = []*spb.AFTResult{{Id: 999999, Status: spb.AFTResult_FAILED}}
				m.ElectionId = &spb.Uint128{Low: 1}
			default:
				var did uint64
				var cands []uint64
				for x := range w.done {
					if len(w.seq[x]) > 0 { // (not one whose results the application acknowledged)
						cands = append(cands, x)
					}
				}
				sort.Slice(cands, func(i, j int) bool { return cands[i] < cands[j] })
				if len(cands) > 0 {
					did = cands[e.Req%len(cands)]
				}
				if did == 0 {
					continue
				}
				if !w.st.WaitRecvCalls(w.resps + 1) {
					w.fail("receiver-stuck", "%s", when)
					return v
				}
				m.Result = []*spb.AFTResult{{Id: did, Status: w.seq[did][len(w.seq[did])-1]}}
				w.badKind = fmt.Sprintf("dup-terminal:%s:fib=%v", w.seq[did][len(w.seq[did])-1], c.FIB)
			}
			// valid results of other, pending operations that share the response with the
			// violating one (before and/or behind it). Whether a client applies them is
			// not specified: their ids leave the pending-set comparison.
			if e.K != "bad-multi-field" && len(e.Results) > 0 {
				var comp []*spb.AFTResult
				maxReq := -1
				for _, r := range e.Results {
					ri, ok := reqOf[r.ID]
					if !ok || ri > queued || w.done[r.ID] || len(w.seq[r.ID]) > 0 {
						continue
					}
					stt := spb.AFTResult_Status(r.Status)
					if !c.FIB && (stt == spb.AFTResult_FIB_PROGRAMMED || stt == spb.AFTResult_FIB_FAILED) {
						continue
					}
					if ri > maxReq {
						maxReq = ri
					}
					comp = append(comp, &spb.AFTResult{Id: r.ID, Status: stt})
					if w.unsure == nil {
						w.unsure = map[uint64]bool{}
					}
					w.unsure[r.ID] = true
				}
				if len(comp) > 0 {
					if !w.st.WaitSent(2 + maxReq + 1) {
						w.fail("request-missing", "%s: request %d never reached the server", when, maxReq)
						return v
					}
					pos := e.Pos
					if pos < 0 || pos > len(comp) {
						pos = len(comp)
					}
					all := append([]*spb.AFTResult(nil), comp[:pos]...)
					all = append(all, m.Result...)
					all = append(all, comp[pos:]...)
					m.Result = all
					where := "last"
					if pos < len(comp) {
						where = "followed-by-valid"
					}
					// (not part of the signature: the known finding K1 is the same defect with or without companions)
					v.Class("violating-result-in-batch:" + where)
				}
			}
			w.st.Respond(m)
			w.resps++
			w.bad = true
		case "probe":
			if !w.probe(when) {
				return v
			}
		case "ack":
			// the application acknowledges results (AckResult): they leave Results(), every
			// other result stays; ids that have no result are reported as an error
			if w.bad || w.recvStopped {
				continue
			}
			if !w.syncRecv(when) {
				return v
			}
			var list []*client.OpResult
			var present, absent []uint64
			seen := map[uint64]bool{}
			for _, r := range e.Results {
				if seen[r.ID] || !w.handed[r.ID] && !w.acked[r.ID] {
					continue
				}
				seen[r.ID] = true
				list = append(list, &client.OpResult{OperationID: r.ID})
				if len(w.seq[r.ID]) > 0 {
					present = append(present, r.ID)
				} else {
					absent = append(absent, r.ID)
				}
			}
			if len(list) == 0 {
				continue
			}
			// (the sampler must not take an acknowledged, completed operation for a lost one)
			handedMu.Lock()
			for _, id := range present {
				if w.done[id] {
					delete(w.handed, id)
					w.acked[id] = true
				}
				w.seq[id] = nil
			}
			handedMu.Unlock()
			aerr := cl.AckResult(list...)
			switch {
			case len(absent) > 0 && aerr == nil:
				w.fail("ack-of-missing-result-ok", "%s: AckResult for operations %v, which have no result, returned nil", when, absent)
			case len(absent) == 0 && aerr != nil:
				w.fail("ack-error", "%s: AckResult for operations %v, which all have results, returned %v", when, present, aerr)
			}
			v.Class("results-acknowledged")
			if !w.probeState(when) {
				return v
			}
		}
		if len(v.Findings) > 0 {
			return v
		}
	}
	// final: answer whatever is still open in a plain way, then everything must be converged
	if !w.bad {
		if w.paramsPending {
			w.st.WaitSent(1)
			w.st.Respond(&spb.ModifyResponse{SessionParamsResult: &spb.SessionParametersResult{}})
			w.resps++
			w.paramsPending = false
		}
		if w.elecPending {
			w.st.WaitSent(max(2, w.elecNeed))
			w.st.Respond(&spb.ModifyResponse{ElectionId: &spb.Uint128{Low: 1}})
			w.resps++
			w.elecPending = false
		}
		for _, pid := range w.modelPending() {
			w.st.WaitSent(2 + reqOf[pid] + 1)
			stt := spb.AFTResult_RIB_PROGRAMMED
			if c.FIB {
				stt = spb.AFTResult_FIB_PROGRAMMED
			}
			w.st.Respond(&spb.ModifyResponse{Result: []*spb.AFTResult{{Id: pid, Status: stt}}})
			w.resps++
			w.seq[pid] = append(w.seq[pid], stt)
			w.done[pid] = true
		}
	}
	w.probe("final probe")
	if w.reorder {
		v.Class("reordered-across-ids")
	}
	if w.grouped {
		v.Class(">=2-results-per-response")
	}
	if w.splitAcks {
		v.Class("rib-and-fib-ack-in-different-responses")
	}
	if w.bad {
		v.Class("violating-server")
	}
	if c.FIB {
		v.Class("fib-ack-mode")
	}
	v.NonTrivial = w.reorder || w.grouped || (c.FIB && w.splitAcks)
	return v
}

func TestReplay(t *testing.T) {
	setup()
	for _, f := range ev.ReplayFiles() {
		var c Case
		if err := ev.LoadCase(f, &c); err != nil {
			t.Fatalf("%s: %v", f, err)
		}
		for i := 0; i < 5; i++ {
			v := runCase(c)
			if fresh := ev.C().Record(ev.JSON(c), v); len(fresh) > 0 {
				t.Errorf("%s: %v", f, fresh)
				break
			}
		}
	}
}

func drawCase(rt *rapid.T) Case {
	c := Case{FIB: rapid.Bool().Draw(rt, "fib")}
	nreq := rapid.IntRange(1, 6).Draw(rt, "nreq")
	keys := map[string][]string{gen.V4: {"1.0.0.0/8", "2.2.0.0/16"}, gen.V6: {"2001:db8::/32"}, gen.MPLS: {"100", "101"}, gen.NHG: {"1", "2"}, gen.NH: {"1", "2", "3"}}
	id := uint64(0)
	var ids []uint64
	for i := 0; i < nreq; i++ {
		n := rapid.IntRange(1, 6).Draw(rt, "nops")
		if rapid.IntRange(0, 9).Draw(rt, "big") == 0 {
			n = rapid.IntRange(7, 20).Draw(rt, "nops-big")
		}
		var r []OpSpec
		for j := 0; j < n; j++ {
			k := gen.Kinds[rapid.IntRange(0, 4).Draw(rt, "kind")]
			r = append(r, OpSpec{Kind: k, Key: keys[k][rapid.IntRange(0, len(keys[k])-1).Draw(rt, "key")], Act: []string{gen.ADD, gen.REPLACE, gen.DELETE}[rapid.IntRange(0, 2).Draw(rt, "act")]})
			id++
			ids = append(ids, id)
		}
		c.Reqs = append(c.Reqs, r)
	}
	// plan per id: the statuses the server will send, in order
	plan := map[uint64][]int32{}
	for _, x := range ids {
		switch k := rapid.IntRange(0, 10).Draw(rt, "verdict"); {
		case k == 10 && c.FIB:
			plan[x] = []int32{int32(spb.AFTResult_RIB_PROGRAMMED), int32(spb.AFTResult_FAILED)}
		case k == 0:
			plan[x] = []int32{int32(spb.AFTResult_FAILED)}
		case !c.FIB:
			plan[x] = []int32{int32(spb.AFTResult_RIB_PROGRAMMED)}
		case k < 6:
			plan[x] = []int32{int32(spb.AFTResult_RIB_PROGRAMMED), int32(spb.AFTResult_FIB_PROGRAMMED)}
		case k < 8:
			plan[x] = []int32{int32(spb.AFTResult_RIB_PROGRAMMED), int32(spb.AFTResult_FIB_FAILED)}
		case k == 8:
			plan[x] = []int32{int32(spb.AFTResult_FIB_PROGRAMMED)}
		default:
			plan[x] = []int32{int32(spb.AFTResult_RIB_PROGRAMMED)} // the FIB ack never comes before the final probe's clean-up
		}
	}
	// build the event list: requests are queued in order; a result may only be
	// emitted after its request was queued
	queued := 0
	firstID := map[int]uint64{}
	lastID := map[int]uint64{}
	x := uint64(0)
	for i, r := range c.Reqs {
		firstID[i] = x + 1
		x += uint64(len(r))
		lastID[i] = x
	}
	sentParams, sentElec := false, false
	var avail []Result // results that may be sent now (head of each id's plan)
	next := map[uint64]int{}
	refill := func(lo, hi uint64) {
		for y := lo; y <= hi; y++ {
			avail = append(avail, Result{ID: y, Status: plan[y][0]})
			next[y] = 1
		}
	}
	badAt := -1
	if rapid.IntRange(0, 5).Draw(rt, "violating?") == 0 {
		badAt = rapid.IntRange(1, 12).Draw(rt, "bad-at")
	}
	for step := 0; step < 60; step++ {
		if queued == nreq && len(avail) == 0 && sentParams && sentElec {
			break
		}
		if step == badAt {
			be := Event{K: []string{"bad-unknown-id", "bad-dup-terminal", "bad-multi-field"}[rapid.IntRange(0, 2).Draw(rt, "badkind")], Req: rapid.IntRange(0, 7).Draw(rt, "badvariant")}
			// the violating result may share its response with valid results of pending operations
			if nc := rapid.IntRange(0, 3).Draw(rt, "companions"); nc > 0 && len(avail) > 0 {
				perm := rapid.Permutation(avail).Draw(rt, "companion-pick")
				seen := map[uint64]bool{}
				for _, r := range perm {
					if len(be.Results) < nc && !seen[r.ID] {
						seen[r.ID] = true
						be.Results = append(be.Results, r)
					}
				}
				be.Pos = rapid.IntRange(0, len(be.Results)).Draw(rt, "bad-pos")
			}
			c.Events = append(c.Events, be)
			continue
		}
		switch k := rapid.IntRange(0, 9).Draw(rt, "event"); {
		case k < 3 && queued < nreq:
			qe := Event{K: "q", Req: queued}
			if sentElec && rapid.IntRange(0, 4).Draw(rt, "mixed?") == 0 {
				qe.Mixed = "e"
				sentElec = false
			}
			c.Events = append(c.Events, qe)
			refill(firstID[queued], lastID[queued])
			queued++
		case k == 3 && !sentParams:
			c.Events = append(c.Events, Event{K: "params-resp"})
			sentParams = true
		case k == 4 && !sentElec:
			c.Events = append(c.Events, Event{K: "elec-resp"})
			sentElec = true
		case k == 5 && rapid.IntRange(0, 2).Draw(rt, "ack?") == 0 && lastID[nreq-1] > 0:
			e := Event{K: "ack"}
			for j := rapid.IntRange(1, 3).Draw(rt, "nack"); j > 0; j-- {
				e.Results = append(e.Results, Result{ID: uint64(rapid.IntRange(1, int(lastID[nreq-1])).Draw(rt, "ackid"))})
			}
			c.Events = append(c.Events, e)
		case k == 5:
			c.Events = append(c.Events, Event{K: "probe"})
		case len(avail) > 0:
			n := rapid.IntRange(1, 4).Draw(rt, "nresults")
			e := Event{K: "resp"}
			for j := 0; j < n && len(avail) > 0; j++ {
				i := rapid.IntRange(0, len(avail)-1).Draw(rt, "which")
				r := avail[i]
				avail = append(avail[:i], avail[i+1:]...)
				e.Results = append(e.Results, r)
				if next[r.ID] < len(plan[r.ID]) {
					avail = append(avail, Result{ID: r.ID, Status: plan[r.ID][next[r.ID]]})
					next[r.ID]++
				}
			}
			c.Events = append(c.Events, e)
		}
	}
	return c
}

func TestCampaign(t *testing.T) {
	setup()
	col := ev.C()
	t.Run("random", func(t *testing.T) {
		rapid.Check(t, func(rt *rapid.T) {
			c := drawCase(rt)
			v := runCase(c)
			col.Check(rt, ev.JSON(c), v)
		})
	})
	t.Run("operation-id-handed-in-twice", func(t *testing.T) {
		rapid.Check(t, func(rt *rapid.T) {
			if rapid.IntRange(0, 3).Draw(rt, "run?") != 0 {
				return
			}
			c := drawDup(rt)
			v := runCase(c)
			col.Check(rt, ev.JSON(c), v)
		})
	})
	t.Run("second-session-after-reset", func(t *testing.T) {
		rapid.Check(t, func(rt *rapid.T) {
			if rapid.IntRange(0, 3).Draw(rt, "run?") != 0 {
				return
			}
			c := drawReSess(rt)
			v := runCase(c)
			col.Check(rt, ev.JSON(c), v)
		})
	})
	col.MinimizeAll(func(sig string, cs []byte) []byte {
		var c Case
		if err := json.Unmarshal(cs, &c); err != nil {
			return nil
		}
		if c.Dup != nil || c.ReSess != nil {
			return cs
		}
		try := func(cc Case) bool {
			for i := 0; i < 2; i++ {
				if runCase(cc).HasSig(sig) {
					return true
				}
			}
			return false
		}
		if !try(c) {
			return nil
		}
		for i := 0; i < len(c.Events); {
			cc := c
			cc.Events = append(append([]Event(nil), c.Events[:i]...), c.Events[i+1:]...)
			if try(cc) {
				c = cc
			} else {
				i++
			}
		}
		return ev.JSON(c)
	})
}
