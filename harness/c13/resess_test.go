package c13

import (
	"context"
	"fmt"
	"io"
	"time"

	"google.golang.org/grpc/codes"
	"google.golang.org/grpc/status"
	"pgregory.net/rapid"

	spb "github.com/openconfig/gribi/v1/proto/service"
	"github.com/openconfig/gribigo/client"

	"verifh/internal/cstub"
	"verifh/internal/ev"
	"verifh/internal/gen"
)

// ReSess: the accounting must also hold for a client that is used for a second session. The
// first session ends the way End says (the server ends the stream cleanly, or with an error)
// after First operations were answered; the application calls Reset, hands the client N
// further operations - before Connect (QFirst: they wait in the client) or after StartSending -
// and the second session's server answers all of them. Every operation handed in after Reset
// must be pending as soon as Q has returned, be sent on the new stream, get its result, and
// AwaitConverged must then return nil.
type ReSess struct {
	FIB    bool   `json:"fib"`
	End    string `json:"end"` // eof | unavailable | canceled
	First  int    `json:"first"`
	N      int    `json:"n"`
	QFirst bool   `json:"qfirst"`
}

func runReSess(c Case) *ev.Verdict {
	v := &ev.Verdict{}
	d := c.ReSess
	stub := &cstub.Stub{}
	opts := []client.Opt{client.ElectedPrimaryClient(&spb.Uint128{Low: 1}), client.PersistEntries()}
	if d.FIB {
		opts = append(opts, client.FIBACK())
	}
	cl, err := client.New(opts...)
	if err != nil {
		v.Fail("C13/new", "%v", err)
		return v
	}
	cl.UseStub(stub)
	ctx, cancel := context.WithCancel(context.Background())
	defer cancel()
	within := func(f func()) bool {
		done := make(chan struct{})
		go func() { defer close(done); f() }()
		select {
		case <-done:
			return true
		case <-time.After(cstub.Watchdog):
			return false
		}
	}
	defer func() {
		if !within(func() { cl.Close() }) && len(v.Findings) == 0 {
			v.Fail("C13/close-hangs", "Close did not return")
		}
	}()
	mk := func(id uint64) *spb.AFTOperation {
		return (&gen.Op{ID: id, NI: "DEFAULT", Kind: gen.NH, Act: gen.ADD, Key: fmt.Sprint(id%4 + 1), IP: "192.0.2.1", Elec: &gen.ID128{Lo: 1}}).Proto()
	}
	answer := func(st *cstub.Stream, id uint64) {
		rs := []*spb.AFTResult{{Id: id, Status: spb.AFTResult_RIB_PROGRAMMED}}
		if d.FIB {
			rs = append(rs, &spb.AFTResult{Id: id, Status: spb.AFTResult_FIB_PROGRAMMED})
		}
		st.Respond(&spb.ModifyResponse{Result: rs})
	}
	// first session
	if err := cl.Connect(ctx); err != nil {
		v.Fail("C13/connect", "%v", err)
		return v
	}
	cl.StartSending()
	st := stub.Stream(0)
	if !st.WaitSent(2) {
		v.Fail("C13/handshake", "the handshake did not reach the server")
		return v
	}
	st.Respond(&spb.ModifyResponse{SessionParamsResult: &spb.SessionParametersResult{}})
	st.Respond(&spb.ModifyResponse{ElectionId: &spb.Uint128{Low: 1}})
	for i := 1; i <= d.First; i++ {
		if !within(func() { cl.Q(&spb.ModifyRequest{Operation: []*spb.AFTOperation{mk(uint64(i))}}) }) {
			v.Fail("C13/q-blocks", "Q did not return (first session)")
			return v
		}
		if !st.WaitSent(2 + i) {
			v.Fail("C13/not-sent", "operation %d did not reach the server (first session)", i)
			return v
		}
		answer(st, uint64(i))
	}
	switch d.End {
	case "eof":
		st.Fail(io.EOF)
	case "unavailable":
		st.Fail(status.Error(codes.Unavailable, "transport is closing"))
	default:
		st.Fail(status.Error(codes.Canceled, "context canceled"))
	}
	select {
	case <-cl.Done():
	case <-time.After(cstub.Watchdog):
		v.Fail("C13/done-not-signalled", "the first session ended (%s) but Done was not signalled", d.End)
		return v
	}
	if !within(cl.Reset) {
		v.Fail("C13/reset-blocks", "Reset did not return")
		return v
	}
	// second session
	stub2 := &cstub.Stub{}
	if err := cl.ReplaceStub(stub2); err != nil {
		v.Fail("C13/replace-stub", "%v", err)
		return v
	}
	base := uint64(100)
	handIn := func() bool {
		for i := 1; i <= d.N; i++ {
			id := base + uint64(i)
			if !within(func() { cl.Q(&spb.ModifyRequest{Operation: []*spb.AFTOperation{mk(id)}}) }) {
				v.Fail("C13/q-blocks", "Q did not return (after Reset)")
				return false
			}
			// handed over: from now on pending or resulted
			pend, _ := cl.Pending()
			found := false
			for _, p := range pend {
				if po, ok := p.(*client.PendingOp); ok && po.Op.GetId() == id {
					found = true
				}
			}
			if !found {
				res, _ := cl.Results()
				stt, _ := cl.Status()
				v.Fail("C13/pending-set:op-lost-from-pending", "operation %d, handed to the client after the first session ended (%s) and Reset (before Connect: %v), is neither pending nor resulted: pending %d, results %d, send errors %v, receive errors %v", id, d.End, d.QFirst, len(pend), len(res), stt.SendErrs, stt.ReadErrs)
				return false
			}
		}
		return true
	}
	if d.QFirst && !handIn() {
		return v
	}
	if err := cl.Connect(ctx); err != nil {
		v.Fail("C13/reconnect", "%v", err)
		return v
	}
	cl.StartSending()
	st2 := stub2.Stream(0)
	if !d.QFirst && !handIn() {
		return v
	}
	if !st2.WaitSent(2 + d.N) {
		v.Fail("C13/not-sent", "second session: the server received %d of %d messages", len(st2.SentCopy()), 2+d.N)
		return v
	}
	st2.Respond(&spb.ModifyResponse{SessionParamsResult: &spb.SessionParametersResult{}})
	st2.Respond(&spb.ModifyResponse{ElectionId: &spb.Uint128{Low: 1}})
	for i := 1; i <= d.N; i++ {
		answer(st2, base+uint64(i))
	}
	actx, acancel := context.WithTimeout(context.Background(), cstub.Watchdog)
	aerr := cl.AwaitConverged(actx)
	acancel()
	if aerr != nil {
		v.Fail("C13/await-converged-error", "second session: every operation was answered but AwaitConverged returned %v", aerr)
		return v
	}
	res, _ := cl.Results()
	term := map[uint64]int{}
	for _, r := range res {
		if r != nil && r.OperationID != 0 && terminal(r.ProgrammingResult, d.FIB) {
			term[r.OperationID]++
		}
	}
	for i := 1; i <= d.N; i++ {
		if n := term[base+uint64(i)]; n != 1 {
			v.Fail("C13/result-sequence", "second session: operation %d has %d terminal results, want 1", base+uint64(i), n)
		}
	}
	v.Class("second-session:" + d.End)
	if d.QFirst {
		v.Class("queued-between-reset-and-connect")
	}
	v.NonTrivial = d.N >= 1
	return v
}

func drawReSess(rt *rapid.T) Case {
	return Case{ReSess: &ReSess{FIB: rapid.Bool().Draw(rt, "fib"), End: []string{"eof", "unavailable", "canceled"}[rapid.IntRange(0, 2).Draw(rt, "end")],
		First: rapid.IntRange(0, 3).Draw(rt, "first"), N: rapid.IntRange(1, 6).Draw(rt, "n"), QFirst: rapid.Bool().Draw(rt, "qfirst")}}
}
