package drive

// Real transport ("L3"): the same Session / Get / Flush API, but every RPC goes
// through a real grpc.Server over an in-memory bufconn listener: real codec
// (every message is marshalled and parsed), real HTTP/2 streams, real context
// cancellation, real connection teardown. The harness still knows exactly when
// a server-side handler started and returned: a stream interceptor records the
// goroutine id of each handler, keyed by a metadata tag the client attaches.

import (
	"context"
	"errors"
	"fmt"
	"io"
	"net"
	"runtime"
	"sync"
	"sync/atomic"
	"time"

	"google.golang.org/grpc"
	"google.golang.org/grpc/codes"
	"google.golang.org/grpc/credentials/insecure"
	"google.golang.org/grpc/metadata"
	"google.golang.org/grpc/status"
	"google.golang.org/grpc/test/bufconn"

	spb "github.com/openconfig/gribi/v1/proto/service"
)

const tagKey = "verif-tag"

// handlerRec is what the interceptor records about one server-side handler.
type handlerRec struct {
	gid     atomic.Int64
	started chan struct{}
	done    chan struct{}
	err     error // valid once done is closed
}

type netState struct {
	gs  *grpc.Server
	lis *bufconn.Listener

	mu    sync.Mutex
	seq   int
	recs  map[string]*handlerRec
	conns []*grpc.ClientConn
	ctl   *grpc.ClientConn // shared by Get and Flush calls
}

// control returns the connection Get and Flush calls share.
func (n *netState) control() *grpc.ClientConn {
	n.mu.Lock()
	c := n.ctl
	n.mu.Unlock()
	if c != nil {
		return c
	}
	c, err := n.dial()
	if err != nil {
		panic(err)
	}
	n.mu.Lock()
	if n.ctl == nil {
		n.ctl = c
	}
	c = n.ctl
	n.mu.Unlock()
	return c
}

// netSess is the client side of one Modify RPC over the real transport.
type netSess struct {
	conn   *grpc.ClientConn
	stream spb.GRIBI_ModifyClient
	rec    *handlerRec

	pumpDone chan struct{}
	gate     chan struct{} // closed = the client reads; replaced by an open channel while paused
	gateMu   sync.Mutex
	cliErr   error // what the client's Recv finally returned
	sendMu   sync.Mutex

	// SendAsync: requests are written by one goroutine in the order of the calls (a goroutine
	// per call would let two requests overtake each other on their way to the stream)
	asyncOnce sync.Once
	asyncQ    chan *spb.ModifyRequest
}

// UseNet makes Open/Get/Flush of this server go through real gRPC over bufconn.
// Call Shutdown at the end of the case.
func (s *Srv) UseNet() *Srv {
	if s.net != nil {
		return s
	}
	n := &netState{lis: bufconn.Listen(1 << 20), recs: map[string]*handlerRec{}}
	n.gs = grpc.NewServer(grpc.StreamInterceptor(func(srv any, ss grpc.ServerStream, info *grpc.StreamServerInfo, handler grpc.StreamHandler) error {
		var rec *handlerRec
		if md, ok := metadata.FromIncomingContext(ss.Context()); ok {
			if t := md.Get(tagKey); len(t) == 1 {
				n.mu.Lock()
				rec = n.recs[t[0]]
				n.mu.Unlock()
			}
		}
		if rec != nil {
			rec.gid.Store(CurGID())
			close(rec.started)
		}
		err := handler(srv, ss)
		if rec != nil {
			rec.err = err
			close(rec.done)
		}
		return err
	}))
	spb.RegisterGRIBIServer(n.gs, s.S)
	go n.gs.Serve(n.lis)
	s.net = n
	return s
}

// IsNet reports whether the server is driven over the real transport.
func (s *Srv) IsNet() bool { return s.net != nil }

// Shutdown stops the gRPC server and closes every client connection (no-op for
// in-process servers).
func (s *Srv) Shutdown() {
	n := s.net
	if n == nil {
		return
	}
	n.mu.Lock()
	conns := n.conns
	n.conns = nil
	n.mu.Unlock()
	for _, c := range conns {
		c.Close()
	}
	n.gs.Stop()
	n.lis.Close()
}

func (n *netState) dial() (*grpc.ClientConn, error) {
	c, err := grpc.NewClient("passthrough:///bufnet",
		grpc.WithContextDialer(func(ctx context.Context, _ string) (net.Conn, error) { return n.lis.DialContext(ctx) }),
		grpc.WithTransportCredentials(insecure.NewCredentials()))
	if err != nil {
		return nil, err
	}
	n.mu.Lock()
	n.conns = append(n.conns, c)
	n.mu.Unlock()
	return c, nil
}

func (n *netState) newRec() (string, *handlerRec) {
	n.mu.Lock()
	defer n.mu.Unlock()
	n.seq++
	tag := fmt.Sprintf("h%d", n.seq)
	rec := &handlerRec{started: make(chan struct{}), done: make(chan struct{})}
	n.recs[tag] = rec
	return tag, rec
}

// openNet starts a Modify RPC over the real transport (own connection, so that
// closing it is a transport failure of this session only).
func (s *Srv) openNet() *Session {
	n := s.net
	before := map[string]bool{}
	for _, id := range s.S.VerifSessionIDs() {
		before[id] = true
	}
	ctx, cancel := context.WithCancel(context.Background())
	x := &Session{srv: s, in: make(chan recvItem), ctx: ctx, cancel: cancel, blockedCh: make(chan struct{})}
	x.cond = sync.NewCond(&x.mu)
	s.mu.Lock()
	x.Idx = len(s.sessions)
	s.sessions = append(s.sessions, x)
	s.mu.Unlock()

	conn, err := n.dial()
	if err != nil {
		panic(err)
	}
	tag, rec := n.newRec()
	stream, err := spb.NewGRIBIClient(conn).Modify(metadata.AppendToOutgoingContext(ctx, tagKey, tag))
	if err != nil {
		panic(fmt.Sprintf("cannot open a Modify stream over bufconn: %v", err))
	}
	ns := &netSess{conn: conn, stream: stream, rec: rec, pumpDone: make(chan struct{}), gate: make(chan struct{})}
	close(ns.gate)
	x.n = ns
	// the client's reader
	go func() {
		defer close(ns.pumpDone)
		for {
			ns.gateMu.Lock()
			g := ns.gate
			ns.gateMu.Unlock()
			select {
			case <-g:
			case <-ctx.Done():
			}
			r, err := stream.Recv()
			if err != nil {
				if !errors.Is(err, io.EOF) {
					ns.cliErr = err
				}
				return
			}
			x.mu.Lock()
			x.out = append(x.out, r)
			x.cond.Broadcast()
			x.mu.Unlock()
		}
	}()
	// "ended" = the server-side handler returned and the client has read all it will ever get
	go func() {
		<-rec.done
		<-ns.pumpDone
		x.mu.Lock()
		x.ended = true
		x.err = rec.err
		x.cond.Broadcast()
		x.mu.Unlock()
	}()
	t := time.NewTimer(Watchdog)
	defer t.Stop()
	select {
	case <-rec.started:
	case <-t.C:
		return x
	}
	x.handlerGID.Store(rec.gid.Load())
	deadline := time.Now().Add(Watchdog)
	for time.Now().Before(deadline) {
		for _, id := range s.S.VerifSessionIDs() {
			if !before[id] {
				x.CID = id
				return x
			}
		}
		select {
		case <-rec.done:
			return x
		default:
		}
		runtime.Gosched()
	}
	return x
}

// netDeliver sends one request from the client side. ok=false: the stream is
// finished (the RPC ended) and the message was not sent.
func (x *Session) netDeliver(it recvItem) (bool, *Hang) {
	ns := x.n
	errc := make(chan error, 1)
	go func() {
		ns.sendMu.Lock()
		defer ns.sendMu.Unlock()
		switch {
		case it.msg != nil:
			errc <- ns.stream.Send(it.msg)
		case errors.Is(it.err, io.EOF):
			errc <- ns.stream.CloseSend()
		default:
			// transport failure: the connection of this session goes away (a client that
			// had stopped reading sees the failure too)
			err := ns.conn.Close()
			x.ResumeReads()
			errc <- err
		}
	}()
	t := time.NewTimer(Watchdog)
	defer t.Stop()
	ext := 0
	for {
		select {
		case err := <-errc:
			return err == nil, nil
		case <-t.C:
			if h := x.hangOrBusy("client Send over the real transport", &ext); h != nil {
				return false, h
			}
			t.Reset(Watchdog)
		}
	}
}

// PauseReads makes the client stop reading responses (they pile up in the
// transport); ResumeReads undoes it. Real-transport sessions only.
func (x *Session) PauseReads() {
	if x.n == nil {
		return
	}
	x.n.gateMu.Lock()
	x.n.gate = make(chan struct{})
	x.n.gateMu.Unlock()
}

// ResumeReads lets a paused client read again.
func (x *Session) ResumeReads() {
	if x.n == nil {
		return
	}
	x.n.gateMu.Lock()
	select {
	case <-x.n.gate:
	default:
		close(x.n.gate)
	}
	x.n.gateMu.Unlock()
}

// IsNet reports whether the session runs over the real transport.
func (x *Session) IsNet() bool { return x.n != nil }

// ClientErr is the error the client's Recv ended with (real transport; nil for io.EOF).
func (x *Session) ClientErr() error {
	if x.n == nil {
		return nil
	}
	select {
	case <-x.n.pumpDone:
		return x.n.cliErr
	default:
		return nil
	}
}

// getNet runs a Get over the real transport. abandonAt > 0: the client cancels
// when it has read abandonAt-1 responses. The returned error is the status the
// server-side handler returned.
func (s *Srv) getNet(req *spb.GetRequest, abandonAt int) (resps []*spb.GetResponse, err error, hang *Hang) {
	n := s.net
	conn := n.control()
	tag, rec := n.newRec()
	ctx, cancel := context.WithCancel(metadata.AppendToOutgoingContext(context.Background(), tagKey, tag))
	defer cancel()
	var cliErr error
	var started bool
	hang = Watch("Get over the real transport", func() {
		stream, e := spb.NewGRIBIClient(conn).Get(ctx, req)
		if e != nil {
			cliErr = e
			return
		}
		for {
			if abandonAt > 0 && len(resps) >= abandonAt-1 {
				cancel()
				break
			}
			r, e := stream.Recv()
			if e != nil {
				if !errors.Is(e, io.EOF) {
					cliErr = e
				}
				break
			}
			resps = append(resps, r)
		}
		// the handler may never have started (cancelled before the headers were served)
		select {
		case <-rec.started:
			started = true
			<-rec.done
		case <-time.After(200 * time.Millisecond):
			select {
			case <-rec.started:
				started = true
				<-rec.done
			default:
			}
		}
	})
	if hang != nil {
		gs := Parse(hang.Dump)
		hang.Blocked = BlockedInGribigo(gs, rec.gid.Load())
		return resps, nil, hang
	}
	if started {
		err = rec.err
		if err == nil && cliErr != nil && abandonAt == 0 {
			err = cliErr
		}
		// wait until the handler's goroutines are gone or parked
		if h := quiesceGID(rec.gid.Load(), "quiesce after Get"); h != nil {
			return resps, err, h
		}
		return resps, err, nil
	}
	if abandonAt > 0 {
		return resps, status.Error(codes.Canceled, "cancelled before the handler started"), nil
	}
	return resps, cliErr, nil
}

func (s *Srv) flushNet(req *spb.FlushRequest) (resp *spb.FlushResponse, err error, hang *Hang) {
	conn := s.net.control()
	hang = Watch("Flush over the real transport", func() {
		resp, err = spb.NewGRIBIClient(conn).Flush(context.Background(), req)
	})
	return
}

// quiesceGID waits until every goroutine created (transitively) by gid has
// exited or is parked in a channel send, and gid itself is gone.
func quiesceGID(gid int64, what string) *Hang {
	deadline := time.Now().Add(Watchdog)
	for {
		gs := Parse(Dump())
		busy := false
		for _, g := range Descendants(gs, gid) {
			if g.ID == gid {
				busy = true
				continue
			}
			if g.State != "chan send" {
				busy = true
			}
		}
		if !busy {
			return nil
		}
		if time.Now().After(deadline) {
			d := Dump()
			return &Hang{What: what, Blocked: BlockedInGribigo(Parse(d), gid), Dump: d}
		}
		runtime.Gosched()
		time.Sleep(50 * time.Microsecond)
	}
}

// SendAsync sends a request from the client side without waiting for the send to
// complete: under HTTP/2 flow control (the server has stopped reading because it cannot
// write) a send legitimately blocks until the stream is torn down.
func (x *Session) SendAsync(req *spb.ModifyRequest) {
	ns := x.n
	ns.asyncOnce.Do(func() {
		ns.asyncQ = make(chan *spb.ModifyRequest, 4096)
		go func() {
			for {
				select {
				case r := <-ns.asyncQ:
					ns.sendMu.Lock()
					ns.stream.Send(r)
					ns.sendMu.Unlock()
				case <-ns.stream.Context().Done():
					return
				}
			}
		}()
	})
	select {
	case ns.asyncQ <- req:
	default:
		// queue full (the stream is blocked): the request is dropped, as a request that was
		// never written; callers only rely on the order of what is written
	}
}

// ServerWriteBlocked reports whether a goroutine of this session's handler is parked in
// gRPC's flow-control wait for write quota (the client is not reading).
func (x *Session) ServerWriteBlocked() bool {
	gid := x.handlerGID.Load()
	for _, g := range Descendants(Parse(Dump()), gid) {
		if g.State == "select" && g.Has("transport.(*writeQuota).get") {
			return true
		}
	}
	return false
}
