// Package model holds the reference models the oracles compare gribigo with.
//
// rib.go: the gRIBI RIB relation model (tables, held operations, reference
// closure, deletion protection). It is a *relation*: for one operation it
// defines the set of acceptable outcomes and then adopts the implementation's
// choice, because the implementation legitimately has freedom (map order).
package model

import (
	"fmt"
	"sort"
	"strconv"

	"google.golang.org/protobuf/proto"
	"google.golang.org/protobuf/reflect/protoreflect"

	aftpb "github.com/openconfig/gribi/v1/proto/gribi_aft"
	spb "github.com/openconfig/gribi/v1/proto/service"

	"verifh/internal/ev"
	"verifh/internal/gen"
)

// Held is an operation waiting for its references.
type Held struct {
	NI string
	Op *spb.AFTOperation
}

// RIB is the model state.
type RIB struct {
	Default string
	NIs     map[string]bool
	Ent     map[gen.EntryKey]proto.Message
	Held    map[uint64]*Held
	// FwdRefs: unresolved operations are held (true) or failed at once (false).
	FwdRefs bool
	// RefCheck: reference checking enabled (false = rib.DisableRIBCheckFn).
	RefCheck bool
}

// New returns an empty model RIB.
func New(def string, vrfs []string, fwdRefs bool) *RIB {
	m := &RIB{Default: def, NIs: map[string]bool{def: true}, Ent: map[gen.EntryKey]proto.Message{}, Held: map[uint64]*Held{}, FwdRefs: fwdRefs, RefCheck: true}
	for _, v := range vrfs {
		m.NIs[v] = true
	}
	return m
}

// Clone returns a deep-enough copy (payload messages are immutable by convention).
func (m *RIB) Clone() *RIB {
	c := &RIB{Default: m.Default, NIs: map[string]bool{}, Ent: map[gen.EntryKey]proto.Message{}, Held: map[uint64]*Held{}, FwdRefs: m.FwdRefs, RefCheck: m.RefCheck}
	for k, v := range m.NIs {
		c.NIs[k] = v
	}
	for k, v := range m.Ent {
		c.Ent[k] = v
	}
	for k, v := range m.Held {
		c.Held[k] = v
	}
	return c
}

// KindOf returns the kind of the entry an operation carries ("" if none).
func KindOf(op *spb.AFTOperation) string {
	switch op.GetEntry().(type) {
	case *spb.AFTOperation_Ipv4:
		return gen.V4
	case *spb.AFTOperation_Ipv6:
		return gen.V6
	case *spb.AFTOperation_Mpls:
		return gen.MPLS
	case *spb.AFTOperation_NextHopGroup:
		return gen.NHG
	case *spb.AFTOperation_NextHop:
		return gen.NH
	}
	return ""
}

// Payload returns the keyed payload message of the operation (nil if the
// oneof arm holds a nil message).
func Payload(op *spb.AFTOperation) proto.Message {
	switch t := op.GetEntry().(type) {
	case *spb.AFTOperation_Ipv4:
		if t.Ipv4 == nil {
			return nil
		}
		return t.Ipv4
	case *spb.AFTOperation_Ipv6:
		if t.Ipv6 == nil {
			return nil
		}
		return t.Ipv6
	case *spb.AFTOperation_Mpls:
		if t.Mpls == nil {
			return nil
		}
		return t.Mpls
	case *spb.AFTOperation_NextHopGroup:
		if t.NextHopGroup == nil {
			return nil
		}
		return t.NextHopGroup
	case *spb.AFTOperation_NextHop:
		if t.NextHop == nil {
			return nil
		}
		return t.NextHop
	}
	return nil
}

// KeyOfPayload extracts the key string of a keyed payload message.
func KeyOfPayload(p proto.Message) (kind, key string) {
	switch t := p.(type) {
	case *aftpb.Afts_Ipv4EntryKey:
		return gen.V4, t.GetPrefix()
	case *aftpb.Afts_Ipv6EntryKey:
		return gen.V6, t.GetPrefix()
	case *aftpb.Afts_LabelEntryKey:
		return gen.MPLS, strconv.FormatUint(t.GetLabelUint64(), 10)
	case *aftpb.Afts_NextHopGroupKey:
		return gen.NHG, strconv.FormatUint(t.GetId(), 10)
	case *aftpb.Afts_NextHopKey:
		return gen.NH, strconv.FormatUint(t.GetIndex(), 10)
	}
	return "", ""
}

// KeyOf returns the entry key an operation addresses in network instance ni.
func KeyOf(ni string, op *spb.AFTOperation) (gen.EntryKey, bool) {
	p := Payload(op)
	if p == nil {
		return gen.EntryKey{}, false
	}
	k, key := KeyOfPayload(p)
	return gen.EntryKey{NI: ni, Kind: k, Key: key}, true
}

// Canon returns a canonical clone of a keyed payload message: keyed lists
// sorted by key and de-duplicated, empty non-wrapper sub-messages pruned.
func Canon(p proto.Message) proto.Message {
	if p == nil {
		return nil
	}
	c := proto.Clone(p)
	switch t := c.(type) {
	case *aftpb.Afts_NextHopGroupKey:
		if g := t.GetNextHopGroup(); g != nil {
			seen := map[uint64]bool{}
			out := g.NextHop[:0]
			for _, h := range g.NextHop {
				if seen[h.GetIndex()] {
					continue
				}
				seen[h.GetIndex()] = true
				out = append(out, h)
			}
			sort.SliceStable(out, func(i, j int) bool { return out[i].GetIndex() < out[j].GetIndex() })
			g.NextHop = out
		}
	case *aftpb.Afts_NextHopKey:
		if n := t.GetNextHop(); n != nil {
			sort.SliceStable(n.EncapHeader, func(i, j int) bool { return n.EncapHeader[i].GetIndex() < n.EncapHeader[j].GetIndex() })
		}
	}
	prune(c.ProtoReflect())
	return c
}

// prune clears message-typed fields whose message has no populated field.
// ywrapper messages are leaves: UintValue{0} is "present with value 0".
func prune(m protoreflect.Message) bool {
	if m.Descriptor().ParentFile().Package() == "ywrapper" {
		return true
	}
	populated := false
	var clear []protoreflect.FieldDescriptor
	m.Range(func(fd protoreflect.FieldDescriptor, v protoreflect.Value) bool {
		switch {
		case fd.IsList() && fd.Message() != nil:
			l := v.List()
			for i := 0; i < l.Len(); i++ {
				prune(l.Get(i).Message())
			}
			if l.Len() > 0 {
				populated = true
			}
		case fd.IsMap():
			populated = true
		case fd.Message() != nil:
			if prune(v.Message()) {
				populated = true
			} else {
				clear = append(clear, fd)
			}
		default:
			populated = true
		}
		return true
	})
	for _, fd := range clear {
		m.Clear(fd)
	}
	return populated
}

// PayloadEqual compares two keyed payload messages canonically.
func PayloadEqual(a, b proto.Message) bool {
	return proto.Equal(Canon(a), Canon(b))
}

// groupRef returns the (NI, id) of the group a top-level payload points at.
func groupRef(ownNI string, p proto.Message) (string, uint64, bool) {
	var ni string
	var id uint64
	switch t := p.(type) {
	case *aftpb.Afts_Ipv4EntryKey:
		ni, id = t.GetIpv4Entry().GetNextHopGroupNetworkInstance().GetValue(), t.GetIpv4Entry().GetNextHopGroup().GetValue()
	case *aftpb.Afts_Ipv6EntryKey:
		ni, id = t.GetIpv6Entry().GetNextHopGroupNetworkInstance().GetValue(), t.GetIpv6Entry().GetNextHopGroup().GetValue()
	case *aftpb.Afts_LabelEntryKey:
		ni, id = t.GetLabelEntry().GetNextHopGroupNetworkInstance().GetValue(), t.GetLabelEntry().GetNextHopGroup().GetValue()
	default:
		return "", 0, false
	}
	if ni == "" {
		ni = ownNI
	}
	return ni, id, true
}

// hopSet returns the distinct next-hop indices of a group payload.
func hopSet(p proto.Message) []uint64 {
	g, ok := p.(*aftpb.Afts_NextHopGroupKey)
	if !ok {
		return nil
	}
	seen := map[uint64]bool{}
	var out []uint64
	for _, h := range g.GetNextHopGroup().GetNextHop() {
		if !seen[h.GetIndex()] {
			seen[h.GetIndex()] = true
			out = append(out, h.GetIndex())
		}
	}
	sort.Slice(out, func(i, j int) bool { return out[i] < out[j] })
	return out
}

// RefString renders the references of a payload canonically (for detecting
// replaces that move a reference).
func RefString(ownNI string, p proto.Message) string {
	if p == nil {
		return ""
	}
	if gni, gid, ok := groupRef(ownNI, p); ok {
		return fmt.Sprintf("g:%s/%d", gni, gid)
	}
	if _, ok := p.(*aftpb.Afts_NextHopGroupKey); ok {
		return fmt.Sprintf("h:%v", hopSet(p))
	}
	return ""
}

// HasDuplicateHop reports whether a group payload lists an index twice.
func HasDuplicateHop(p proto.Message) bool {
	g, ok := p.(*aftpb.Afts_NextHopGroupKey)
	if !ok {
		return false
	}
	return len(hopSet(p)) != len(g.GetNextHopGroup().GetNextHop())
}

func nkey(ni, kind string, id uint64) gen.EntryKey {
	return gen.EntryKey{NI: ni, Kind: kind, Key: strconv.FormatUint(id, 10)}
}

// Validity of an ADD/REPLACE payload, judged statically.
type Validity int

const (
	Valid Validity = iota
	MustFail
	Unsure
)

// StaticAdd judges an ADD/REPLACE statically. reason explains MustFail.
// Only clear-cut classes are MustFail; schema-level doubts are Unsure unless
// the caller vouches for the payload (trusted=true: drawn by a valid generator).
func (m *RIB) StaticAdd(ni string, op *spb.AFTOperation, trusted bool) (Validity, string) {
	if !m.NIs[ni] || ni == "" {
		return MustFail, "unknown or empty network instance"
	}
	p := Payload(op)
	if p == nil {
		return MustFail, "nil entry"
	}
	switch t := p.(type) {
	case *aftpb.Afts_Ipv4EntryKey, *aftpb.Afts_Ipv6EntryKey, *aftpb.Afts_LabelEntryKey:
		gni, gid, _ := groupRef(ni, p)
		if md := entryMetadata(p); len(md) > 8 {
			// the schema (gribi-aft.yang: entry-metadata, binary, length 0..8) bounds it
			return MustFail, "entry metadata longer than 8 bytes"
		}
		if m.RefCheck {
			if gid == 0 {
				return MustFail, "zero or missing next-hop-group"
			}
			if !m.NIs[gni] {
				return MustFail, "unknown next-hop-group network instance"
			}
		}
		if l, ok := t.(*aftpb.Afts_LabelEntryKey); ok {
			if _, isnum := l.GetLabel().(*aftpb.Afts_LabelEntryKey_LabelUint64); !isnum {
				return Unsure, ""
			}
			if v := l.GetLabelUint64(); v < 16 || v > 1048575 {
				return MustFail, "label out of range"
			}
		}
	case *aftpb.Afts_NextHopGroupKey:
		if m.RefCheck {
			if t.GetId() == 0 {
				return MustFail, "zero group id"
			}
			if len(t.GetNextHopGroup().GetNextHop()) == 0 {
				return MustFail, "empty group"
			}
			for _, h := range t.GetNextHopGroup().GetNextHop() {
				if h.GetIndex() == 0 {
					return MustFail, "zero next-hop index in group"
				}
			}
		}
	case *aftpb.Afts_NextHopKey:
		if m.RefCheck && t.GetIndex() == 0 {
			return MustFail, "zero next-hop index"
		}
	}
	if trusted {
		return Valid, ""
	}
	return Unsure, ""
}

// Resolvable reports whether every reference of the payload is installed now.
func (m *RIB) Resolvable(ni string, p proto.Message) bool {
	if !m.RefCheck {
		return true
	}
	switch p.(type) {
	case *aftpb.Afts_NextHopKey:
		return true
	case *aftpb.Afts_NextHopGroupKey:
		for _, idx := range hopSet(p) {
			if _, ok := m.Ent[nkey(ni, gen.NH, idx)]; !ok {
				return false
			}
		}
		return true
	}
	gni, gid, ok := groupRef(ni, p)
	if !ok {
		return false
	}
	_, inst := m.Ent[nkey(gni, gen.NHG, gid)]
	return inst
}

// MissingRefs lists the keys whose absence makes payload p unresolvable.
func (m *RIB) MissingRefs(ni string, p proto.Message) []gen.EntryKey {
	var out []gen.EntryKey
	switch p.(type) {
	case *aftpb.Afts_NextHopKey:
		return nil
	case *aftpb.Afts_NextHopGroupKey:
		for _, idx := range hopSet(p) {
			if _, ok := m.Ent[nkey(ni, gen.NH, idx)]; !ok {
				out = append(out, nkey(ni, gen.NH, idx))
			}
		}
		return out
	}
	if gni, gid, ok := groupRef(ni, p); ok {
		if _, inst := m.Ent[nkey(gni, gen.NHG, gid)]; !inst && m.NIs[gni] && gid != 0 {
			out = append(out, nkey(gni, gen.NHG, gid))
		}
	}
	return out
}

// NHGRefs counts installed top-level entries (any NI) pointing at group id of ni.
func (m *RIB) NHGRefs(ni string, id uint64) int {
	n := 0
	for k, p := range m.Ent {
		if k.Kind != gen.V4 && k.Kind != gen.V6 && k.Kind != gen.MPLS {
			continue
		}
		gni, gid, _ := groupRef(k.NI, p)
		if gni == ni && gid == id {
			n++
		}
	}
	return n
}

// NHRefs counts installed groups of ni that contain next-hop idx.
func (m *RIB) NHRefs(ni string, idx uint64) int {
	n := 0
	for k, p := range m.Ent {
		if k.Kind != gen.NHG || k.NI != ni {
			continue
		}
		for _, h := range hopSet(p) {
			if h == idx {
				n++
			}
		}
	}
	return n
}

// Installable: a held (or new) ADD/REPLACE could be installed right now.
func (m *RIB) Installable(ni string, op *spb.AFTOperation) bool {
	p := Payload(op)
	if p == nil {
		return false
	}
	k, _ := KeyOf(ni, op)
	if op.GetOp() == spb.AFTOperation_REPLACE {
		if _, ok := m.Ent[k]; !ok {
			return false
		}
	}
	return m.Resolvable(ni, p)
}

func (m *RIB) install(ni string, op *spb.AFTOperation) {
	k, _ := KeyOf(ni, op)
	m.Ent[k] = Canon(Payload(op))
}

// Outcome is what the implementation reported for one call.
type Outcome struct {
	OKs   []uint64
	Fails []uint64
	Err   error
	// Unordered: the acknowledgements come from one ModifyResponse, which the
	// client receives as a whole: the order of its results is not an observable
	// moment, so any order in which every acknowledged operation is resolvable at
	// its turn is accepted (the rib API's oks slice, by contrast, is ordered).
	Unordered bool
}

// orderOKs returns the acknowledged ids of an unordered outcome in an order
// that satisfies the relation if one exists (the operation itself first, then
// held operations as they become installable); ids that fit nowhere keep their
// relative order at the end, where the ordered rules report them.
func (m *RIB) orderOKs(ni string, op *spb.AFTOperation, oks []uint64) []uint64 {
	c := m.Clone()
	id := op.GetId()
	var out, rest []uint64
	used := false
	for _, x := range oks {
		if x == id && !used {
			used = true
			continue
		}
		rest = append(rest, x)
	}
	if used {
		out = append(out, id)
		delete(c.Held, id)
		c.install(ni, op)
	}
	for len(rest) > 0 {
		picked := -1
		for i, x := range rest {
			if h, ok := c.Held[x]; ok && c.Installable(h.NI, h.Op) {
				picked = i
				break
			}
		}
		if picked < 0 {
			break
		}
		x := rest[picked]
		h := c.Held[x]
		c.install(h.NI, h.Op)
		delete(c.Held, x)
		out = append(out, x)
		rest = append(rest[:picked], rest[picked+1:]...)
	}
	return append(out, rest...)
}

func (o Outcome) String() string {
	return fmt.Sprintf("oks=%v fails=%v err=%v", o.OKs, o.Fails, o.Err)
}

// StepAdd checks the implementation's outcome for an ADD/REPLACE against the
// relation and advances the model by adopting the implementation's choices.
// sigp is the signature prefix ("C01", ...). trusted: payload drawn by a
// generator of schema-valid payloads.
func (m *RIB) StepAdd(ni string, op *spb.AFTOperation, out Outcome, trusted bool, v *ev.Verdict, sigp string) {
	id := op.GetId()
	val, why := m.StaticAdd(ni, op, trusted)
	k, _ := KeyOf(ni, op)
	desc := fmt.Sprintf("op %d %s %s", id, op.GetOp(), k)

	rejected := out.Err != nil || (len(out.OKs) == 0 && contains(out.Fails, id))
	switch {
	case val == MustFail:
		if !rejected || len(out.OKs) != 0 {
			v.Fail(sigp+"/invalid-accepted", "%s must be rejected (%s) but got %s", desc, why, out)
		}
		m.checkSpuriousFails(out, id, v, sigp, desc)
		return
	case out.Err != nil:
		if val == Valid {
			v.Fail(sigp+"/valid-op-fatal-error", "%s is valid but the call returned error %v", desc, out.Err)
		}
		return
	}

	replaceMissing := false
	if op.GetOp() == spb.AFTOperation_REPLACE {
		if _, ok := m.Ent[k]; !ok {
			replaceMissing = true
		}
	}
	resolvable := m.Resolvable(ni, Payload(op))
	if out.Unordered && resolvable && !replaceMissing && len(out.OKs) > 1 {
		out.OKs = m.orderOKs(ni, op, out.OKs)
	}

	switch {
	case replaceMissing:
		if !rejected {
			v.Fail(sigp+"/replace-missing-accepted", "%s: REPLACE of an absent key must fail, got %s", desc, out)
		}
		m.checkSpuriousFails(out, id, v, sigp, desc)
		return
	case rejected && val == Unsure:
		m.checkSpuriousFails(out, id, v, sigp, desc)
		return
	case rejected && resolvable:
		v.Fail(sigp+"/valid-op-failed", "%s is valid and resolvable but was FAILED: %s", desc, out)
		return
	case !resolvable:
		if !m.FwdRefs {
			if !rejected {
				v.Fail(sigp+"/unresolved-not-failed", "%s is unresolved and forward references are disallowed; want FAILED, got %s", desc, out)
			}
			return
		}
		if rejected {
			v.Fail(sigp+"/unresolved-failed", "%s is unresolved with forward references allowed; want held, got %s", desc, out)
			return
		}
		if len(out.OKs) != 0 || len(out.Fails) != 0 {
			v.Fail(sigp+"/unresolved-acked", "%s is unresolved (must be held, no result now) but got %s", desc, out)
			// adopt: if implementation claims installed, follow it so later steps compare meaningfully
			if contains(out.OKs, id) {
				m.install(ni, op)
			}
			return
		}
		m.Held[id] = &Held{NI: ni, Op: op}
		return
	}

	// resolvable now: first ok must be this op
	if len(out.OKs) == 0 || out.OKs[0] != id {
		v.Fail(sigp+"/resolvable-not-acked", "%s is resolvable now; want it acknowledged first, got %s", desc, out)
		if len(out.OKs) == 0 {
			return
		}
	}
	delete(m.Held, id)
	m.install(ni, op)
	start := 0
	if len(out.OKs) > 0 && out.OKs[0] == id {
		start = 1
	}
	// fails of a cascade: each must be a held REPLACE whose key is absent at
	// the start of the cascade (keys only appear during a cascade).
	absentAtStart := map[uint64]bool{}
	for hid, h := range m.Held {
		if h.Op.GetOp() == spb.AFTOperation_REPLACE {
			hk, _ := KeyOf(h.NI, h.Op)
			if _, ok := m.Ent[hk]; !ok {
				absentAtStart[hid] = true
			}
		}
	}
	seenOK := map[uint64]bool{id: true}
	for _, oid := range out.OKs[start:] {
		if seenOK[oid] {
			v.Fail(sigp+"/ack-twice", "%s: operation %d acknowledged twice in one call: %s", desc, oid, out)
			continue
		}
		seenOK[oid] = true
		h, ok := m.Held[oid]
		if !ok {
			v.Fail(sigp+"/ack-not-held", "%s: acknowledged operation %d which is not held: %s", desc, oid, out)
			continue
		}
		if !m.Installable(h.NI, h.Op) {
			hk, _ := KeyOf(h.NI, h.Op)
			v.Fail(sigp+"/ack-unresolved", "%s: held operation %d (%s) acknowledged at a moment its references are not installed: %s", desc, oid, hk, out)
		}
		m.install(h.NI, h.Op)
		delete(m.Held, oid)
	}
	seenFail := map[uint64]bool{}
	for _, fid := range out.Fails {
		if seenFail[fid] {
			v.Fail(sigp+"/fail-twice", "%s: operation %d failed twice in one call: %s", desc, fid, out)
			continue
		}
		seenFail[fid] = true
		if seenOK[fid] {
			v.Fail(sigp+"/fail-and-ok", "%s: operation %d both acknowledged and failed: %s", desc, fid, out)
			continue
		}
		if _, ok := m.Held[fid]; !ok {
			v.Fail(sigp+"/fail-not-held", "%s: failed operation %d which is not held: %s", desc, fid, out)
			continue
		}
		if !absentAtStart[fid] {
			v.Fail(sigp+"/held-failed-wrongly", "%s: held operation %d failed although it is not a REPLACE of an absent key: %s", desc, fid, out)
		}
		delete(m.Held, fid)
	}
	// completeness: no held op may be installable now
	for _, hid := range m.heldIDs() {
		h := m.Held[hid]
		if m.Installable(h.NI, h.Op) {
			hk, _ := KeyOf(h.NI, h.Op)
			v.Fail(sigp+"/held-but-resolvable", "after %s: held operation %d (%s) is resolvable but was not acknowledged: %s", desc, hid, hk, out)
		}
	}
}

func (m *RIB) checkSpuriousFails(out Outcome, id uint64, v *ev.Verdict, sigp, desc string) {
	for _, o := range out.OKs {
		v.Fail(sigp+"/reject-with-acks", "%s rejected but the call acknowledged %d", desc, o)
	}
	for _, f := range out.Fails {
		if f != id {
			v.Fail(sigp+"/reject-with-foreign-fail", "%s rejected but the call also failed %d", desc, f)
		}
	}
}

func (m *RIB) heldIDs() []uint64 {
	ids := make([]uint64, 0, len(m.Held))
	for id := range m.Held {
		ids = append(ids, id)
	}
	sort.Slice(ids, func(i, j int) bool { return ids[i] < ids[j] })
	return ids
}

// HeldIDs returns the sorted ids of held operations.
func (m *RIB) HeldIDs() []uint64 { return m.heldIDs() }

// ExpectDelete returns whether a DELETE must fail under the model, and a
// static rejection reason if the operation is malformed.
func (m *RIB) ExpectDelete(ni string, op *spb.AFTOperation) (mustFail bool, static string, unsure bool) {
	if !m.NIs[ni] || ni == "" {
		return true, "unknown or empty network instance", false
	}
	p := Payload(op)
	if p == nil {
		return true, "nil entry", false
	}
	switch t := p.(type) {
	case *aftpb.Afts_NextHopGroupKey:
		if t.GetId() == 0 {
			return true, "zero group id", false
		}
		if !m.RefCheck {
			return false, "", false
		}
		if _, ok := m.Ent[nkey(ni, gen.NHG, t.GetId())]; ok && m.NHGRefs(ni, t.GetId()) > 0 {
			return true, "", false
		}
	case *aftpb.Afts_NextHopKey:
		if t.GetIndex() == 0 {
			return true, "zero next-hop index", false
		}
		if !m.RefCheck {
			return false, "", false
		}
		if _, ok := m.Ent[nkey(ni, gen.NH, t.GetIndex())]; ok && m.NHRefs(ni, t.GetIndex()) > 0 {
			return true, "", false
		}
	case *aftpb.Afts_LabelEntryKey:
		if _, isnum := t.GetLabel().(*aftpb.Afts_LabelEntryKey_LabelUint64); !isnum {
			return false, "", true
		}
		if v := t.GetLabelUint64(); v < 16 || v > 1048575 {
			return false, "", true
		}
	}
	return false, "", false
}

// StepDelete checks and applies a DELETE.
func (m *RIB) StepDelete(ni string, op *spb.AFTOperation, out Outcome, v *ev.Verdict, sigp string) {
	id := op.GetId()
	k, _ := KeyOf(ni, op)
	desc := fmt.Sprintf("op %d DELETE %s", id, k)
	mustFail, static, unsure := m.ExpectDelete(ni, op)
	rejected := out.Err != nil || contains(out.Fails, id)
	okd := contains(out.OKs, id)
	for _, o := range out.OKs {
		if o != id {
			v.Fail(sigp+"/delete-foreign-ack", "%s acknowledged foreign operation %d", desc, o)
		}
	}
	for _, f := range out.Fails {
		if f != id {
			v.Fail(sigp+"/delete-foreign-fail", "%s failed foreign operation %d", desc, f)
		}
	}
	if okd && rejected {
		v.Fail(sigp+"/fail-and-ok", "%s both acknowledged and failed: %s", desc, out)
	}
	switch {
	case static != "":
		if !rejected || okd {
			v.Fail(sigp+"/invalid-accepted", "%s must be rejected (%s), got %s", desc, static, out)
		}
		return
	case unsure:
		// out-of-range label: either verdict; never a state change (the key cannot be installed).
		return
	case mustFail:
		if okd || !rejected {
			v.Fail(sigp+"/referenced-delete-accepted", "%s is referenced and must fail, got %s", desc, out)
			if okd {
				delete(m.Ent, k)
			}
		}
		return
	}
	if out.Err != nil {
		v.Fail(sigp+"/valid-op-fatal-error", "%s: call returned error %v", desc, out.Err)
		return
	}
	if !okd {
		_, inst := m.Ent[k]
		v.Fail(sigp+"/unreferenced-delete-failed", "%s must succeed (installed=%v, not referenced), got %s", desc, inst, out)
		return
	}
	delete(m.Ent, k)
}

// Flush empties the given network instances.
func (m *RIB) Flush(nis []string) {
	set := map[string]bool{}
	for _, n := range nis {
		set[n] = true
	}
	for k := range m.Ent {
		if set[k.NI] {
			delete(m.Ent, k)
		}
	}
}

// NINames returns the sorted network instance names.
func (m *RIB) NINames() []string {
	var out []string
	for n := range m.NIs {
		out = append(out, n)
	}
	sort.Strings(out)
	return out
}

// Dangling lists installed entries with an unresolved reference (I4).
func (m *RIB) Dangling() []gen.EntryKey {
	var out []gen.EntryKey
	for k, p := range m.Ent {
		if !m.Resolvable(k.NI, p) {
			out = append(out, k)
		}
	}
	gen.SortKeys(out)
	return out
}

// Keys returns the sorted installed keys.
func (m *RIB) Keys() []gen.EntryKey {
	out := make([]gen.EntryKey, 0, len(m.Ent))
	for k := range m.Ent {
		out = append(out, k)
	}
	gen.SortKeys(out)
	return out
}

func contains(s []uint64, x uint64) bool {
	for _, y := range s {
		if y == x {
			return true
		}
	}
	return false
}

// BeliefApply advances the model the way a conformant implementation with a
// deterministic cascade order (ascending id, to fixpoint) would. Generators
// use it to keep a belief state to aim at; oracles never use it.
func (m *RIB) BeliefApply(ni string, op *spb.AFTOperation) {
	switch op.GetOp() {
	case spb.AFTOperation_ADD, spb.AFTOperation_REPLACE:
		if val, _ := m.StaticAdd(ni, op, true); val != Valid {
			return
		}
		k, _ := KeyOf(ni, op)
		if op.GetOp() == spb.AFTOperation_REPLACE {
			if _, ok := m.Ent[k]; !ok {
				return
			}
		}
		if !m.Resolvable(ni, Payload(op)) {
			if m.FwdRefs {
				m.Held[op.GetId()] = &Held{NI: ni, Op: op}
			}
			return
		}
		m.install(ni, op)
		delete(m.Held, op.GetId())
		for changed := true; changed; {
			changed = false
			for _, hid := range m.heldIDs() {
				h := m.Held[hid]
				if m.Installable(h.NI, h.Op) {
					m.install(h.NI, h.Op)
					delete(m.Held, hid)
					changed = true
				}
			}
		}
	case spb.AFTOperation_DELETE:
		mf, st, _ := m.ExpectDelete(ni, op)
		if mf || st != "" {
			return
		}
		if k, ok := KeyOf(ni, op); ok {
			delete(m.Ent, k)
		}
	}
}

func entryMetadata(p proto.Message) []byte {
	switch t := p.(type) {
	case *aftpb.Afts_Ipv4EntryKey:
		return t.GetIpv4Entry().GetEntryMetadata().GetValue()
	case *aftpb.Afts_Ipv6EntryKey:
		return t.GetIpv6Entry().GetEntryMetadata().GetValue()
	case *aftpb.Afts_LabelEntryKey:
		return t.GetLabelEntry().GetEntryMetadata().GetValue()
	}
	return nil
}
