package hgen

import (
	"strconv"

	"pgregory.net/rapid"

	"verifh/internal/gen"
)

// Renaming is a bijective renaming of the small key universe onto unusual
// values (ids beyond 32 bits, the extreme labels and prefix lengths, operation
// ids that cross the 2^32 boundary or sit at the top of the uint64 range). The
// belief model that aimed the history is insensitive to a bijection, so a
// renamed history keeps its collisions and references while exercising value
// ranges a small universe never reaches (truncation to uint32, signed
// comparison, off-by-one at the ends of a range).
type Renaming struct {
	Name   string
	IDs    map[uint64]uint64 // next-hop index and next-hop-group id
	Labels map[uint64]uint64
	V4     map[string]string
	V6     map[string]string
	OpBase uint64 // operation id i becomes OpBase+i (wrapping is avoided by construction)
}

// Renamings is the catalogue of renamings.
var Renamings = []Renaming{
	{
		Name:   "ids-beyond-32-bits",
		IDs:    map[uint64]uint64{1: 1<<32 + 1, 2: 1<<32 + 2, 3: 3, 4: 1 << 63},
		Labels: map[uint64]uint64{100: 16, 101: 17, 1048575: 1048574},
		V4:     map[string]string{"1.0.0.0/8": "0.0.0.0/0", "3.3.3.3/32": "255.255.255.255/32"},
		V6:     map[string]string{"2001:db8::/32": "2001:db8::1/128"},
		OpBase: 1<<32 - 3,
	},
	{
		Name:   "ids-aliasing-mod-2^32",
		IDs:    map[uint64]uint64{1: 1, 2: 1<<32 + 1, 3: 2, 4: 1<<33 + 2},
		Labels: map[uint64]uint64{100: 1048575, 1048575: 16},
		V4:     map[string]string{"2.2.0.0/16": "128.0.0.0/1", "10.1.1.0/24": "10.1.1.0/31"},
		V6:     map[string]string{"2001:db8:1::/48": "ff00::/8"},
		OpBase: 1 << 63,
	},
	{
		Name:   "ids-at-the-top-of-uint64",
		IDs:    map[uint64]uint64{1: 1<<64 - 1, 2: 1<<64 - 2, 3: 1<<63 - 1, 4: 1<<63 + 1},
		Labels: map[uint64]uint64{},
		V4:     map[string]string{},
		V6:     map[string]string{},
		OpBase: 1<<64 - 1 - 100000 - 70,
	},
	{
		// two ids at the bottom and two at the top of the range: every mixed pair is
		// further apart than 2^63 (differences overflow a signed 64-bit integer)
		Name:   "ids-spanning-the-uint64-range",
		IDs:    map[uint64]uint64{1: 1, 2: 1<<63 + 10, 3: 2, 4: 1<<64 - 1},
		Labels: map[uint64]uint64{100: 16, 101: 1048575, 1048575: 17},
		V4:     map[string]string{},
		V6:     map[string]string{},
		OpBase: 1<<63 - 5,
	},
}

func (r *Renaming) id(x uint64) uint64 {
	if y, ok := r.IDs[x]; ok {
		return y
	}
	return x
}

func (r *Renaming) op(o *gen.Op) *gen.Op {
	c := *o
	if o.ID < 100000+64 { // harness-reserved ids (barriers) are far above
		c.ID = r.OpBase + o.ID
	}
	switch o.Kind {
	case gen.NH, gen.NHG:
		if n, err := strconv.ParseUint(o.Key, 10, 64); err == nil {
			c.Key = strconv.FormatUint(r.id(n), 10)
		}
	case gen.MPLS:
		if n, err := strconv.ParseUint(o.Key, 10, 64); err == nil {
			if y, ok := r.Labels[n]; ok {
				c.Key = strconv.FormatUint(y, 10)
			}
		}
	case gen.V4:
		if y, ok := r.V4[o.Key]; ok {
			c.Key = y
		}
	case gen.V6:
		if y, ok := r.V6[o.Key]; ok {
			c.Key = y
		}
	}
	if o.Group != 0 {
		c.Group = r.id(o.Group)
	}
	if o.Backup != nil {
		c.Backup = gen.U(r.id(*o.Backup))
	}
	if len(o.Hops) > 0 {
		c.Hops = make([]gen.Hop, len(o.Hops))
		for i, h := range o.Hops {
			c.Hops[i] = gen.Hop{Index: r.id(h.Index), Weight: h.Weight}
		}
	}
	return &c
}

// Apply returns the renamed history.
func (r *Renaming) Apply(h History) History {
	out := History{FwdRefs: h.FwdRefs}
	for _, s := range h.Steps {
		if s.Op == nil || s.Op.Raw != "" {
			out.Steps = append(out.Steps, s)
			continue
		}
		out.Steps = append(out.Steps, Step{Op: r.op(s.Op)})
	}
	return out
}

// MaybeRename applies a drawn renaming with probability pctWild percent.
func MaybeRename(t *rapid.T, h History, pctWild int) (History, string) {
	if !pct(t, pctWild, "wild?") {
		return h, ""
	}
	r := Renamings[rapid.IntRange(0, len(Renamings)-1).Draw(t, "renaming")]
	return r.Apply(h), r.Name
}
