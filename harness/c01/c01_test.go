package c01

import (
	"encoding/json"
	"fmt"
	"testing"

	"pgregory.net/rapid"

	"verifh/internal/ev"
	"verifh/internal/gen"
	"verifh/internal/hgen"
	"verifh/internal/l1"
)

func TestMain(m *testing.M) { ev.Main(m, "C01", "exploration") }

// Case is the replayable case of C01.
type Case struct {
	Level string       `json:"level"` // "L1" (rib API), "L2" (server, in-process streams) or "L3" (server behind real gRPC over bufconn)
	H     hgen.History `json:"h"`
	// L2 only
	Batch     []int `json:"batch,omitempty"`     // sizes of the ModifyRequests the ops are packed into
	Fatal     int   `json:"fatal,omitempty"`     // 1-based index (among ops) of an op with a fatal election stamp (0 = none)
	FatalKind int   `json:"fatalkind,omitempty"` // 1 = no election id, 2 = no entry
	// Every > 1: L1 bulk histories read the whole RIB back only every n-th step
	Every int `json:"every,omitempty"`
	// NoRefCheck (L1): rib.DisableRIBCheckFn - no resolvability checks, no deletion protection
	NoRefCheck bool `json:"norefcheck,omitempty"`
	// ReElect (L2/L3): the session raises its own election id after every n-th request
	ReElect int `json:"reelect,omitempty"`
	// LateVRF (L2/L3) > 0: VRF-B is created at runtime (AddNetworkInstance) before this step
	LateVRF int `json:"latevrf,omitempty"`
}

func setup() {
	c := ev.C()
	c.Rule = "histories of ADD/REPLACE/DELETE over ipv4/ipv6/mpls/nhg/nh in 3 network instances with a small colliding key universe (rapid, model-aimed) plus dependency graphs in disturbed arrival orders (held chains, dependencies deleted while waited for, doomed held REPLACEs) plus all histories of length<=3 over a 24-step alphabet, run against rib.RIB (L1; one random history in eight on a RIB built with DisableRIBCheckFn and a model without reference checks), server.Modify/Get over in-process streams (L2) and - one L2 history in four - the same server behind a real grpc.Server over bufconn (L3: real codec, HTTP/2 streams); after every step: relation model, pure fold of acknowledged ops, held-set and counter invariants. Non-trivial = history in which an acknowledged ADD/REPLACE changed an installed key's payload, or an acknowledged DELETE removed an installed key, or a held op was acknowledged later, or a flush left entries in other NIs; distinct by FNV-64 of the canonical case JSON. Later additions: harness-owned wall clock stepped/frozen at drawn steps; alias spellings of one prefix in the key universe; ids spanning the uint64 range; generator intent 'around a held operation'; at L2/L3 the last network instance may be created at runtime at a drawn step; one shard runs with glog -v=2."
	c.Assumptions = []string{
		"payload generators only emit schema-valid values (labels 16..1048575, canonical prefixes, non-empty metadata)",
		"installed state at L1 is read through RIBContents + rib.Concrete*Proto, the converters Get uses",
		"operation ids are unique within a history",
	}
}

func runCase(c Case) *ev.Verdict {
	switch c.Level {
	case "L2", "L3":
		return runL2(c)
	}
	v, tr := l1.Run(c.H, l1.Opts{P: "C01", Trusted: true, ObserveEvery: c.Every, NoRefCheck: c.NoRefCheck})
	if c.NoRefCheck {
		v.Class("reference-checks-disabled")
	}
	classify(v, tr)
	return v
}

func classify(v *ev.Verdict, tr *l1.Trace) {
	if tr.ReplacedDifferent > 0 {
		v.Class("replace-different-payload")
	}
	if tr.DeletedInstalled > 0 {
		v.Class("delete-installed")
	}
	if tr.HeldResolved > 0 {
		v.Class("held-resolved")
	}
	if tr.FlushSurvivors > 0 {
		v.Class("flush-with-survivors")
	}
	if tr.HeldFailed > 0 {
		v.Class("held-failed")
	}
	v.NonTrivial = tr.ReplacedDifferent > 0 || tr.DeletedInstalled > 0 || tr.HeldResolved > 0 || tr.FlushSurvivors > 0
}

func TestReplay(t *testing.T) {
	setup()
	for _, f := range ev.ReplayFiles() {
		var c Case
		if err := ev.LoadCase(f, &c); err != nil {
			t.Fatalf("%s: %v", f, err)
		}
		// the implementation iterates Go maps: repeat so order-dependent failures reproduce
		for i := 0; i < 20; i++ {
			v := runCase(c)
			if fresh := ev.C().Record(ev.JSON(c), v); len(fresh) > 0 {
				t.Errorf("%s: %v", f, fresh)
				break
			}
		}
	}
}

func u(v uint64) *uint64 { return &v }

// alphabet is the 24-step alphabet of the exhaustive small scope.
func alphabet() []hgen.Step {
	op := func(ni, kind, act, key string, f func(o *gen.Op)) hgen.Step {
		o := &gen.Op{NI: ni, Kind: kind, Act: act, Key: key}
		if act == gen.DELETE {
			o.NoPayload = true
		}
		if f != nil {
			f(o)
		}
		return hgen.Step{Op: o}
	}
	D, A := "DEFAULT", "VRF-A"
	return []hgen.Step{
		op(D, gen.NH, gen.ADD, "1", func(o *gen.Op) { o.IP = "192.0.2.1" }),
		op(D, gen.NH, gen.REPLACE, "1", func(o *gen.Op) { o.Intf = "eth0" }),
		op(D, gen.NH, gen.DELETE, "1", nil),
		op(D, gen.NH, gen.ADD, "2", func(o *gen.Op) { o.MAC = "00:00:5e:00:53:01" }),
		op(D, gen.NH, gen.DELETE, "2", nil),
		op(D, gen.NHG, gen.ADD, "1", func(o *gen.Op) { o.Hops = []gen.Hop{{Index: 1, Weight: u(1)}} }),
		op(D, gen.NHG, gen.ADD, "1", func(o *gen.Op) { o.Hops = []gen.Hop{{Index: 1}, {Index: 2, Weight: u(3)}} }),
		op(D, gen.NHG, gen.REPLACE, "1", func(o *gen.Op) { o.Hops = []gen.Hop{{Index: 2}} }),
		op(D, gen.NHG, gen.DELETE, "1", nil),
		op(D, gen.NHG, gen.ADD, "2", func(o *gen.Op) { o.Hops = []gen.Hop{{Index: 2}}; o.Backup = u(1) }),
		op(D, gen.NHG, gen.DELETE, "2", nil),
		op(D, gen.V4, gen.ADD, "1.0.0.0/8", func(o *gen.Op) { o.Group = 1; o.Meta = []byte{1, 2} }),
		op(D, gen.V4, gen.ADD, "1.0.0.0/8", func(o *gen.Op) { o.Group = 2 }),
		op(D, gen.V4, gen.REPLACE, "1.0.0.0/8", func(o *gen.Op) { o.Group = 2 }),
		op(D, gen.V4, gen.DELETE, "1.0.0.0/8", nil),
		op(A, gen.V4, gen.ADD, "1.0.0.0/8", func(o *gen.Op) { o.Group = 1; o.GroupNI = D }),
		op(A, gen.V4, gen.DELETE, "1.0.0.0/8", nil),
		op(D, gen.MPLS, gen.ADD, "100", func(o *gen.Op) { o.Group = 1 }),
		op(D, gen.MPLS, gen.DELETE, "100", nil),
		op(D, gen.MPLS, gen.DELETE, "4294967396", nil),
		op(D, gen.V6, gen.ADD, "2001:db8::/32", func(o *gen.Op) { o.Group = 1 }),
		op(D, gen.V6, gen.DELETE, "2001:db8::/32", nil),
		{Flush: []string{D}},
		{Flush: []string{D, A, "VRF-B"}},
	}
}

func cloneStep(s hgen.Step, id uint64) hgen.Step {
	if s.Op == nil {
		return s
	}
	o := *s.Op
	o.ID = id
	return hgen.Step{Op: &o}
}

// enumerate calls f with every history of exactly n steps over the alphabet
// whose index belongs to this shard.
func enumerate(n int, f func(h hgen.History)) int {
	al := alphabet()
	k, ns := ev.Shard()
	total := 1
	for i := 0; i < n; i++ {
		total *= len(al)
	}
	count := 0
	for idx := 0; idx < total; idx++ {
		if idx%ns != k {
			continue
		}
		for _, fwd := range []bool{true, false} {
			h := hgen.History{FwdRefs: fwd}
			x := idx
			for i := 0; i < n; i++ {
				h.Steps = append(h.Steps, cloneStep(al[x%len(al)], uint64(i+1)))
				x /= len(al)
			}
			f(h)
			count++
		}
	}
	return count
}

func TestCampaign(t *testing.T) {
	setup()
	col := ev.C()
	t.Run("exhaustive-small-scope", func(t *testing.T) {
		maxLen := ev.Pick("C01_EXH_LEN", 3, 4)
		for n := 1; n <= maxLen; n++ {
			bad := 0
			cnt := enumerate(n, func(h hgen.History) {
				c := Case{Level: "L1", H: h}
				v := runCase(c)
				if fresh := col.Record(ev.JSON(c), v); len(fresh) > 0 {
					bad++
					if bad <= 3 {
						t.Errorf("history %s: %v", ev.JSON(c), fresh)
					}
				}
			})
			col.Scope(fmt.Sprintf("all histories of length %d over the 24-step alphabet x {fwdrefs on,off}", n), cnt, true)
		}
	})
	t.Run("random-L1", func(t *testing.T) {
		cfg := hgen.DefaultCfg()
		cfg.AliasLabels = true
		cfg.MaxLen = 40
		rapid.Check(t, func(rt *rapid.T) {
			var c Case
			var wild string
			if rapid.IntRange(0, 29).Draw(rt, "bulk?") == 7 {
				c = Case{Level: "L1", H: hgen.DrawBulk(rt, hgen.DefaultBulk()), Every: 16}
				wild = "bulk"
			} else {
				c = Case{Level: "L1", H: hgen.DrawHistory(rt, cfg)}
				c.H, wild = hgen.MaybeRename(rt, c.H, 20)
				c.NoRefCheck = rapid.IntRange(0, 7).Draw(rt, "norefcheck?") == 0
			}
			v := runCase(c)
			if wild == "bulk" {
				v.Class("bulk-history")
			} else if wild != "" {
				v.Class("renamed:" + wild)
			}
			col.Check(rt, ev.JSON(c), v)
		})
	})
	t.Run("dependency-graphs", func(t *testing.T) {
		// dependency graphs in disturbed arrival orders (the generator of C02): chains of
		// held operations released together, dependencies deleted while waited for, doomed held
		// REPLACEs failing inside a cascade - every acknowledgement must still be the fold
		rapid.Check(t, func(rt *rapid.T) {
			c := Case{Level: "L1", H: hgen.DrawGraph(rt)}
			switch rapid.IntRange(0, 5).Draw(rt, "level") {
			case 0:
				c.Level = "L2"
				c.Batch = []int{rapid.IntRange(1, 5).Draw(rt, "batch")}
			case 1:
				c.Level = "L3"
				c.Batch = []int{rapid.IntRange(1, 5).Draw(rt, "batch")}
			}
			v := runCase(c)
			v.Class("dependency-graph")
			col.Check(rt, ev.JSON(c), v)
		})
	})
	t.Run("random-L2", func(t *testing.T) { campaignL2(t) })
	col.MinimizeAll(minimize)
}

// minimize is the delta-debugging pass run on every recorded violation.
func minimize(sig string, cs []byte) []byte {
	var c Case
	if err := json.Unmarshal(cs, &c); err != nil {
		return nil
	}
	fails := func(h hgen.History) bool {
		cc := c
		cc.H = h
		for i := 0; i < 4; i++ {
			if runCase(cc).HasSig(sig) {
				return true
			}
		}
		return false
	}
	fails = ev.Bounded(fails)
	if !fails(c.H) {
		return nil
	}
	c.H = hgen.Minimize(c.H, fails)
	return ev.JSON(c)
}
