#!/usr/bin/env python3
"""Regenerates /verif/MANIFEST.json from the table below (single source of truth)."""
import json, os, subprocess
ROOT = os.path.dirname(os.path.dirname(os.path.abspath(__file__)))

CHECKS = {
 "C01": dict(
   technique="model-based property testing (rapid histories + exhaustive small scope) against a relation model and a pure fold oracle",
   level="exploration",
   text="Generated operation histories (random, model-aimed, plus every history of length<=3 [quick] / <=4 [thorough] over a 24-step alphabet) are run against rib.RIB and against server.Modify/Get over in-process streams; after every step the installed entries must equal (a) the pure fold of the acknowledged operations in acknowledgement order and (b) the relation model, and held-set / counters must match. Search, not proof: it shows the property on the explored histories and finds counterexamples, shrunk to a replay file.",
   note="Trusted: the reference model in harness/internal/model, the generator's notion of schema-valid payloads, rib.Concrete*Proto for reading L1 state (cross-checked by C07). Exhaustive only for the stated small scopes.",
   design="DESIGN.md §4 C01"),
}
NOT_YET = {}

def main():
    props = [json.loads(l) for l in open(os.path.join(ROOT, "properties.jsonl"))]
    checks = []
    na = []
    for p in props:
        pid = p["id"]
        c = CHECKS.get(pid)
        if not c:
            na.append({"property_id": pid, "reason": NOT_YET.get(pid, "check under construction in this round; not claimed until its quick tier is green on the unchanged tree")})
            continue
        checks.append({
            "property_id": pid,
            "quick_cmd": "./check %s quick" % pid,
            "thorough_cmd": "./check %s thorough" % pid,
            "evidence_file": "/verif/evidence/%s.json" % pid,
            "replay_cmd_template": "./check %s --replay {path}" % pid,
            "engine": "pbt-harness",
            "level_claimed": {"category": c["level"], "text": c["text"], "design_ref": c["design"]},
            "level_note": c["note"],
            "technique": c["technique"],
        })
    hooks_commits = subprocess.run(["git", "-C", "/repo", "log", "--format=%H", "--grep=^verif hooks"], capture_output=True, text=True).stdout.split()
    m = {
        "version": 1,
        "setup_cmd": "./check setup",
        "hooks": {
            "guard": "verif",
            "enable": "go build tag: every check builds its test binary with `go test -c -tags verif` from /repo's working tree (harness/go.mod: replace github.com/openconfig/gribigo => /repo)",
            "baseline_off_cmd": "cd /repo && GOFLAGS=-mod=mod GOPROXY=off go test -json -vet=off -count=1 -timeout 25m ./...",
            "source_commits": hooks_commits,
            "add_only": True,
        },
        "engines": [{
            "name": "pbt-harness",
            "path": "/verif/harness",
            "serves_properties": [c["property_id"] for c in checks],
            "kind_free_text": "Go test module (pgregory.net/rapid v1.3.0 + native go fuzzing) with reference models, in-process gRPC stream fakes and a python driver (./check) that shards by seed over 16 cores, aggregates evidence and maps results to exit codes",
        }],
        "checks": checks,
        "not_applicable": na,
        "notes": "Technique family: property-based testing and fuzzing. Exit 2 = inconclusive (build failure / worker death / budget), never reported as a violation. known_findings.json lists recorded (known) and repaired (fixed) defects.",
    }
    json.dump(m, open(os.path.join(ROOT, "MANIFEST.json"), "w"), indent=1)
    print("checks:", [c["property_id"] for c in checks], "not_applicable:", len(na))

if __name__ == "__main__":
    main()
