package c11

import (
	"fmt"
	"runtime"
	"strings"
	"sync"
	"sync/atomic"
	"testing"
	"time"

	"pgregory.net/rapid"

	spb "github.com/openconfig/gribi/v1/proto/service"
	"github.com/openconfig/gribigo/aft"
	"github.com/openconfig/gribigo/constants"
	"github.com/openconfig/gribigo/rib"
	"github.com/openconfig/gribigo/server"
	"github.com/openconfig/ygot/ygot"

	"verifh/internal/drive"
	"verifh/internal/ev"
	"verifh/internal/gen"
	"verifh/internal/hgen"
	"verifh/internal/l2"
	"verifh/internal/model"
	"verifh/internal/obs"
)

func TestMain(m *testing.M) { ev.Main(m, "C11", "exploration") }

// Act is one step of a session's script.
type Act struct {
	// K: elec | ops | pause
	K     string     `json:"k"`
	ID    *gen.ID128 `json:"id,omitempty"`
	Ops   []*gen.Op  `json:"ops,omitempty"`
	Yield int        `json:"yield,omitempty"` // scheduler perturbation before the step: n x Gosched, or a sleep of n microseconds when > 8
	// Vanish > 0 (last step of a session): the client goes away while this request is being
	// answered - writing the Vanish-th response fails - and the session ends there; the
	// other sessions, readers and flushers go on
	Vanish int `json:"vanish,omitempty"`
}

// Case is a concurrent workload.
type Case struct {
	Procs     int     `json:"procs"`
	FIB       bool    `json:"fib"`
	Sessions  [][]Act `json:"sessions"`
	Gets      []int   `json:"gets"`                // one reader per element: number of Get(ALL) calls
	Flushes   []int   `json:"flushes"`             // one flusher per element: number of Flush calls (override, all NIs)
	FlushNI   string  `json:"flushni"`             // "all" or an instance name
	FlushByID bool    `json:"flushbyid,omitempty"` // authorise the flushes with an election id instead of override
	// Storm, when set, replaces the scripts: in round r every session announces
	// (0, 8(r+1)+Storm[r][i]) at the same moment (released from a spin barrier).
	Storm [][]int `json:"storm,omitempty"`
	// Loop (churn workloads): the Get readers and Flush callers keep calling, with a
	// pause of Gets[i] / Flushes[i] microseconds between calls, until every Modify
	// session has finished its script - so that they overlap the modifications for
	// certain instead of finishing on an empty RIB before the first operation.
	Loop bool `json:"loop,omitempty"`
	// Net: the server sits behind a real grpc.Server over bufconn; sessions, readers and
	// flushers are real gRPC clients (each session on its own connection)
	Net bool `json:"net,omitempty"`
	// Hooks: the server is built with both public RIB hooks registered (post-change and
	// resolved-entry), as a device integration would; the hooks themselves do nothing
	Hooks bool `json:"hooks,omitempty"`
	// HookDelay (with Hooks): the post-change hook takes this long (perturb units: n x
	// Gosched up to 8, microseconds above), as a hook programming hardware would - it
	// stretches every critical section it is called from
	HookDelay int `json:"hookdelay,omitempty"`
	// AddNIs: one goroutine per element that creates network instances at runtime
	// (Server.AddNetworkInstance) while the others work: that many (or, in Loop workloads,
	// with that pause in microseconds until the sessions have finished; at most 200)
	AddNIs []int `json:"addnis,omitempty"`
}

func setup() {
	c := ev.C()
	c.Rule = "concurrent workloads built with -race: 2-4 Modify sessions (negotiated one after the other, then run from real goroutines: ascending election ids from per-session disjoint sets with deliberate ties across sessions, batches over per-session disjoint keys with globally unique operation ids; one session in five ends with a request during which its client goes away - a response cannot be written - while the others go on), 0-2 Get readers and 0-2 Flush callers running concurrently over in-process streams (one random workload in four over a real grpc.Server on bufconn), GOMAXPROCS drawn from {2,4,16}, Gosched/microsleep perturbation at drawn points; plus election storms: 20-60 rounds in which 2-4 sessions announce distinct ids at the same moment (spin barrier), checked after every round. Oracle: no race-detector report (GORACE log parsed by the driver; signature = the racing gribigo functions), no panic/fatal error (process death is reported by the driver), every goroutine finishes under the watchdog (hang attributed from the goroutine dump), and at quiescence: learnt election id == maximum announced, primary is a session that announced it, every operation has exactly one terminal result, and - when no Flush overlapped - Get(ALL) equals the union of the per-session folds of acknowledged operations. Non-trivial = >=2 sessions announced while the others were still running and >=1 Get or Flush overlapped a Modify (measured with step counters); distinct by FNV-64 of the case JSON. Later additions: one workload in three on a server with both public RIB hooks registered (post-change hook taking a drawn time); per-session home instance for groups; goroutines creating network instances at runtime."
	c.Assumptions = []string{"the Go scheduler owns the interleaving: evidence is the race detector's happens-before analysis on the executions seen, not coverage of all schedules"}
}

type sessResult struct {
	announced []gen.ID128
	acked     []*gen.Op // acknowledged RIB_PROGRAMMED, in order
	results   map[uint64][]spb.AFTResult_Status
	where     map[uint64][]string // for every result: "step/response" in which it arrived
	sent      map[uint64]*gen.Op
	ended     bool
	vanished  bool
	err       error
	hang      *drive.Hang
}

func perturb(n int) {
	switch {
	case n <= 0:
	case n <= 8:
		for i := 0; i < n; i++ {
			runtime.Gosched()
		}
	default:
		time.Sleep(time.Duration(n) * time.Microsecond)
	}
}

func runCase(c Case) *ev.Verdict {
	v := &ev.Verdict{}
	ev.C().Inflight(ev.JSON(c))
	if c.Procs > 0 {
		defer runtime.GOMAXPROCS(runtime.GOMAXPROCS(c.Procs))
	}
	var so []server.ServerOpt
	if c.Hooks {
		so = append(so, server.WithPostChangeRIBHook(func(constants.OpType, int64, string, ygot.ValidatedGoStruct) { perturb(c.HookDelay) }),
			server.WithRIBResolvedEntryHook(func(map[string]*aft.RIB, constants.OpType, string, constants.AFT, any, ...rib.ResolvedDetails) {}))
		v.Class("hooks-registered")
	}
	s := drive.NewSrv(true, hgen.NIs[1:], so...)
	if c.Net {
		s.UseNet()
		defer s.Shutdown()
		v.Class("real-transport")
	}
	n := len(c.Sessions)
	xs := make([]*drive.Session, n)
	// negotiate sequentially (an un-negotiated peer makes the server refuse other sessions' parameters)
	for i := range xs {
		xs[i] = s.Open()
		if _, hg := xs[i].Send(drive.StdParams(c.FIB)); hg != nil {
			l2.HangFinding(v, "C11", hg)
			return v
		}
		if rs, ended, hg := xs[i].Barrier(); hg != nil || ended || len(rs) != 1 {
			l2.HangFinding(v, "C11", hg)
			if hg == nil {
				v.Fail("C11/setup", "session %d: parameters not accepted: ended=%v %v %v", i, ended, xs[i].Err(), rs)
			}
			return v
		}
	}
	if len(c.Storm) > 0 {
		runStorm(c, s, xs, v)
		for _, x := range xs {
			x.Close()
		}
		return v
	}
	res := make([]*sessResult, n)
	var wg, swg sync.WaitGroup
	var running, modifySteps, overlapReads, overlapFlush, concurrentAnnounce int64
	var mu sync.Mutex
	start := make(chan struct{})
	for i := range xs {
		res[i] = &sessResult{results: map[uint64][]spb.AFTResult_Status{}, where: map[uint64][]string{}, sent: map[uint64]*gen.Op{}}
		wg.Add(1)
		swg.Add(1)
		go func(i int) {
			defer wg.Done()
			defer swg.Done()
			<-start
			mu.Lock()
			running++
			mu.Unlock()
			defer func() {
				mu.Lock()
				running--
				mu.Unlock()
			}()
			x, r := xs[i], res[i]
			for ai, a := range c.Sessions[i] {
				perturb(a.Yield)
				var req *spb.ModifyRequest
				switch a.K {
				case "elec":
					req = &spb.ModifyRequest{ElectionId: a.ID.Proto()}
					mu.Lock()
					if running > 1 {
						concurrentAnnounce++
					}
					mu.Unlock()
				case "ops":
					req = &spb.ModifyRequest{}
					for _, o := range a.Ops {
						oo := *o
						if len(r.announced) > 0 {
							id := r.announced[len(r.announced)-1]
							oo.Elec = &id
						}
						req.Operation = append(req.Operation, oo.Proto())
						r.sent[o.ID] = o
					}
				default:
					continue
				}
				mu.Lock()
				modifySteps++
				mu.Unlock()
				if a.Vanish > 0 {
					x.FailSends(a.Vanish)
					r.vanished = true
				}
				if _, hg := x.Send(req); hg != nil {
					r.hang = hg
					return
				}
				rs, ended, hg := x.Barrier()
				if hg != nil {
					r.hang = hg
					return
				}
				if a.K == "elec" {
					r.announced = append(r.announced, *a.ID)
				}
				for mi, m := range rs {
					for _, ar := range m.GetResult() {
						r.results[ar.GetId()] = append(r.results[ar.GetId()], ar.GetStatus())
						r.where[ar.GetId()] = append(r.where[ar.GetId()], fmt.Sprintf("step %d response %d of %d", ai, mi, len(rs)))
						if ar.GetStatus() == spb.AFTResult_RIB_PROGRAMMED {
							if o, ok := r.sent[ar.GetId()]; ok {
								r.acked = append(r.acked, o)
							}
						}
					}
				}
				if ended {
					r.ended, r.err = true, x.Err()
					return
				}
			}
		}(i)
	}
	var aux []*drive.Hang
	var auxErr []string
	var auxMu sync.Mutex
	// loop mode: aux callers run until the sessions are done (at most 5000 calls each)
	sessionsDone := make(chan struct{})
	keepGoing := func(j, k int) bool {
		if !c.Loop {
			return j < k
		}
		if j >= 5000 {
			return false
		}
		select {
		case <-sessionsDone:
			return false
		default:
		}
		if j > 0 {
			time.Sleep(time.Duration(k) * time.Microsecond)
		}
		return true
	}
	for _, k := range c.Gets {
		wg.Add(1)
		go func(k int) {
			defer wg.Done()
			<-start
			for j := 0; keepGoing(j, k); j++ {
				mu.Lock()
				if running > 0 {
					overlapReads++
				}
				mu.Unlock()
				_, err, hg := s.GetAll()
				auxMu.Lock()
				if hg != nil {
					aux = append(aux, hg)
				}
				if err != nil {
					auxErr = append(auxErr, "Get: "+err.Error())
				}
				auxMu.Unlock()
				if hg != nil {
					return
				}
			}
		}(k)
	}
	for _, k := range c.Flushes {
		wg.Add(1)
		go func(k int) {
			defer wg.Done()
			<-start
			for j := 0; keepGoing(j, k); j++ {
				mu.Lock()
				if running > 0 {
					overlapFlush++
				}
				mu.Unlock()
				req := &spb.FlushRequest{Election: &spb.FlushRequest_Override{Override: &spb.Empty{}}}
				if c.FlushByID {
					// an id above everything the sessions announce: always authorised once an
					// election happened; before that the specified answer is ELECTION_ID_IN_ALL_PRIMARY
					req.Election = &spb.FlushRequest_Id{Id: &spb.Uint128{High: 99, Low: 1}}
				}
				if c.FlushNI == "all" || c.FlushNI == "" {
					req.NetworkInstance = &spb.FlushRequest_All{All: &spb.Empty{}}
				} else {
					req.NetworkInstance = &spb.FlushRequest_Name{Name: c.FlushNI}
				}
				_, err, hg := s.Flush(req)
				auxMu.Lock()
				if hg != nil {
					aux = append(aux, hg)
				}
				if err != nil && !(c.FlushByID && strings.Contains(err.Error(), "ALL_PRIMARY")) {
					auxErr = append(auxErr, "Flush: "+err.Error())
				}
				auxMu.Unlock()
				if hg != nil {
					return
				}
			}
		}(k)
	}
	for ai, k := range c.AddNIs {
		wg.Add(1)
		go func(ai, k int) {
			defer wg.Done()
			<-start
			for j := 0; j < 200 && keepGoing(j, k); j++ {
				var err error
				hg := drive.Watch("AddNetworkInstance", func() { err = s.S.AddNetworkInstance(fmt.Sprintf("NEW-%d-%d", ai, j)) })
				auxMu.Lock()
				if hg != nil {
					aux = append(aux, hg)
				}
				if err != nil {
					auxErr = append(auxErr, "AddNetworkInstance: "+err.Error())
				}
				auxMu.Unlock()
				if hg != nil {
					return
				}
			}
		}(ai, k)
	}
	if len(c.AddNIs) > 0 {
		v.Class("instances-created-at-runtime")
	}
	close(start)
	go func() { swg.Wait(); close(sessionsDone) }()
	done := make(chan struct{})
	go func() { wg.Wait(); close(done) }()
	finished := false
	for ext := 0; !finished; ext++ {
		select {
		case <-done:
			finished = true
			continue
		case <-time.After(2 * drive.Watchdog):
		}
		// a slow machine is not a hang: keep waiting while a gribigo frame can make progress
		if ext < drive.MaxExtensions && drive.AnyBusyInGribigo(drive.Parse(drive.Dump())) {
			continue
		}
		break
	}
	if !finished {
		d := drive.Dump()
		blocked := drive.BlockedInGribigo(drive.Parse(d))
		if blocked != "" {
			v.Fail("C11/hang:"+blocked, "workload did not finish; blocked gribigo frames %s\n%s", blocked, d[:min(len(d), 6000)])
		} else {
			v.Inconclusive = "workload did not finish within the watchdog and no gribigo frame is blocked"
		}
		return v
	}
	for _, hg := range aux {
		l2.HangFinding(v, "C11", hg)
	}
	for i, r := range res {
		if r.hang != nil {
			l2.HangFinding(v, "C11", r.hang)
		}
		if r.ended && !r.vanished {
			v.Fail("C11/session-ended", "session %d ended unexpectedly with %v", i, r.err)
		}
		if r.vanished {
			v.Class("a-session-vanishes-mid-request")
		}
	}
	for _, e := range auxErr {
		v.Fail("C11/request-failed", "a concurrent request was not answered OK: %s", e)
	}
	if len(v.Findings) > 0 || v.Inconclusive != "" {
		return v
	}
	// quiescent state
	var max *gen.ID128
	for _, r := range res {
		for _, id := range r.announced {
			if max == nil || id.Cmp(*max) > 0 {
				x := id
				max = &x
			}
		}
	}
	id, master := s.S.VerifElection()
	switch {
	case max == nil && id != nil:
		v.Fail("C11/election-id", "server learnt election id %v although nothing was announced", gen.FromProto128(id))
	case max != nil && (id == nil || gen.FromProto128(id).Cmp(*max) != 0):
		v.Fail("C11/election-id", "at quiescence the learnt election id is %v, the maximum announced is %s", id, max)
	}
	if max != nil {
		ok := false
		for i, r := range res {
			for _, a := range r.announced {
				if a.Cmp(*max) == 0 && xs[i].CID == master {
					ok = true
				}
			}
		}
		if !ok {
			v.Fail("C11/primary", "at quiescence the primary is not a session that announced the maximum id %s", max)
		}
	}
	for i, r := range res {
		for oid := range r.sent {
			seq := r.results[oid]
			bad := ""
			switch {
			case len(seq) == 0:
				// may be legitimately held, or dropped at a fail-over
				continue
			case seq[0] == spb.AFTResult_FAILED && len(seq) == 1:
			case seq[0] == spb.AFTResult_RIB_PROGRAMMED && len(seq) == 1 && !c.FIB:
			case seq[0] == spb.AFTResult_RIB_PROGRAMMED && len(seq) == 2 && seq[1] == spb.AFTResult_FIB_PROGRAMMED && c.FIB:
			default:
				bad = fmt.Sprint(seq)
			}
			if bad != "" {
				v.Fail("C11/result-sequence", "session %d operation %d (%s) received %s at %v", i, oid, r.sent[oid], bad, r.where[oid])
			}
		}
	}
	if len(c.Flushes) == 0 {
		want := obs.State{}
		for _, r := range res {
			for _, o := range r.acked {
				p := o.Proto()
				k, _ := model.KeyOf(o.NI, p)
				if o.Act == gen.DELETE {
					delete(want, k)
				} else {
					want[k] = model.Canon(model.Payload(p))
				}
			}
		}
		got, ok := l2.Observe(s, v, "C11", "at quiescence")
		// operations of a request during which the client went away may or may not have been
		// programmed (C10's subject): their keys are left out of the comparison
		// (all keys of that session: its last request may also have released operations of
		// its own that were held, and their acknowledgement was lost with the stream)
		for _, acts := range c.Sessions {
			if len(acts) == 0 || acts[len(acts)-1].Vanish == 0 {
				continue
			}
			for _, a := range acts {
				for _, o := range a.Ops {
					if k, ok2 := model.KeyOf(o.NI, o.Proto()); ok2 {
						delete(want, k)
						delete(got, k)
					}
				}
			}
		}
		if ok {
			if d := obs.Diff(want, got); len(d) > 0 {
				v.Fail("C11/state-vs-acknowledged:"+obs.DiffClass(d), "at quiescence Get(ALL) differs from the union of the per-session folds of acknowledged operations: %s", strings.Join(d, "; "))
			}
		}
	}
	for _, x := range xs {
		x.Close()
	}
	if concurrentAnnounce >= 2 {
		v.Class("concurrent-announcements")
	}
	if overlapReads > 0 {
		v.Class("get-overlaps-modify")
	}
	if overlapFlush > 0 {
		v.Class("flush-overlaps-modify")
	}
	if c.Loop {
		v.Class("churn")
	}
	v.NonTrivial = concurrentAnnounce >= 2 && (overlapReads > 0 || overlapFlush > 0)
	return v
}

// runStorm makes all sessions announce distinct election ids at the same
// moment, round after round on one server, and checks the election state once
// every announcement of a round has been answered.
func runStorm(c Case, s *drive.Srv, xs []*drive.Session, v *ev.Verdict) {
	n := len(xs)
	overlapped := 0
	for r, perm := range c.Storm {
		if len(perm) != n {
			v.Inconclusive = "malformed storm case"
			return
		}
		var ready, inflight, sawOverlap int32
		var wg sync.WaitGroup
		hangs := make([]*drive.Hang, n)
		ended := make([]bool, n)
		answers := make([][]*spb.ModifyResponse, n)
		for i := range xs {
			wg.Add(1)
			go func(i int) {
				defer wg.Done()
				req := &spb.ModifyRequest{ElectionId: &spb.Uint128{Low: uint64(8*(r+1) + perm[i])}}
				atomic.AddInt32(&ready, 1)
				for atomic.LoadInt32(&ready) < int32(n) {
				}
				if atomic.AddInt32(&inflight, 1) > 1 {
					atomic.StoreInt32(&sawOverlap, 1)
				}
				if _, hg := xs[i].Send(req); hg != nil {
					hangs[i] = hg
					return
				}
				rs, e, hg := xs[i].Barrier()
				atomic.AddInt32(&inflight, -1)
				hangs[i], ended[i], answers[i] = hg, e, rs
			}(i)
		}
		wg.Wait()
		for i := range xs {
			if hangs[i] != nil {
				l2.HangFinding(v, "C11", hangs[i])
				return
			}
			if ended[i] {
				v.Fail("C11/session-ended", "storm round %d: session %d ended with %v", r, i, xs[i].Err())
				return
			}
			if len(answers[i]) != 1 || answers[i][0].GetElectionId() == nil {
				v.Fail("C11/announcement-unanswered", "storm round %d: session %d received %v for its announcement", r, i, answers[i])
				return
			}
		}
		if sawOverlap == 1 {
			overlapped++
		}
		maxLo, maxI := uint64(0), -1
		for i := range xs {
			if lo := uint64(8*(r+1) + perm[i]); lo > maxLo {
				maxLo, maxI = lo, i
			}
		}
		id, master := s.S.VerifElection()
		if id == nil || id.GetHigh() != 0 || id.GetLow() != maxLo {
			v.Fail("C11/election-id", "storm round %d (ids %v + %d announced together): at quiescence the learnt election id is %v, the maximum announced is %d", r, perm, 8*(r+1), id, maxLo)
			return
		}
		if master != xs[maxI].CID {
			v.Fail("C11/primary", "storm round %d (ids %v + %d announced together): at quiescence the primary is not the session that announced the maximum id %d", r, perm, 8*(r+1), maxLo)
			return
		}
	}
	v.Class("election-storm")
	if overlapped > 0 {
		v.Class("concurrent-announcements")
	}
	v.NonTrivial = overlapped > 0
}

func TestReplay(t *testing.T) {
	setup()
	for _, f := range ev.ReplayFiles() {
		if strings.HasSuffix(f, ".txt") {
			continue
		}
		var c Case
		if err := ev.LoadCase(f, &c); err != nil {
			t.Fatalf("%s: %v", f, err)
		}
		for i := 0; i < 20; i++ {
			v := runCase(c)
			if fresh := ev.C().Record(ev.JSON(c), v); len(fresh) > 0 {
				t.Errorf("%s: %v", f, fresh)
				break
			}
		}
	}
}

func drawHookDelay(rt *rapid.T) int {
	d := rapid.IntRange(0, 12).Draw(rt, "hook-yield")
	if d > 8 {
		d = rapid.IntRange(9, 150).Draw(rt, "hook-sleep-us")
	}
	return d
}

func drawCase(rt *rapid.T) Case {
	c := drawCaseN(rt, 2, 8, 3)
	c.Net = rapid.IntRange(0, 3).Draw(rt, "net?") == 0
	c.Hooks = rapid.IntRange(0, 2).Draw(rt, "hooks?") == 0
	if c.Hooks {
		c.HookDelay = drawHookDelay(rt)
	}
	return c
}

// drawChurn draws a long workload in which Get readers and Flush callers loop
// for as long as the sessions modify: chains (next-hop <- group <- prefixes in
// several instances, cross-instance references) are built, replaced and deleted
// while the tables and reference counters are being flushed and read.
func drawChurn(rt *rapid.T) Case {
	c := drawCaseN(rt, 12, 30, 7)
	c.Loop = true
	c.Hooks = rapid.Bool().Draw(rt, "hooks?")
	if c.Hooks {
		c.HookDelay = drawHookDelay(rt)
	}
	c.Gets, c.Flushes, c.AddNIs = nil, nil, nil
	if rapid.IntRange(0, 2).Draw(rt, "loop-adder") == 0 {
		c.AddNIs = append(c.AddNIs, rapid.IntRange(0, 300).Draw(rt, "add-pause-us"))
	}
	for i := rapid.IntRange(0, 2).Draw(rt, "loop-readers"); i > 0; i-- {
		c.Gets = append(c.Gets, rapid.IntRange(0, 300).Draw(rt, "get-pause-us"))
	}
	for i := rapid.IntRange(1, 2).Draw(rt, "loop-flushers"); i > 0; i-- {
		c.Flushes = append(c.Flushes, rapid.IntRange(0, 400).Draw(rt, "flush-pause-us"))
	}
	return c
}

func drawCaseN(rt *rapid.T, minActs, maxActs, elecOneIn int) Case {
	c := Case{Procs: []int{2, 4, 16}[rapid.IntRange(0, 2).Draw(rt, "procs")], FIB: rapid.Bool().Draw(rt, "fib")}
	ns := rapid.IntRange(2, 4).Draw(rt, "sessions")
	opid := uint64(0)
	for si := 0; si < ns; si++ {
		var acts []Act
		na := rapid.IntRange(minActs, maxActs).Draw(rt, "nacts")
		base := uint64(rapid.IntRange(1, 3).Draw(rt, "idbase")) // deliberately overlapping bases: ties across sessions
		elecN := uint64(0)
		nh, nhg := 0, 0
		// the session's next-hops and groups live in one instance (two sessions in three: DEFAULT),
		// its prefixes in any instance and refer to the groups across instances
		home := "DEFAULT"
		if rapid.IntRange(0, 2).Draw(rt, "home?") == 0 {
			home = hgen.NIs[rapid.IntRange(1, 2).Draw(rt, "home")]
		}
		for a := 0; a < na; a++ {
			y := rapid.IntRange(0, 12).Draw(rt, "yield")
			if y > 8 {
				y = rapid.IntRange(9, 200).Draw(rt, "sleep-us")
			}
			if a == 0 || rapid.IntRange(0, elecOneIn).Draw(rt, "elec?") == 0 {
				elecN++
				id := gen.ID128{Hi: uint64(rapid.IntRange(0, 1).Draw(rt, "hi")), Lo: base + elecN*uint64(rapid.IntRange(1, 2).Draw(rt, "step"))}
				acts = append(acts, Act{K: "elec", ID: &id, Yield: y})
				continue
			}
			nops := rapid.IntRange(1, 5).Draw(rt, "nops")
			var ops []*gen.Op
			for j := 0; j < nops; j++ {
				opid++
				// per-session disjoint keys: next-hops 10*s+1.., groups 10*s+1.., prefixes 10.s.x.0/24
				ni := hgen.NIs[rapid.IntRange(0, 2).Draw(rt, "ni")]
				var o *gen.Op
				switch k := rapid.IntRange(0, 9).Draw(rt, "opkind"); {
				case k < 3 || nh == 0:
					nh++
					o = &gen.Op{NI: home, Kind: gen.NH, Act: gen.ADD, Key: fmt.Sprint(10*(si+1) + nh%4), IP: fmt.Sprintf("192.0.2.%d", opid%250+1)}
				case k < 5:
					nhg++
					o = &gen.Op{NI: home, Kind: gen.NHG, Act: gen.ADD, Key: fmt.Sprint(10*(si+1) + nhg%3), Hops: []gen.Hop{{Index: uint64(10*(si+1) + rapid.IntRange(0, 3).Draw(rt, "hop"))}}}
				case k < 8:
					o = &gen.Op{NI: ni, Kind: gen.V4, Act: gen.ADD, Key: fmt.Sprintf("10.%d.%d.0/24", si+1, rapid.IntRange(0, 3).Draw(rt, "pfx")), Group: uint64(10*(si+1) + rapid.IntRange(0, 2).Draw(rt, "grp")), GroupNI: home}
				case k == 8:
					o = &gen.Op{NI: ni, Kind: gen.V4, Act: gen.DELETE, Key: fmt.Sprintf("10.%d.%d.0/24", si+1, rapid.IntRange(0, 3).Draw(rt, "pfx")), NoPayload: true}
				default:
					o = &gen.Op{NI: home, Kind: gen.NH, Act: gen.DELETE, Key: fmt.Sprint(10*(si+1) + rapid.IntRange(0, 3).Draw(rt, "nhdel")), NoPayload: true}
				}
				o.ID = opid
				ops = append(ops, o)
			}
			acts = append(acts, Act{K: "ops", Ops: ops, Yield: y})
		}
		if rapid.IntRange(0, 4).Draw(rt, "vanish?") == 0 && si > 0 {
			// the session's last request is a batch during which the client goes away
			var ops []*gen.Op
			for j := 0; j < 4; j++ {
				opid++
				ops = append(ops, &gen.Op{ID: opid, NI: home, Kind: gen.NH, Act: gen.ADD, Key: fmt.Sprint(10*(si+1) + j%4), IP: fmt.Sprintf("192.0.2.%d", opid%250+1)})
			}
			acts = append(acts, Act{K: "ops", Ops: ops, Vanish: rapid.IntRange(1, 3).Draw(rt, "vanish-at")})
		}
		c.Sessions = append(c.Sessions, acts)
	}
	for i := rapid.IntRange(0, 2).Draw(rt, "readers"); i > 0; i-- {
		c.Gets = append(c.Gets, rapid.IntRange(1, 6).Draw(rt, "ngets"))
	}
	for i := rapid.IntRange(0, 2).Draw(rt, "flushers"); i > 0; i-- {
		c.Flushes = append(c.Flushes, rapid.IntRange(1, 4).Draw(rt, "nflush"))
	}
	if rapid.IntRange(0, 3).Draw(rt, "add-instances?") == 0 {
		c.AddNIs = append(c.AddNIs, rapid.IntRange(1, 6).Draw(rt, "nadd"))
	}
	c.FlushNI = []string{"all", "DEFAULT", "VRF-A"}[rapid.IntRange(0, 2).Draw(rt, "flushni")]
	c.FlushByID = rapid.Bool().Draw(rt, "flushbyid")
	return c
}

func TestCampaign(t *testing.T) {
	setup()
	col := ev.C()
	t.Run("storm", func(t *testing.T) {
		rapid.Check(t, func(rt *rapid.T) {
			c := Case{Procs: []int{4, 16}[rapid.IntRange(0, 1).Draw(rt, "procs")]}
			n := rapid.IntRange(2, 4).Draw(rt, "sessions")
			c.Sessions = make([][]Act, n)
			for r := rapid.IntRange(20, 60).Draw(rt, "rounds"); r > 0; r-- {
				c.Storm = append(c.Storm, rapid.Permutation([]int{0, 1, 2, 3}[:n]).Draw(rt, "perm"))
			}
			v := runCase(c)
			col.Check(rt, ev.JSON(c), v)
		})
	})
	t.Run("random", func(t *testing.T) {
		rapid.Check(t, func(rt *rapid.T) {
			c := drawCase(rt)
			v := runCase(c)
			col.Check(rt, ev.JSON(c), v)
		})
	})
	t.Run("churn", func(t *testing.T) {
		rapid.Check(t, func(rt *rapid.T) {
			c := drawChurn(rt)
			v := runCase(c)
			col.Check(rt, ev.JSON(c), v)
		})
	})
}
