package c03

import (
	"encoding/json"
	"fmt"
	"testing"

	"pgregory.net/rapid"

	"verifh/internal/ev"
	"verifh/internal/gen"
	"verifh/internal/hgen"
	"verifh/internal/l1"
	"verifh/internal/l2"
)

func TestMain(m *testing.M) { ev.Main(m, "C03", "exploration") }

type Case struct {
	Level string       `json:"level"`
	H     hgen.History `json:"h"`
	Batch []int        `json:"batch,omitempty"`
	Every int          `json:"every,omitempty"` // bulk histories: read the whole RIB back every n-th step only
	// LateVRF (L1) > 0: VRF-B is created at runtime immediately before this step; the history
	// does not mention it earlier
	LateVRF int `json:"latevrf,omitempty"`
}

func setup() {
	c := ev.C()
	c.Rule = "histories that create, retarget (replace to another group / next-hop set / network instance), delete and flush references (rapid, model-aimed, groups may list an index twice) followed by a generated epilogue that attempts DELETE of every group and next-hop top-down, removes the top-level entries, then deletes bottom-up; plus every history of length<=3 (quick) / <=4 (thorough) over a 22-step retarget-heavy alphabet with the same epilogue. Oracle after every operation: each reference counter (hook) == number of installed referrers derived from the model, and every DELETE verdict == 'FAILED exactly when referenced'. Non-trivial = history with a retarget or flush AND >=1 DELETE that must fail AND >=1 DELETE of an installed group/next-hop that must succeed; distinct by FNV-64 of the case JSON. Later additions: renaming onto ids spanning the uint64 range; alias spellings of one prefix (host bits, hex case) in the key universe; clock steps."
	c.Assumptions = []string{"payloads are schema-valid; ids unique per history", "a group that lists the same next-hop index twice references it once"}
}

func runCase(c Case) *ev.Verdict {
	var v *ev.Verdict
	var tr *l1.Trace
	if c.Level == "L2" {
		v, tr = l2.RunHistory(c.H, l2.Opts{P: "C03", Trusted: true, Batch: c.Batch})
	} else {
		v, tr = l1.Run(c.H, l1.Opts{P: "C03", Trusted: true, ObserveEvery: c.Every, LateVRF: c.LateVRF})
	}
	if tr.Retargets > 0 {
		v.Class("retarget")
	}
	if tr.Flushes > 0 {
		v.Class("flush")
	}
	if tr.DeleteMustFail > 0 {
		v.Class("delete-must-fail")
	}
	if tr.DeleteOKInstalled > 0 {
		v.Class("delete-installed-unreferenced")
	}
	if c.Level == "L2" {
		// the L2 runner does not track retargets; count conservatively
		v.NonTrivial = false
		return v
	}
	v.NonTrivial = (tr.Retargets > 0 || tr.Flushes > 0) && tr.DeleteMustFail > 0 && tr.DeleteOKInstalled > 0
	return v
}

func TestReplay(t *testing.T) {
	setup()
	for _, f := range ev.ReplayFiles() {
		var c Case
		if err := ev.LoadCase(f, &c); err != nil {
			t.Fatalf("%s: %v", f, err)
		}
		for i := 0; i < 20; i++ {
			v := runCase(c)
			if fresh := ev.C().Record(ev.JSON(c), v); len(fresh) > 0 {
				t.Errorf("%s: %v", f, fresh)
				break
			}
		}
	}
}

func u(v uint64) *uint64 { return &v }

func del(ni, kind, key string) hgen.Step {
	return hgen.Step{Op: &gen.Op{NI: ni, Kind: kind, Act: gen.DELETE, Key: key, NoPayload: true}}
}

// epilogue attempts to delete everything top-down, then the top-level
// entries, then bottom-up.
func epilogue(nis []string, ids []string, tops map[string][][2]string) []hgen.Step {
	var out []hgen.Step
	for _, ni := range nis {
		for _, id := range ids {
			out = append(out, del(ni, gen.NHG, id))
		}
		for _, id := range ids {
			out = append(out, del(ni, gen.NH, id))
		}
	}
	for _, ni := range nis {
		for _, kk := range tops[ni] {
			out = append(out, del(ni, kk[0], kk[1]))
		}
	}
	for _, ni := range nis {
		for _, id := range ids {
			out = append(out, del(ni, gen.NH, id))
		}
		for _, id := range ids {
			out = append(out, del(ni, gen.NHG, id))
		}
		for _, id := range ids {
			out = append(out, del(ni, gen.NH, id))
		}
	}
	return out
}

func withIDs(steps []hgen.Step) []hgen.Step {
	out := make([]hgen.Step, len(steps))
	id := uint64(0)
	for i, s := range steps {
		if s.Op == nil {
			out[i] = s
			continue
		}
		id++
		o := *s.Op
		o.ID = id
		out[i] = hgen.Step{Op: &o}
	}
	return out
}

func alphabet() []hgen.Step {
	D, A := "DEFAULT", "VRF-A"
	op := func(ni, kind, act, key string, f func(o *gen.Op)) hgen.Step {
		o := &gen.Op{NI: ni, Kind: kind, Act: act, Key: key}
		if f != nil {
			f(o)
		}
		return hgen.Step{Op: o}
	}
	hops := func(ix ...uint64) func(o *gen.Op) {
		return func(o *gen.Op) {
			for _, i := range ix {
				o.Hops = append(o.Hops, gen.Hop{Index: i})
			}
		}
	}
	grp := func(g uint64, ni string) func(o *gen.Op) {
		return func(o *gen.Op) { o.Group, o.GroupNI = g, ni }
	}
	return []hgen.Step{
		op(D, gen.NH, gen.ADD, "1", func(o *gen.Op) { o.IP = "192.0.2.1" }),
		op(D, gen.NH, gen.ADD, "2", func(o *gen.Op) { o.Intf = "eth0" }),
		op(D, gen.NHG, gen.ADD, "1", hops(1)),
		op(D, gen.NHG, gen.ADD, "1", hops(2)),
		op(D, gen.NHG, gen.ADD, "1", hops(1, 2)),
		op(D, gen.NHG, gen.ADD, "1", hops(1, 1)),
		op(D, gen.NHG, gen.REPLACE, "1", hops(2)),
		op(D, gen.NHG, gen.ADD, "2", hops(1)),
		op(D, gen.V4, gen.ADD, "1.0.0.0/8", grp(1, "")),
		op(D, gen.V4, gen.ADD, "1.0.0.0/8", grp(2, "")),
		op(D, gen.V4, gen.ADD, "1.0.0.0/8", grp(1, D)),
		op(D, gen.V4, gen.REPLACE, "1.0.0.0/8", grp(2, "")),
		op(A, gen.V4, gen.ADD, "2.2.0.0/16", grp(1, D)),
		op(A, gen.V4, gen.ADD, "2.2.0.0/16", grp(2, D)),
		op(D, gen.MPLS, gen.ADD, "100", grp(1, "")),
		del(D, gen.V4, "1.0.0.0/8"),
		del(A, gen.V4, "2.2.0.0/16"),
		del(D, gen.NHG, "1"),
		del(D, gen.NH, "1"),
		{Flush: []string{D}},
		{Flush: []string{A}},
		{Flush: []string{D, A, "VRF-B"}},
	}
}

func TestCampaign(t *testing.T) {
	setup()
	col := ev.C()
	t.Run("exhaustive-small-scope", func(t *testing.T) {
		maxLen := ev.Pick("C03_EXH_LEN", 3, 4)
		al := alphabet()
		epi := epilogue([]string{"DEFAULT"}, []string{"1", "2"}, map[string][][2]string{"DEFAULT": {{gen.V4, "1.0.0.0/8"}, {gen.MPLS, "100"}, {gen.V4 + "@VRF-A", "2.2.0.0/16"}}})
		// the third top-level entry lives in VRF-A
		for i := range epi {
			if epi[i].Op.Kind == gen.V4+"@VRF-A" {
				epi[i].Op.Kind, epi[i].Op.NI = gen.V4, "VRF-A"
			}
		}
		sk, ns := ev.Shard()
		for n := 1; n <= maxLen; n++ {
			total := 1
			for i := 0; i < n; i++ {
				total *= len(al)
			}
			cnt, bad := 0, 0
			for idx := 0; idx < total; idx++ {
				if idx%ns != sk {
					continue
				}
				var steps []hgen.Step
				x := idx
				for i := 0; i < n; i++ {
					steps = append(steps, al[x%len(al)])
					x /= len(al)
				}
				steps = append(steps, epi...)
				c := Case{Level: "L1", H: hgen.History{FwdRefs: true, Steps: withIDs(steps)}}
				v := runCase(c)
				cnt++
				if fresh := col.Record(ev.JSON(c), v); len(fresh) > 0 {
					bad++
					if bad <= 3 {
						t.Errorf("%s: %v", ev.JSON(c), fresh)
					}
				}
			}
			col.Scope(fmt.Sprintf("all histories of length %d over the 22-step retarget alphabet + delete-everything epilogue", n), cnt, true)
		}
	})
	t.Run("random", func(t *testing.T) {
		cfg := hgen.DefaultCfg()
		cfg.DupHops = 12
		cfg.FlushPct = 4
		cfg.MinLen, cfg.MaxLen = 6, 30
		tops := map[string][][2]string{}
		for _, ni := range hgen.NIs {
			for _, p := range hgen.V4s {
				tops[ni] = append(tops[ni], [2]string{gen.V4, p})
			}
			for _, p := range hgen.V6s {
				tops[ni] = append(tops[ni], [2]string{gen.V6, p})
			}
			for _, l := range hgen.Labels {
				tops[ni] = append(tops[ni], [2]string{gen.MPLS, fmt.Sprint(l)})
			}
		}
		epi := epilogue(hgen.NIs, []string{"1", "2", "3", "4"}, tops)
		rapid.Check(t, func(rt *rapid.T) {
			if rapid.IntRange(0, 29).Draw(rt, "bulk?") == 7 {
				// dozens of groups / next-hops, a hundred-odd referrers, retargets, refused and
				// accepted deletes, flush, delete-everything epilogue (built into the bulk history)
				c := Case{Level: "L1", H: hgen.DrawBulk(rt, hgen.DefaultBulk()), Every: 16}
				v := runCase(c)
				v.Class("bulk-history")
				col.Check(rt, ev.JSON(c), v)
				return
			}
			h := hgen.DrawHistory(rt, cfg)
			h.Steps = append(h.Steps, epi...)
			// renumber: the epilogue continues the id sequence
			id := uint64(0)
			for i, s := range h.Steps {
				if s.Op != nil {
					id++
					o := *s.Op
					o.ID = id
					h.Steps[i] = hgen.Step{Op: &o}
				}
			}
			var wild string
			h, wild = hgen.MaybeRename(rt, h, 30)
			c := Case{Level: "L1", H: h}
			if wild == "" && rapid.IntRange(0, 3).Draw(rt, "late-vrf?") == 0 && len(h.Steps) > len(epi)+3 {
				// the last instance is created while the RIB is in use (after some references and
				// possibly a flush exist), and is then referred to across instances
				k := rapid.IntRange(2, len(h.Steps)-len(epi)-1).Draw(rt, "late-vrf")
				c.H, c.LateVRF = hgen.WithoutEarly(h, hgen.NIs[len(hgen.NIs)-1], k)
				if c.LateVRF == 0 {
					c.LateVRF = 1
				}
			} else if rapid.IntRange(0, 5).Draw(rt, "l2?") == 0 {
				c.Level = "L2"
				c.Batch = []int{rapid.IntRange(1, 6).Draw(rt, "batch")}
			}
			v := runCase(c)
			if wild != "" {
				v.Class("renamed:" + wild)
			}
			col.Check(rt, ev.JSON(c), v)
		})
	})
	col.MinimizeAll(minimize)
}

func minimize(sig string, cs []byte) []byte {
	var c Case
	if err := json.Unmarshal(cs, &c); err != nil {
		return nil
	}
	fails := func(h hgen.History) bool {
		cc := c
		cc.H = h
		for i := 0; i < 4; i++ {
			if runCase(cc).HasSig(sig) {
				return true
			}
		}
		return false
	}
	fails = ev.Bounded(fails)
	if !fails(c.H) {
		return nil
	}
	c.H = hgen.Minimize(c.H, fails)
	return ev.JSON(c)
}
