#!/bin/bash
# usage: tools/try_seed.sh <seed-dir-under-/tmp or /verif/seeded/<id>> <check ids...>
# Applies <dir>/patch.diff to /repo, runs the given checks (quick), and restores /repo.
set -u
dir=$1; shift
cd /repo || exit 2
if [ -n "$(git status --porcelain)" ]; then echo "/repo is not clean"; exit 2; fi
git apply "$dir/patch.diff" || { echo "patch does not apply"; exit 2; }
cd /verif
for c in "$@"; do
  start=$(date +%s)
  out=$(VERIF_EVIDENCE_DIR=/verif/out/trial-evidence VERIF_SEED=${VERIF_SEED:-1} ./check $c ${TIER:-quick} 2>&1 | grep -v "^KNOWN-FINDING" | grep "^VIOLATION\|^$c \|^violation\|INCONCLUSIVE" | cut -c1-260)
  echo "== $c ($(( $(date +%s) - start ))s)"; echo "$out" | tail -6
done
git -C /repo checkout -- . && git -C /repo status --short
