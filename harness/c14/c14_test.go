package c14

import (
	"context"
	"encoding/json"
	"errors"
	"fmt"
	"io"
	"runtime"
	"strings"
	"testing"
	"time"

	"google.golang.org/grpc/codes"
	"google.golang.org/grpc/status"
	"pgregory.net/rapid"

	spb "github.com/openconfig/gribi/v1/proto/service"
	"github.com/openconfig/gribigo/client"

	"verifh/internal/cstub"
	"verifh/internal/drive"
	"verifh/internal/ev"
	"verifh/internal/gen"
)

func TestMain(m *testing.M) {
	client.BusyLoopDelay = time.Millisecond
	cstub.Watchdog = 10 * time.Second
	ev.Main(m, "C14", "fault_enumeration")
}

// Case: a scripted exchange of NReq requests (one operation each) answered in
// order by the server, with one stream fault.
type Case struct {
	FIB  bool `json:"fib"`
	NReq int  `json:"nreq"`
	// Side: "send" (the At-th Send call of the client fails), "send-stalled" (the At-th Send
	// blocks by flow control and then fails), "recv" (after At responses the stream returns an error)
	Side  string `json:"side"`
	At    int    `json:"at"`
	Class string `json:"class"` // EOF | Unavailable | Internal | Canceled
	// Burst further requests queued by the application around the fault.
	Burst int `json:"burst"`
	// Epilogue: "close" | "reset-reconnect"
	Epilogue string `json:"epilogue"`
	// Waiters: application goroutines that are already inside AwaitConverged when the fault
	// happens (they were started while requests were outstanding)
	Waiters int `json:"waiters,omitempty"`
	// Concurrent (receive side): the burst is queued by another goroutine and the stream
	// breaks while it is in progress (parked on the full buffer, or done), instead of after
	Concurrent bool `json:"concurrent,omitempty"`
	// Rep > 0: the scenario is run up to Rep times on fresh clients, stopping at the first
	// finding (interleavings of the application's goroutines with the client's are the Go
	// scheduler's: a lock-order problem shows only in some runs)
	Rep int `json:"rep,omitempty"`
	// Ops > 1: every request of the script and of the burst carries this many operations
	// (a client with thousands of operations outstanding when the stream breaks)
	Ops int `json:"ops,omitempty"`
	// Linger (reset-reconnect) > 0: after the fresh exchange converged the new session is left
	// alone for this many milliseconds of real time; then one more exchange must converge and
	// Done must still be silent (nothing armed during the teardown may hit the new stream later)
	Linger int `json:"linger,omitempty"`
	// QFirst (reset-reconnect): the request for the new session is queued after Reset but
	// before Connect (it waits in the client until StartSending) instead of after StartSending
	QFirst bool `json:"qfirst,omitempty"`
}

func setup() {
	c := ev.C()
	c.Rule = "a scripted exchange (handshake + NReq requests answered in order) with one stream fault: injected at every message index on the send side (the At-th Send fails; or stalls under flow control and then fails) and on the receive side (after At responses), for each status class {EOF, Unavailable, Internal, Canceled}, while the application queues a burst of 0..12 further requests (after the fault, or from another goroutine so that the stream breaks while the burst is in progress), with 0-2 application goroutines already inside AwaitConverged when the fault happens, followed by Close, or by Reset + ReplaceStub + Connect + a further exchange. The full product over small parameters is enumerated (quick: NReq<=3, burst in {0,1,6,12}; thorough: NReq<=6, burst 0..12) plus rapid-drawn cases. Oracle: Done() fires; every Q call returns; the error is recorded in Status(); AwaitConverged returns a *ClientErr (never nil, never only the context error) within the watchdog, and so does every call that was already waiting; Close/Reset return; no goroutine with gribigo/client frames is left (goroutine dump census); after Reset+Connect the client has no pending operations, results or errors, the new stream carries exactly the messages of a fresh client (parameters, election id, the new request) and a new exchange converges. A clean EOF on the receive side is not an error: then only termination, Q, Close/Reset and the census are asserted, and AwaitConverged must not report convergence while operations are unanswered. Non-trivial = burst >= 1 at the time of the fault, or fault index > 0; distinct by FNV-64 of the case JSON. Later additions: many-outstanding scope (requests of 255-8193 operations); linger scope (one case per shard: the re-connected session left alone 1-11 s, thorough 61 s)."
	c.Assumptions = []string{"the stub obeys the gRPC client-stream contract: a failed Send returns io.EOF and the status is delivered by Recv; after CloseSend the server ends the stream with io.EOF"}
}

func classErr(c string) error {
	switch c {
	case "EOF":
		return io.EOF
	case "Unavailable":
		return status.Error(codes.Unavailable, "transport is closing")
	case "Internal":
		return status.Error(codes.Internal, "stream terminated by RST_STREAM")
	}
	return status.Error(codes.Canceled, "context canceled")
}

func opReq(id uint64) *spb.ModifyRequest { return opReqN(id, 1) }

// extraID is the id of the j-th further operation (j >= 1) of the request whose first operation is id.
func extraID(id uint64, j int) uint64 { return 1_000_000*id + uint64(j) }

func opReqN(id uint64, n int) *spb.ModifyRequest {
	o := &gen.Op{ID: id, NI: "DEFAULT", Kind: gen.NH, Act: gen.ADD, Key: fmt.Sprint(id%4 + 1), IP: "192.0.2.1", Elec: &gen.ID128{Lo: 1}}
	r := &spb.ModifyRequest{Operation: []*spb.AFTOperation{o.Proto()}}
	for j := 1; j < n; j++ {
		x := &gen.Op{ID: extraID(id, j), NI: "DEFAULT", Kind: gen.NH, Act: gen.ADD, Key: fmt.Sprint(j%4 + 1), IP: "192.0.2.1", Elec: &gen.ID128{Lo: 1}}
		r.Operation = append(r.Operation, x.Proto())
	}
	return r
}

// within runs f and reports whether it returned within the watchdog.
func within(f func()) bool {
	done := make(chan struct{})
	go func() { defer close(done); f() }()
	select {
	case <-done:
		return true
	case <-time.After(cstub.Watchdog):
		return false
	}
}

// clientGoroutines lists goroutines with gribigo/client frames that are not in ignore.
func clientGoroutines(ignore map[int64]bool) []*drive.G {
	var out []*drive.G
	for _, g := range drive.Parse(drive.Dump()) {
		if ignore[g.ID] {
			continue
		}
		if g.Has("github.com/openconfig/gribigo/client.") {
			out = append(out, g)
		}
	}
	return out
}

func census(ignore map[int64]bool) (leak string) {
	deadline := time.Now().Add(cstub.Watchdog)
	for {
		gs := clientGoroutines(ignore)
		if len(gs) == 0 {
			return ""
		}
		if time.Now().After(deadline) {
			var s []string
			for _, g := range gs {
				fr := ""
				for _, f := range g.Frames {
					if strings.Contains(f, "gribigo/client.") {
						fr = strings.TrimPrefix(f, "github.com/openconfig/")
						break
					}
				}
				s = append(s, fr+"["+g.State+"]")
			}
			return strings.Join(s, "+")
		}
		runtime.Gosched()
		time.Sleep(100 * time.Microsecond)
	}
}

// respond answers request i (1-based) the way a conformant server does.
func respond(st *cstub.Stream, id uint64, fib bool) int { return respondN(st, id, fib, 1) }

func respondN(st *cstub.Stream, id uint64, fib bool, n int) int {
	if n > 1 {
		m := &spb.ModifyResponse{}
		for j := 0; j < n; j++ {
			x := id
			if j > 0 {
				x = extraID(id, j)
			}
			m.Result = append(m.Result, &spb.AFTResult{Id: x, Status: spb.AFTResult_RIB_PROGRAMMED})
			if fib {
				m.Result = append(m.Result, &spb.AFTResult{Id: x, Status: spb.AFTResult_FIB_PROGRAMMED})
			}
		}
		st.Respond(m)
		return 1
	}
	if fib {
		st.Respond(&spb.ModifyResponse{Result: []*spb.AFTResult{{Id: id, Status: spb.AFTResult_RIB_PROGRAMMED}, {Id: id, Status: spb.AFTResult_FIB_PROGRAMMED}}})
	} else {
		st.Respond(&spb.ModifyResponse{Result: []*spb.AFTResult{{Id: id, Status: spb.AFTResult_RIB_PROGRAMMED}}})
	}
	return 1
}

func runCase(c Case) *ev.Verdict {
	if c.Rep > 0 {
		one := c
		one.Rep = 0
		var v *ev.Verdict
		for i := 0; i < c.Rep; i++ {
			v = runCase(one)
			if len(v.Findings) > 0 || v.Inconclusive != "" {
				break
			}
		}
		v.Class("repeated-scenario")
		return v
	}
	v := &ev.Verdict{}
	fail := func(sig, f string, a ...any) { v.Fail("C14/"+sig, f, a...) }
	ignore := map[int64]bool{}
	for _, g := range clientGoroutines(nil) {
		ignore[g.ID] = true // left behind by an earlier (failed) case
	}
	stub := &cstub.Stub{}
	ferr := classErr(c.Class)
	switch c.Side {
	case "send":
		stub.Next = func(s *cstub.Stream) { s.FailSendAt = c.At; s.SendErr = ferr }
	case "send-stalled":
		stub.Next = func(s *cstub.Stream) { s.BlockSendAt = c.At }
	}
	opts := []client.Opt{client.ElectedPrimaryClient(&spb.Uint128{Low: 1}), client.PersistEntries()}
	if c.FIB {
		opts = append(opts, client.FIBACK())
	}
	cl, err := client.New(opts...)
	if err != nil {
		fail("new", "%v", err)
		return v
	}
	cl.UseStub(stub)
	ctx, cancel := context.WithCancel(context.Background())
	defer cancel()
	if err := cl.Connect(ctx); err != nil {
		fail("connect", "%v", err)
		return v
	}
	cl.StartSending()
	st := stub.Stream(0)
	nextID := uint64(0)
	q := func() bool {
		nextID++
		id := nextID
		return within(func() { cl.Q(opReqN(id, max(1, c.Ops))) })
	}
	// the scripted exchange: handshake (2 messages) + NReq requests; the server
	// answers each message once it has arrived
	total := 2 + c.NReq
	responses := 0
	faulted := false
	fault := func() {
		faulted = true
		switch c.Side {
		case "recv":
			st.Fail(ferr)
		case "send-stalled":
			st.ReleaseWithError(ferr)
		}
	}
	burst := func() bool {
		for i := 0; i < c.Burst; i++ {
			if !q() {
				fail("q-blocks", "a Q call did not return within the watchdog (burst request %d of %d, fault %s/%s at %d)", i+1, c.Burst, c.Side, c.Class, c.At)
				return false
			}
		}
		return true
	}
	burstDone := make(chan bool, 1)
	burstAsync := false
	// early waiters: AwaitConverged callers that are already waiting when the stream breaks
	waitersDone := make(chan error, 8)
	waitersStarted := 0
	wctx, wcancel := context.WithCancel(context.Background())
	defer wcancel()
	startWaiters := func() {
		for ; waitersStarted < c.Waiters; waitersStarted++ {
			started := make(chan struct{})
			go func() {
				close(started)
				waitersDone <- cl.AwaitConverged(wctx)
			}()
			<-started
		}
		if c.Waiters == 0 {
			return
		}
		// let them get into AwaitConverged (parked on its lock, polling, or already returned):
		// a bounded number of looks at the goroutine dump, no verdict depends on it
		for look := 0; look < 200; look++ {
			n := 0
			for _, g := range drive.Parse(drive.Dump()) {
				if g.Has("client.(*Client).AwaitConverged") {
					n++
				}
			}
			if n+len(waitersDone) >= waitersStarted {
				break
			}
			runtime.Gosched()
		}
	}
	for m := 1; m <= total && !faulted; m++ {
		if m > 2 {
			if !q() {
				fail("q-blocks", "Q of scripted request %d did not return", m-2)
				return v
			}
		}
		switch c.Side {
		case "send":
			if m == c.At {
				// this Send fails; the application keeps queueing meanwhile
				if !st.WaitSendCalls(m) {
					fail("send-not-attempted", "message %d was never handed to Send", m)
					return v
				}
				faulted = true
				startWaiters()
				if !burst() {
					return v
				}
				continue
			}
		case "send-stalled":
			if m == c.At {
				if !st.WaitSendCalls(m) {
					fail("send-not-attempted", "message %d was never handed to Send", m)
					return v
				}
				// the sender is stalled by flow control: the application queues its burst
				// (legitimately blocking once the buffer is full), then the stream breaks
				burstAsync = true
				go func() { burstDone <- burst() }()
				// give the burst the chance to fill the buffer: wait until the
				// application goroutine is parked or done
				waitParkedOrDone(burstDone)
				startWaiters()
				fault()
				continue
			}
		}
		if !st.WaitSent(m) {
			fail("message-not-sent", "message %d did not reach the server", m)
			return v
		}
		if c.Side == "recv" && responses == c.At {
			if c.Concurrent {
				// the waiters are there first, so that they contend with the queueing calls
				startWaiters()
				burstAsync = true
				go func() { burstDone <- burst() }()
				waitParkedOrDone(burstDone)
				fault()
				break
			}
			startWaiters()
			fault()
			if !burst() {
				return v
			}
			break
		}
		switch m {
		case 1:
			st.Respond(&spb.ModifyResponse{SessionParamsResult: &spb.SessionParametersResult{}})
		case 2:
			st.Respond(&spb.ModifyResponse{ElectionId: &spb.Uint128{Low: 1}})
		default:
			respondN(st, uint64(m-2), c.FIB, max(1, c.Ops))
		}
		responses++
	}
	if !faulted {
		// the fault index lies behind the scripted exchange: inject it now
		if c.Side == "recv" {
			if !st.WaitRecvCalls(responses + 1) {
				fail("receiver-stuck", "the receiver did not process %d responses", responses)
				return v
			}
			startWaiters()
			fault()
			if !burst() {
				return v
			}
		} else {
			// no send fault happened (At > number of messages): plain exchange
			v.Class("no-fault")
		}
	}
	if burstAsync && faulted {
		select {
		case ok := <-burstDone:
			if !ok {
				return v
			}
		case <-time.After(cstub.Watchdog):
			d := drive.Dump()
			fail("q-blocks", "Q calls of the burst (%d requests queued by another goroutine while the stream broke: %s #%d, %s; %d AwaitConverged callers waiting) never returned after the stream failed\n%s", c.Burst, c.Side, c.At, c.Class, c.Waiters, trim(d))
			// the application goroutine is leaked; unblock nothing further
			return v
		}
	}
	cleanEOF := c.Side == "recv" && c.Class == "EOF"
	if faulted && waitersStarted > 0 {
		v.Class("await-already-waiting-at-the-fault")
		if cleanEOF {
			// nothing failed: the callers legitimately wait until their context ends - now
			wcancel()
		}
		for i := 0; i < waitersStarted; i++ {
			select {
			case werr := <-waitersDone:
				var ce *client.ClientErr
				if werr != nil && !errors.As(werr, &ce) && !cleanEOF {
					fail("await-no-client-error", "an AwaitConverged call that was waiting when the stream failed (%s/%s at %d, burst %d) returned %v instead of the recorded errors", c.Side, c.Class, c.At, c.Burst, werr)
				}
			case <-time.After(2 * cstub.Watchdog):
				fail("await-blocks", "an AwaitConverged call that was already waiting when the stream failed (%s/%s at %d, burst %d, concurrent burst %v) did not return\n%s", c.Side, c.Class, c.At, c.Burst, c.Concurrent, trim(drive.Dump()))
				return v
			}
		}
	}
	if faulted {
		// Done is signalled
		select {
		case <-cl.Done():
		case <-time.After(cstub.Watchdog):
			fail("done-not-signalled", "Done() was not signalled after the stream failed (%s/%s at %d)", c.Side, c.Class, c.At)
			return v
		}
		// the error is recorded and AwaitConverged returns it
		actx, acancel := context.WithTimeout(context.Background(), cstub.Watchdog)
		var aerr error
		if cleanEOF {
			acancel()
			actx, acancel = context.WithTimeout(context.Background(), 5*time.Millisecond)
		}
		if !within(func() { aerr = cl.AwaitConverged(actx) }) {
			acancel()
			fail("await-blocks", "AwaitConverged did not return within the watchdog after the stream failed (%s/%s at %d, burst %d)\n%s", c.Side, c.Class, c.At, c.Burst, trim(drive.Dump()))
			return v
		}
		acancel()
		var ce *client.ClientErr
		pend, _ := cl.Pending()
		switch {
		case cleanEOF:
			if aerr == nil && len(pend) > 0 {
				fail("converged-with-pending", "after a clean EOF AwaitConverged reported convergence with %d pending requests", len(pend))
			}
		case aerr == nil:
			fail("await-reports-convergence", "the stream failed (%s/%s at %d) but AwaitConverged returned nil", c.Side, c.Class, c.At)
		case !errors.As(aerr, &ce):
			fail("await-no-client-error", "the stream failed (%s/%s at %d) but AwaitConverged returned %v instead of the recorded errors", c.Side, c.Class, c.At, aerr)
		}
		sts, err := cl.Status()
		if err != nil {
			fail("status-error", "%v", err)
		} else if !cleanEOF && len(sts.SendErrs)+len(sts.ReadErrs) == 0 {
			fail("error-not-recorded", "the stream failed (%s/%s at %d) but Status() shows no send or receive error", c.Side, c.Class, c.At)
		}
	}
	if len(v.Findings) > 0 {
		return v
	}
	switch c.Epilogue {
	case "reset-reconnect":
		if !within(cl.Reset) {
			fail("reset-blocks", "Reset did not return (%s/%s at %d, burst %d)\n%s", c.Side, c.Class, c.At, c.Burst, trim(drive.Dump()))
			return v
		}
		if leak := census(ignore); leak != "" {
			fail("goroutine-left:"+leak, "after Reset goroutines of the client are still there: %s", leak)
			return v
		}
		pend, _ := cl.Pending()
		res, _ := cl.Results()
		sts, _ := cl.Status()
		if len(pend) != 0 || len(res) != 0 || len(sts.SendErrs) != 0 || len(sts.ReadErrs) != 0 {
			fail("reset-leaves-state", "after Reset: %d pending, %d results, send errors %v, receive errors %v", len(pend), len(res), sts.SendErrs, sts.ReadErrs)
			return v
		}
		stub2 := &cstub.Stub{}
		if err := cl.ReplaceStub(stub2); err != nil {
			fail("replace-stub", "%v", err)
			return v
		}
		if c.QFirst {
			if !within(func() { cl.Q(opReq(1000)) }) {
				fail("q-blocks", "Q after Reset (before Connect) did not return")
				return v
			}
			if p, _ := cl.Pending(); len(p) != 1 {
				fail("queued-before-connect-not-pending", "an operation queued after Reset and before Connect is not pending: Pending() has %d entries (%s/%s at %d)", len(p), c.Side, c.Class, c.At)
				return v
			}
			v.Class("queued-between-reset-and-connect")
		}
		if err := cl.Connect(ctx); err != nil {
			fail("reconnect", "%v", err)
			return v
		}
		cl.StartSending()
		st2 := stub2.Stream(0)
		if !c.QFirst && !within(func() { cl.Q(opReq(1000)) }) {
			fail("q-blocks", "Q after Reset+Connect did not return")
			return v
		}
		if !st2.WaitSent(3) {
			fail("reconnect-not-sending", "after Reset+Connect the new stream received %d of 3 messages", len(st2.SentCopy()))
			return v
		}
		// a fresh client sends its parameters, its election id and the new request - nothing else
		freshStream := func(when string) bool {
			sent := st2.SentCopy()
			if len(sent) != 3 || sent[0].GetParams() == nil || sent[1].GetElectionId() == nil || len(sent[2].GetOperation()) != 1 || sent[2].GetOperation()[0].GetId() != 1000 {
				fail("reconnect-stale-messages", "%s the new stream carries %d messages, want [parameters, election id, operation 1000]: %v (%s/%s at %d, burst %d)", when, len(sent), sent, c.Side, c.Class, c.At, c.Burst)
				return false
			}
			return true
		}
		if !freshStream("after Reset+Connect and one queued request") {
			return v
		}
		st2.Respond(&spb.ModifyResponse{SessionParamsResult: &spb.SessionParametersResult{}})
		st2.Respond(&spb.ModifyResponse{ElectionId: &spb.Uint128{Low: 1}})
		respond(st2, 1000, c.FIB)
		actx, acancel := context.WithTimeout(context.Background(), cstub.Watchdog)
		aerr := cl.AwaitConverged(actx)
		acancel()
		if aerr != nil {
			fail("reconnect-not-converging", "after Reset+Connect a fresh exchange does not converge: %v", aerr)
			return v
		}
		res, _ = cl.Results()
		wantRes := 3
		if c.FIB {
			wantRes = 4 // RIB and FIB acknowledgement
		}
		if !freshStream("after the fresh exchange converged") {
			return v
		}
		if len(res) != wantRes {
			fail("reconnect-stale-results", "after Reset+Connect and one exchange Results() has %d entries, want %d: %v", len(res), wantRes, res)
		}
		if c.Linger > 0 && len(v.Findings) == 0 {
			time.Sleep(time.Duration(c.Linger) * time.Millisecond)
			v.Class(fmt.Sprintf("new-session-left-alone-for-%dms", c.Linger))
			select {
			case <-cl.Done():
				stt, _ := cl.Status()
				fail("new-session-ended-by-itself", "%d ms after Reset+Connect the new session signalled Done although the server did nothing: send %v recv %v", c.Linger, stt.SendErrs, stt.ReadErrs)
				return v
			default:
			}
			if !within(func() { cl.Q(opReq(1001)) }) {
				fail("q-blocks", "Q %d ms after Reset+Connect did not return", c.Linger)
				return v
			}
			if !st2.WaitSent(4) {
				fail("reconnect-not-sending", "%d ms after Reset+Connect a further request did not reach the server", c.Linger)
				return v
			}
			respond(st2, 1001, c.FIB)
			actx, acancel := context.WithTimeout(context.Background(), cstub.Watchdog)
			aerr := cl.AwaitConverged(actx)
			acancel()
			if aerr != nil {
				fail("reconnect-not-converging", "%d ms after Reset+Connect a further exchange does not converge: %v", c.Linger, aerr)
				return v
			}
		}
		fallthrough
	default:
		var cerr error
		if !within(func() { cerr = cl.Close() }) {
			fail("close-blocks", "Close did not return (%s/%s at %d, burst %d)\n%s", c.Side, c.Class, c.At, c.Burst, trim(drive.Dump()))
			return v
		}
		_ = cerr
		if leak := census(ignore); leak != "" {
			fail("goroutine-left:"+leak, "after Close goroutines of the client are still there: %s", leak)
		}
	}
	v.Class("side:" + c.Side)
	v.Class("class:" + c.Class)
	v.Class("epilogue:" + c.Epilogue)
	v.NonTrivial = faulted && (c.Burst >= 1 || c.At > 0)
	return v
}

func trim(d string) string {
	var keep []string
	for _, blk := range strings.Split(d, "\n\n") {
		if strings.Contains(blk, "gribigo/client") {
			keep = append(keep, blk)
		}
	}
	s := strings.Join(keep, "\n\n")
	if len(s) > 5000 {
		s = s[:5000]
	}
	return s
}

// waitParkedOrDone waits until the burst goroutine finished or all client
// application calls are parked (the buffer is full).
func waitParkedOrDone(done chan bool) {
	deadline := time.Now().Add(cstub.Watchdog)
	for time.Now().Before(deadline) {
		select {
		case ok := <-done:
			done <- ok
			return
		default:
		}
		parked := false
		for _, g := range drive.Parse(drive.Dump()) {
			if g.Has("gribigo/client.(*Client).q") && (g.State == "chan send" || g.State == "select") {
				parked = true
			}
		}
		if parked {
			return
		}
		runtime.Gosched()
		time.Sleep(50 * time.Microsecond)
	}
}

func TestReplay(t *testing.T) {
	setup()
	for _, f := range ev.ReplayFiles() {
		var c Case
		if err := ev.LoadCase(f, &c); err != nil {
			t.Fatalf("%s: %v", f, err)
		}
		for i := 0; i < 3; i++ {
			v := runCase(c)
			if fresh := ev.C().Record(ev.JSON(c), v); len(fresh) > 0 {
				t.Errorf("%s: %v", f, fresh)
				break
			}
		}
	}
}

var classes = []string{"EOF", "Unavailable", "Internal", "Canceled"}
var sides = []string{"send", "send-stalled", "recv"}

func TestCampaign(t *testing.T) {
	setup()
	col := ev.C()
	t.Run("enumerate", func(t *testing.T) {
		maxReq := ev.Pick("C14_MAXREQ", 3, 6)
		bursts := []int{0, 1, 6, 12}
		if ev.Thorough() {
			bursts = nil
			for b := 0; b <= 12; b++ {
				bursts = append(bursts, b)
			}
		}
		sk, ns := ev.Shard()
		idx, cnt, bad := 0, 0, 0
		for nreq := 0; nreq <= maxReq; nreq++ {
			for _, side := range sides {
				lo := 1
				if side == "recv" {
					lo = 0
				}
				for at := lo; at <= 2+nreq; at++ {
					for _, class := range classes {
						for _, b := range bursts {
							for _, epi := range []string{"close", "reset-reconnect"} {
								for _, fib := range []bool{false, true} {
									idx++
									if idx%ns != sk {
										continue
									}
									if fib && (nreq != maxReq) {
										continue
									}
									c := Case{FIB: fib, NReq: nreq, Side: side, At: at, Class: class, Burst: b, Epilogue: epi}
									// every third case has AwaitConverged callers already waiting at the fault
									if idx%3 == 0 {
										c.Waiters = 1 + idx%2
									}
									c.Concurrent = side == "recv" && idx%2 == 0
									v := runCase(c)
									cnt++
									if fresh := col.Record(ev.JSON(c), v); len(fresh) > 0 {
										bad++
										if bad <= 3 {
											t.Errorf("%s: %v", ev.JSON(c), fresh)
										}
									}
								}
							}
						}
					}
				}
			}
		}
		col.Scope(fmt.Sprintf("product NReq<=%d x side x every fault index x class x burst %v x epilogue", maxReq, bursts), cnt, true)
	})
	t.Run("contention", func(t *testing.T) {
		// several AwaitConverged callers poll while another goroutine queues a long burst and the
		// stream then breaks: repeated, because the order in which the application's goroutines
		// and the client's sender/receiver take the client's locks is the scheduler's
		rapid.Check(t, func(rt *rapid.T) {
			if rapid.IntRange(0, 3).Draw(rt, "run?") != 0 {
				return
			}
			c := Case{FIB: rapid.Bool().Draw(rt, "fib"), NReq: rapid.IntRange(0, 3).Draw(rt, "nreq"), Side: "recv", Concurrent: true}
			c.At = rapid.IntRange(2, 2+c.NReq).Draw(rt, "at")
			c.Class = classes[rapid.IntRange(1, 3).Draw(rt, "class")]
			c.Burst = rapid.IntRange(7, 12).Draw(rt, "burst")
			c.Waiters = rapid.IntRange(2, 4).Draw(rt, "waiters")
			c.Epilogue = "close"
			c.Rep = ev.Pick("C14_CONTENTION_REP", 25, 100)
			v := runCase(c)
			col.Check(rt, ev.JSON(c), v)
		})
	})
	t.Run("linger", func(t *testing.T) {
		// one case per shard: after Reset+Connect the new session is left alone for seconds of
		// real time (timers armed during the teardown have fired by then) and must still work
		ls := []int{1100, 2100, 5100, 6100, 10100, 11000}
		if ev.Thorough() {
			ls = append(ls, 15100, 30100, 31000, 61000)
		}
		sk, _ := ev.Shard()
		l := ls[(sk+int(ev.Seed()))%len(ls)]
		for _, side := range []string{"recv"} {
			c := Case{FIB: sk%2 == 0, NReq: 2, Side: side, At: 3, Class: classes[1+sk%3], Burst: 1, Epilogue: "reset-reconnect", Linger: l}
			v := runCase(c)
			if fresh := col.Record(ev.JSON(c), v); len(fresh) > 0 {
				t.Errorf("%s: %v", ev.JSON(c), fresh)
			}
		}
	})
	t.Run("many-outstanding", func(t *testing.T) {
		// requests of K operations each (K around powers of two up to 8193): thousands of
		// operations are outstanding when the stream breaks, and more are queued afterwards
		ks := []int{255, 256, 257, 1023, 1024, 1025, 2047, 2048, 2049, 4095, 4096, 4097, 8191, 8192, 8193}
		rapid.Check(t, func(rt *rapid.T) {
			if rapid.IntRange(0, 3).Draw(rt, "run?") != 0 {
				return
			}
			c := Case{FIB: rapid.Bool().Draw(rt, "fib"), NReq: rapid.IntRange(1, 4).Draw(rt, "nreq"), Ops: ks[rapid.IntRange(0, len(ks)-1).Draw(rt, "ops")]}
			c.Side = sides[rapid.IntRange(0, 2).Draw(rt, "side")]
			c.At = rapid.IntRange(2, 2+c.NReq).Draw(rt, "at")
			c.Class = classes[rapid.IntRange(0, 3).Draw(rt, "class")]
			c.Burst = rapid.IntRange(1, 4).Draw(rt, "burst")
			c.Epilogue = []string{"close", "reset-reconnect"}[rapid.IntRange(0, 1).Draw(rt, "epilogue")]
			c.Waiters = rapid.IntRange(0, 1).Draw(rt, "waiters")
			v := runCase(c)
			v.Class("many-outstanding")
			col.Check(rt, ev.JSON(c), v)
		})
	})
	t.Run("random", func(t *testing.T) {
		rapid.Check(t, func(rt *rapid.T) {
			c := Case{FIB: rapid.Bool().Draw(rt, "fib"), NReq: rapid.IntRange(0, 10).Draw(rt, "nreq")}
			c.Side = sides[rapid.IntRange(0, 2).Draw(rt, "side")]
			c.At = rapid.IntRange(0, 2+c.NReq).Draw(rt, "at")
			if c.Side != "recv" && c.At == 0 {
				c.At = 1
			}
			c.Class = classes[rapid.IntRange(0, 3).Draw(rt, "class")]
			c.Burst = rapid.IntRange(0, 12).Draw(rt, "burst")
			c.Epilogue = []string{"close", "reset-reconnect"}[rapid.IntRange(0, 1).Draw(rt, "epilogue")]
			c.Waiters = rapid.IntRange(0, 2).Draw(rt, "waiters")
			c.QFirst = c.Epilogue == "reset-reconnect" && rapid.Bool().Draw(rt, "qfirst")
			c.Concurrent = c.Side == "recv" && rapid.Bool().Draw(rt, "concurrent")
			v := runCase(c)
			col.Check(rt, ev.JSON(c), v)
		})
	})
	_ = json.Marshal
}
