// Package inject runs a Flush that is stopped, through the public post-change hook, at a
// chosen removal notification, where one further operation is started on another goroutine;
// the Flush resumes only when that operation has returned or is parked on a lock (goroutine
// state, not time). The harness owns the schedule, so the outcome on a correct implementation
// is deterministic up to the order in which the two are linearised. Used by C08 (contents
// must equal one of the two linearisations) and C16 (the notifications must still fold to the
// contents).
package inject

import (
	"runtime"
	"sync/atomic"
	"time"

	spb "github.com/openconfig/gribi/v1/proto/service"
	"github.com/openconfig/gribigo/aft"
	"github.com/openconfig/gribigo/constants"
	"github.com/openconfig/gribigo/rib"
	"github.com/openconfig/ygot/ygot"

	"verifh/internal/drive"
	"verifh/internal/gen"
	"verifh/internal/hgen"
	"verifh/internal/l1"
	"verifh/internal/model"
	"verifh/internal/obs"
)

// Spec describes the injection.
type Spec struct {
	Flush []string `json:"flush"`
	At    int      `json:"at"`
	Op    *gen.Op  `json:"op"`
	// Resolved: a resolved-entry hook (the other public hook of the RIB, handed a copy of all
	// instances for every top-level entry change) is registered too.
	Resolved bool `json:"resolved,omitempty"`
	// AddNI, when set, replaces Op: the second actor creates this network instance at runtime
	// (RIB.AddNetworkInstance) instead of sending an operation
	AddNI string `json:"addni,omitempty"`
}

// Result of a run.
type Result struct {
	R        *rib.RIB
	Before   *model.RIB // belief model of the preload (forward references off)
	Pre      obs.State
	PreOK    bool // the preload equals the belief model
	Injected bool
	Parked   bool
	FlushErr error
	Hang     *drive.Hang
	OKs      []*rib.OpResult
	Fails    []*rib.OpResult
	OpErr    error
}

func lockWait(state string) bool {
	switch state {
	case "sync.Mutex.Lock", "sync.RWMutex.Lock", "sync.RWMutex.RLock":
		return true
	}
	return false
}

// Run preloads a RIB (forward references disallowed) with pre, registers observer (may be
// nil) as part of the post-change hook from the start, and performs the injected Flush.
func Run(pre hgen.History, in Spec, observer rib.RIBHookFn) *Result {
	res := &Result{}
	var flushing atomic.Bool
	var calls int32
	done := make(chan struct{})
	var opGID atomic.Int64
	var hookHang *drive.Hang
	var runOp func()
	hook := func(o constants.OpType, ts int64, ni string, g ygot.ValidatedGoStruct) {
		if observer != nil {
			observer(o, ts, ni, g)
		}
		if !flushing.Load() || drive.CurGID() == opGID.Load() {
			return
		}
		if int(atomic.AddInt32(&calls, 1)) != in.At {
			return
		}
		res.Injected = true
		go runOp()
		deadline := time.Now().Add(drive.Watchdog)
		for {
			select {
			case <-done:
				return
			default:
			}
			if gid := opGID.Load(); gid != 0 {
				for _, g := range drive.Parse(drive.Dump()) {
					if g.ID == gid && lockWait(g.State) && g.Has("github.com/openconfig/gribigo/") {
						res.Parked = true
						return
					}
				}
			}
			if time.Now().After(deadline) {
				d := drive.Dump()
				hookHang = &drive.Hang{What: "operation injected during Flush", Blocked: drive.BlockedInGribigo(drive.Parse(d), opGID.Load()), Dump: d}
				return
			}
			runtime.Gosched()
		}
	}
	r := l1.NewRIB(false, l1.Opts{Setup: func(r *rib.RIB) {
		r.SetPostChangeHook(hook)
		if in.Resolved {
			r.SetResolvedEntryHook(func(map[string]*aft.RIB, constants.OpType, string, constants.AFT, any, ...rib.ResolvedDetails) {})
		}
	}})
	res.R = r
	m := model.New("DEFAULT", hgen.NIs[1:], false)
	for _, st := range pre.Steps {
		if st.Op == nil {
			continue
		}
		op := st.Op.Proto()
		if op.GetOp() == spb.AFTOperation_DELETE {
			r.DeleteEntry(st.Op.NI, op)
		} else {
			r.AddEntry(st.Op.NI, op)
		}
		m.BeliefApply(st.Op.NI, op)
	}
	res.Before = m
	p, err := obs.FromRIB(r)
	if err == nil {
		res.Pre = p
		res.PreOK = len(obs.Diff(obs.FromModel(m), p)) == 0
	}
	var op *spb.AFTOperation
	if in.AddNI == "" {
		op = in.Op.Proto()
	}
	runOp = func() {
		defer close(done)
		opGID.Store(drive.CurGID())
		if in.AddNI != "" {
			res.OpErr = r.AddNetworkInstance(in.AddNI)
			return
		}
		if op.GetOp() == spb.AFTOperation_DELETE {
			res.OKs, res.Fails, res.OpErr = r.DeleteEntry(in.Op.NI, op)
		} else {
			res.OKs, res.Fails, res.OpErr = r.AddEntry(in.Op.NI, op)
		}
	}
	flushing.Store(true)
	hg := drive.Watch("Flush with an injected operation", func() { res.FlushErr = r.Flush(in.Flush) })
	if hg == nil && res.Injected {
		select {
		case <-done:
		case <-time.After(drive.Watchdog):
			d := drive.Dump()
			hg = &drive.Hang{What: "operation injected during Flush (after the Flush returned)", Blocked: drive.BlockedInGribigo(drive.Parse(d), opGID.Load()), Dump: d}
		}
	}
	flushing.Store(false)
	if hg == nil {
		hg = hookHang
	}
	res.Hang = hg
	return res
}
