#!/usr/bin/env python3
"""Re-synchronises the commit ids of 'fixed' entries in known_findings.json with /repo
(ids change when /repo history is rewritten). Entries are matched by commit subject."""
import json, subprocess, os, re
ROOT = os.path.dirname(os.path.dirname(os.path.abspath(__file__)))
log = subprocess.run(["git", "-C", "/repo", "log", "--format=%h\t%s"], capture_output=True, text=True).stdout.strip().split("\n")
by_subject = {l.split("\t", 1)[1]: l.split("\t", 1)[0] for l in log if "\t" in l}
by_hash = {v: k for k, v in by_subject.items()}
p = os.path.join(ROOT, "known_findings.json")
k = json.load(open(p))
for f in k["findings"]:
    if f.get("status") != "fixed":
        continue
    subj = f.get("commit_subject")
    if not subj:
        subj = by_hash.get(f.get("commit", ""))
        if subj:
            f["commit_subject"] = subj
    if subj and subj in by_subject:
        new = by_subject[subj]
        old = f.get("commit", "")
        if old and old != new:
            f["what"] = f["what"].replace(" " + old + " ", " " + new + " ", 1) if len(old) >= 7 else f["what"]
        f["commit"] = new
    else:
        print("WARNING: cannot resolve commit for", f.get("signature"), f.get("commit"))
json.dump(k, open(p, "w"), indent=1)
for f in k["findings"]:
    print(f["property"], f["status"], f.get("commit"), f.get("commit_subject", "")[:70])
