// Package gen holds the plain-data description of gRIBI operations used in
// generated cases (JSON-serialisable, shrink-friendly), their conversion to
// protobufs, and the rapid generators that draw them.
package gen

import (
	"encoding/base64"
	"encoding/json"
	"fmt"
	"sort"
	"strconv"

	"google.golang.org/protobuf/encoding/prototext"
	"google.golang.org/protobuf/proto"

	aftpb "github.com/openconfig/gribi/v1/proto/gribi_aft"
	enums "github.com/openconfig/gribi/v1/proto/gribi_aft/enums"
	spb "github.com/openconfig/gribi/v1/proto/service"
	wpb "github.com/openconfig/ygot/proto/ywrapper"
)

// Kinds of AFT entry.
const (
	V4   = "v4"
	V6   = "v6"
	MPLS = "mpls"
	NHG  = "nhg"
	NH   = "nh"
)

// Kinds lists all entry kinds in Get order.
var Kinds = []string{V4, V6, MPLS, NHG, NH}

// Actions.
const (
	ADD     = "ADD"
	REPLACE = "REPLACE"
	DELETE  = "DELETE"
)

// ID128 is a 128-bit election id.
type ID128 struct {
	Hi uint64 `json:"hi"`
	Lo uint64 `json:"lo"`
}

func (i ID128) Proto() *spb.Uint128 { return &spb.Uint128{High: i.Hi, Low: i.Lo} }
func (i ID128) IsZero() bool        { return i.Hi == 0 && i.Lo == 0 }
func (i ID128) String() string      { return fmt.Sprintf("(%d,%d)", i.Hi, i.Lo) }

// Cmp compares as unsigned 128-bit integers, high word first.
func (i ID128) Cmp(j ID128) int {
	switch {
	case i.Hi < j.Hi:
		return -1
	case i.Hi > j.Hi:
		return 1
	case i.Lo < j.Lo:
		return -1
	case i.Lo > j.Lo:
		return 1
	}
	return 0
}

func FromProto128(p *spb.Uint128) ID128 { return ID128{Hi: p.GetHigh(), Lo: p.GetLow()} }

// Hop is one member of a next-hop-group.
type Hop struct {
	Index  uint64  `json:"i"`
	Weight *uint64 `json:"w,omitempty"`
}

// Encap is one element of the encap-header list of a next-hop.
type Encap struct {
	Index   uint64   `json:"i"`
	Type    string   `json:"t"` // "mpls" | "udpv6"
	Labels  []uint64 `json:"labels,omitempty"`
	DSCP    *uint64  `json:"dscp,omitempty"`
	DstIP   string   `json:"dst,omitempty"`
	DstPort *uint64  `json:"dport,omitempty"`
	TTL     *uint64  `json:"ttl,omitempty"`
	SrcIP   string   `json:"src,omitempty"`
	SrcPort *uint64  `json:"sport,omitempty"`
}

// Op is one AFT operation in plain-data form. Payload fields are flattened;
// which ones apply depends on Kind.
type Op struct {
	ID   uint64 `json:"id"`
	NI   string `json:"ni"`
	Kind string `json:"k"`
	Act  string `json:"a"`
	// Key: prefix for v4/v6; decimal number for mpls/nhg/nh.
	Key string `json:"key"`
	// Election id stamped on the operation (nil = none).
	Elec *ID128 `json:"elec,omitempty"`

	// NoPayload leaves the payload sub-message nil (DELETE by key only, or
	// the malformed-input classes).
	NoPayload bool `json:"nopl,omitempty"`

	// top-level entries
	Group   uint64   `json:"nhg,omitempty"`
	GroupNI string   `json:"nhgni,omitempty"`
	Meta    []byte   `json:"meta,omitempty"`
	Decap   int32    `json:"decap,omitempty"`
	Popped  []uint64 `json:"popped,omitempty"`

	// next-hop-group
	Hops   []Hop   `json:"hops,omitempty"`
	Backup *uint64 `json:"backup,omitempty"`
	Color  *uint64 `json:"color,omitempty"`

	// next-hop
	IP        string   `json:"ip,omitempty"`
	MAC       string   `json:"mac,omitempty"`
	Intf      string   `json:"intf,omitempty"`
	Subintf   *uint64  `json:"subintf,omitempty"`
	IPinIPSrc string   `json:"ipipsrc,omitempty"`
	IPinIPDst string   `json:"ipipdst,omitempty"`
	EncapH    int32    `json:"encaph,omitempty"`
	Encaps    []Encap  `json:"encaps,omitempty"`
	Pushed    []uint64 `json:"pushed,omitempty"`
	PopTop    bool     `json:"poptop,omitempty"`
	NHNI      string   `json:"nhni,omitempty"`

	// Raw, when set, is a marshalled spb.AFTOperation that replaces
	// everything above except ID/NI bookkeeping (malformed-input cases).
	Raw string `json:"raw,omitempty"`
	// Text is a human-readable rendering of Raw (not used for execution).
	Text string `json:"text,omitempty"`
}

// KeyNum returns the numeric key of mpls/nhg/nh operations.
func (o *Op) KeyNum() uint64 {
	n, _ := strconv.ParseUint(o.Key, 10, 64)
	return n
}

func u(v uint64) *wpb.UintValue   { return &wpb.UintValue{Value: v} }
func s(v string) *wpb.StringValue { return &wpb.StringValue{Value: v} }

// U returns a pointer to v.
func U(v uint64) *uint64 { return &v }

func opType(a string) spb.AFTOperation_Operation {
	switch a {
	case ADD:
		return spb.AFTOperation_ADD
	case REPLACE:
		return spb.AFTOperation_REPLACE
	case DELETE:
		return spb.AFTOperation_DELETE
	}
	return spb.AFTOperation_INVALID
}

// ActOf returns the action name of an operation type.
func ActOf(o spb.AFTOperation_Operation) string {
	switch o {
	case spb.AFTOperation_ADD:
		return ADD
	case spb.AFTOperation_REPLACE:
		return REPLACE
	case spb.AFTOperation_DELETE:
		return DELETE
	}
	return "INVALID"
}

// V4Proto etc. build the keyed payload messages.
func (o *Op) V4Proto() *aftpb.Afts_Ipv4EntryKey {
	k := &aftpb.Afts_Ipv4EntryKey{Prefix: o.Key}
	if o.NoPayload {
		return k
	}
	e := &aftpb.Afts_Ipv4Entry{}
	if o.Group != 0 {
		e.NextHopGroup = u(o.Group)
	}
	if o.GroupNI != "" {
		e.NextHopGroupNetworkInstance = s(o.GroupNI)
	}
	if len(o.Meta) > 0 {
		e.EntryMetadata = &wpb.BytesValue{Value: o.Meta}
	}
	if o.Decap != 0 {
		e.DecapsulateHeader = enums.OpenconfigAftTypesEncapsulationHeaderType(o.Decap)
	}
	k.Ipv4Entry = e
	return k
}

func (o *Op) V6Proto() *aftpb.Afts_Ipv6EntryKey {
	k := &aftpb.Afts_Ipv6EntryKey{Prefix: o.Key}
	if o.NoPayload {
		return k
	}
	e := &aftpb.Afts_Ipv6Entry{}
	if o.Group != 0 {
		e.NextHopGroup = u(o.Group)
	}
	if o.GroupNI != "" {
		e.NextHopGroupNetworkInstance = s(o.GroupNI)
	}
	if len(o.Meta) > 0 {
		e.EntryMetadata = &wpb.BytesValue{Value: o.Meta}
	}
	if o.Decap != 0 {
		e.DecapsulateHeader = enums.OpenconfigAftTypesEncapsulationHeaderType(o.Decap)
	}
	k.Ipv6Entry = e
	return k
}

func (o *Op) MPLSProto() *aftpb.Afts_LabelEntryKey {
	k := &aftpb.Afts_LabelEntryKey{Label: &aftpb.Afts_LabelEntryKey_LabelUint64{LabelUint64: o.KeyNum()}}
	if o.NoPayload {
		return k
	}
	e := &aftpb.Afts_LabelEntry{}
	if o.Group != 0 {
		e.NextHopGroup = u(o.Group)
	}
	if o.GroupNI != "" {
		e.NextHopGroupNetworkInstance = s(o.GroupNI)
	}
	if len(o.Meta) > 0 {
		e.EntryMetadata = &wpb.BytesValue{Value: o.Meta}
	}
	for _, l := range o.Popped {
		e.PoppedMplsLabelStack = append(e.PoppedMplsLabelStack, &aftpb.Afts_LabelEntry_PoppedMplsLabelStackUnion{PoppedMplsLabelStackUint64: l})
	}
	k.LabelEntry = e
	return k
}

func (o *Op) NHGProto() *aftpb.Afts_NextHopGroupKey {
	k := &aftpb.Afts_NextHopGroupKey{Id: o.KeyNum()}
	if o.NoPayload {
		return k
	}
	e := &aftpb.Afts_NextHopGroup{}
	for _, h := range o.Hops {
		hk := &aftpb.Afts_NextHopGroup_NextHopKey{Index: h.Index, NextHop: &aftpb.Afts_NextHopGroup_NextHop{}}
		if h.Weight != nil {
			hk.NextHop.Weight = u(*h.Weight)
		}
		e.NextHop = append(e.NextHop, hk)
	}
	if o.Backup != nil {
		e.BackupNextHopGroup = u(*o.Backup)
	}
	if o.Color != nil {
		e.Color = u(*o.Color)
	}
	k.NextHopGroup = e
	return k
}

func (o *Op) NHProto() *aftpb.Afts_NextHopKey {
	k := &aftpb.Afts_NextHopKey{Index: o.KeyNum()}
	if o.NoPayload {
		return k
	}
	e := &aftpb.Afts_NextHop{}
	if o.IP != "" {
		e.IpAddress = s(o.IP)
	}
	if o.MAC != "" {
		e.MacAddress = s(o.MAC)
	}
	if o.Intf != "" || o.Subintf != nil {
		e.InterfaceRef = &aftpb.Afts_NextHop_InterfaceRef{}
		if o.Intf != "" {
			e.InterfaceRef.Interface = s(o.Intf)
		}
		if o.Subintf != nil {
			e.InterfaceRef.Subinterface = u(*o.Subintf)
		}
	}
	if o.IPinIPSrc != "" || o.IPinIPDst != "" {
		e.IpInIp = &aftpb.Afts_NextHop_IpInIp{}
		if o.IPinIPSrc != "" {
			e.IpInIp.SrcIp = s(o.IPinIPSrc)
		}
		if o.IPinIPDst != "" {
			e.IpInIp.DstIp = s(o.IPinIPDst)
		}
	}
	if o.EncapH != 0 {
		e.EncapsulateHeader = enums.OpenconfigAftTypesEncapsulationHeaderType(o.EncapH)
	}
	if o.Decap != 0 {
		e.DecapsulateHeader = enums.OpenconfigAftTypesEncapsulationHeaderType(o.Decap)
	}
	for _, eh := range o.Encaps {
		e.EncapHeader = append(e.EncapHeader, eh.Proto())
	}
	for _, l := range o.Pushed {
		e.PushedMplsLabelStack = append(e.PushedMplsLabelStack, &aftpb.Afts_NextHop_PushedMplsLabelStackUnion{PushedMplsLabelStackUint64: l})
	}
	if o.PopTop {
		e.PopTopLabel = &wpb.BoolValue{Value: true}
	}
	if o.NHNI != "" {
		e.NetworkInstance = s(o.NHNI)
	}
	k.NextHop = e
	return k
}

const (
	EncapIPv4  = int32(enums.OpenconfigAftTypesEncapsulationHeaderType_OPENCONFIGAFTTYPESENCAPSULATIONHEADERTYPE_IPV4)
	EncapMPLS  = int32(enums.OpenconfigAftTypesEncapsulationHeaderType_OPENCONFIGAFTTYPESENCAPSULATIONHEADERTYPE_MPLS)
	EncapUDPV6 = int32(enums.OpenconfigAftTypesEncapsulationHeaderType_OPENCONFIGAFTTYPESENCAPSULATIONHEADERTYPE_UDPV6)
)

func (eh Encap) Proto() *aftpb.Afts_NextHop_EncapHeaderKey {
	k := &aftpb.Afts_NextHop_EncapHeaderKey{Index: eh.Index, EncapHeader: &aftpb.Afts_NextHop_EncapHeader{}}
	switch eh.Type {
	case "mpls":
		k.EncapHeader.Type = enums.OpenconfigAftTypesEncapsulationHeaderType(EncapMPLS)
		m := &aftpb.Afts_NextHop_EncapHeader_Mpls{}
		for _, l := range eh.Labels {
			m.MplsLabelStack = append(m.MplsLabelStack, &aftpb.Afts_NextHop_EncapHeader_Mpls_MplsLabelStackUnion{MplsLabelStackUint64: l})
		}
		k.EncapHeader.Mpls = m
	case "udpv6":
		k.EncapHeader.Type = enums.OpenconfigAftTypesEncapsulationHeaderType(EncapUDPV6)
		m := &aftpb.Afts_NextHop_EncapHeader_UdpV6{}
		if eh.DSCP != nil {
			m.Dscp = u(*eh.DSCP)
		}
		if eh.DstIP != "" {
			m.DstIp = s(eh.DstIP)
		}
		if eh.DstPort != nil {
			m.DstUdpPort = u(*eh.DstPort)
		}
		if eh.TTL != nil {
			m.IpTtl = u(*eh.TTL)
		}
		if eh.SrcIP != "" {
			m.SrcIp = s(eh.SrcIP)
		}
		if eh.SrcPort != nil {
			m.SrcUdpPort = u(*eh.SrcPort)
		}
		k.EncapHeader.UdpV6 = m
	}
	return k
}

// Proto converts the operation to its protobuf form.
func (o *Op) Proto() *spb.AFTOperation {
	if o.Raw != "" {
		b, err := base64.StdEncoding.DecodeString(o.Raw)
		if err != nil {
			panic(err)
		}
		p := &spb.AFTOperation{}
		if err := (proto.UnmarshalOptions{AllowPartial: true}).Unmarshal(b, p); err != nil {
			panic(err)
		}
		return p
	}
	p := &spb.AFTOperation{Id: o.ID, NetworkInstance: o.NI, Op: opType(o.Act)}
	if o.Elec != nil {
		p.ElectionId = o.Elec.Proto()
	}
	switch o.Kind {
	case V4:
		p.Entry = &spb.AFTOperation_Ipv4{Ipv4: o.V4Proto()}
	case V6:
		p.Entry = &spb.AFTOperation_Ipv6{Ipv6: o.V6Proto()}
	case MPLS:
		p.Entry = &spb.AFTOperation_Mpls{Mpls: o.MPLSProto()}
	case NHG:
		p.Entry = &spb.AFTOperation_NextHopGroup{NextHopGroup: o.NHGProto()}
	case NH:
		p.Entry = &spb.AFTOperation_NextHop{NextHop: o.NHProto()}
	}
	return p
}

// SetRaw stores p as the raw form of the operation.
func (o *Op) SetRaw(p *spb.AFTOperation) {
	b, err := proto.MarshalOptions{Deterministic: true, AllowPartial: true}.Marshal(p)
	if err != nil {
		panic(err)
	}
	o.Raw = base64.StdEncoding.EncodeToString(b)
	o.Text = prototext.MarshalOptions{Multiline: false}.Format(p)
	o.ID = p.GetId()
	o.NI = p.GetNetworkInstance()
}

// String is a compact human readable form for messages.
func (o *Op) String() string {
	if o.Raw != "" {
		return fmt.Sprintf("#%d raw{%s}", o.ID, o.Text)
	}
	pl := ""
	switch o.Kind {
	case V4, V6, MPLS:
		pl = fmt.Sprintf("->nhg %d", o.Group)
		if o.GroupNI != "" {
			pl += "@" + o.GroupNI
		}
	case NHG:
		pl = "hops["
		for i, h := range o.Hops {
			if i > 0 {
				pl += ","
			}
			pl += strconv.FormatUint(h.Index, 10)
		}
		pl += "]"
		if o.Backup != nil {
			pl += fmt.Sprintf(" backup %d", *o.Backup)
		}
	}
	if o.NoPayload {
		pl = "(no payload)"
	}
	return fmt.Sprintf("#%d %s %s/%s %s %s", o.ID, o.Act, o.NI, o.Kind, o.Key, pl)
}

// EntryKey identifies one installed entry.
type EntryKey struct {
	NI   string
	Kind string
	Key  string
}

func (k EntryKey) String() string { return k.NI + "/" + k.Kind + "/" + k.Key }

// SortKeys sorts entry keys.
func SortKeys(ks []EntryKey) {
	sort.Slice(ks, func(i, j int) bool { return ks[i].String() < ks[j].String() })
}

// OpJSON is the JSON form of an operation.
func OpJSON(o *Op) []byte {
	b, err := json.Marshal(o)
	if err != nil {
		panic(err)
	}
	return b
}
