package c08

import (
	"fmt"
	spb "github.com/openconfig/gribi/v1/proto/service"
	"strings"

	"pgregory.net/rapid"

	"verifh/internal/ev"
	"verifh/internal/gen"
	"verifh/internal/hgen"
	"verifh/internal/inject"
	"verifh/internal/model"
	"verifh/internal/obs"
)

// Inject (mode "inject", rib API): a Flush of the instances Flush (in this order) is stopped,
// through the public post-change hook, at its At-th removal notification; there one further
// operation Op is started on another goroutine and the Flush is resumed only when that
// operation has returned or is parked on a lock (goroutine state, not time). The harness owns
// the schedule, so the outcome on a correct implementation is deterministic up to the order in
// which the two are linearised.
type Inject struct {
	Flush []string `json:"flush"`
	At    int      `json:"at"`
	Op    *gen.Op  `json:"op"`
	// Resolved: the RIB's resolved-entry hook is registered as well (see inject.Spec)
	Resolved bool `json:"resolved,omitempty"`
	// AddNI, when set, replaces Op: the second actor creates this network instance at runtime
	AddNI string `json:"addni,omitempty"`
}

func runInject(c Case) *ev.Verdict {
	v := &ev.Verdict{}
	in := c.Inject
	res := inject.Run(c.H, inject.Spec{Flush: in.Flush, At: in.At, Op: in.Op, Resolved: in.Resolved, AddNI: in.AddNI}, nil)
	r, m := res.R, res.Before
	if res.Pre == nil {
		v.Fail("C08/contents-unreadable", "before the flush")
		return v
	}
	if !res.PreOK {
		// the preload is C01's subject; without an exact starting point nothing can be said here
		v.Class("inject:preload-differs-from-belief")
		return v
	}
	nonEmpty := map[string]bool{}
	for k := range res.Pre {
		nonEmpty[k.NI] = true
	}
	var op *spb.AFTOperation
	what := "AddNetworkInstance(" + in.AddNI + ")"
	if in.AddNI == "" {
		op = in.Op.Proto()
		what = in.Op.String()
	} else {
		v.Class("inject:network-instance-created-during-the-flush")
	}
	injected, parked := res.Injected, res.Parked
	if hg := res.Hang; hg != nil {
		if hg.Blocked != "" {
			v.Fail("C08/hang:"+hg.Blocked, "%s\n%s", hg.Error(), hg.Dump[:min(len(hg.Dump), 5000)])
		} else {
			v.Inconclusive = hg.Error()
		}
		return v
	}
	if !injected {
		v.Class("inject:flush-ended-before-the-injection-point")
	} else if parked {
		v.Class("inject:operation-waited-for-the-flush")
	} else {
		v.Class("inject:operation-completed-inside-the-flush")
	}
	if res.FlushErr != nil {
		v.Fail("C08/flush-error", "Flush(%v) with %s injected at notification %d returned %v", in.Flush, what, in.At, res.FlushErr)
	}
	got, err := obs.FromRIB(r)
	if err != nil {
		v.Fail("C08/contents-unreadable", "after the flush: %v", err)
		return v
	}
	// the two linearisations
	a := m.Clone() // operation first, then the flush
	b := m.Clone() // flush first, then the operation
	if injected && op != nil {
		a.BeliefApply(in.Op.NI, op)
	}
	if injected && op == nil && res.OpErr != nil {
		v.Fail("C08/add-network-instance-failed", "AddNetworkInstance(%s) during Flush(%v): %v", in.AddNI, in.Flush, res.OpErr)
	}
	a.Flush(in.Flush)
	b.Flush(in.Flush)
	if injected && op != nil {
		b.BeliefApply(in.Op.NI, op)
	}
	da, db := obs.Diff(obs.FromModel(a), got), obs.Diff(obs.FromModel(b), got)
	if len(da) > 0 && len(db) > 0 {
		rs := fmt.Sprintf("oks=%d fails=%d err=%v", len(res.OKs), len(res.Fails), res.OpErr)
		v.Fail("C08/flush-not-atomic:"+obs.DiffClass(db), "Flush(%v) with %s started at its notification %d (%s; operation waited for a lock: %v): the resulting contents equal neither 'operation, then flush' (%s) nor 'flush, then operation' (%s)", in.Flush, what, in.At, rs, parked, strings.Join(da, "; "), strings.Join(db, "; "))
		return v
	}
	fin := model.New("DEFAULT", hgen.NIs[1:], false)
	for k, p := range got {
		fin.Ent[k] = p
	}
	obs.CheckCounters(fin, r, v, "C08/counter-vs-referrers", fmt.Sprintf("after Flush(%v) with %s injected at notification %d", in.Flush, what, in.At))
	v.NonTrivial = injected && len(nonEmpty) >= 2
	return v
}

func drawInject(rt *rapid.T) Case {
	cfg := hgen.DefaultCfg()
	cfg.FlushPct = 0
	cfg.MinLen, cfg.MaxLen = 6, 24
	h := hgen.DrawHistory(rt, cfg)
	h.FwdRefs = false
	belief := model.New("DEFAULT", hgen.NIs[1:], false)
	n := 0
	for _, st := range h.Steps {
		if st.Op != nil {
			belief.BeliefApply(st.Op.NI, st.Op.Proto())
			n++
		}
	}
	in := &Inject{}
	switch rapid.IntRange(0, 3).Draw(rt, "targets") {
	case 0:
		in.Flush = []string{hgen.NIs[rapid.IntRange(0, 2).Draw(rt, "ni")]}
	case 1:
		p := rapid.Permutation(append([]string(nil), hgen.NIs...)).Draw(rt, "order")
		in.Flush = p[:2]
	default:
		in.Flush = rapid.Permutation(append([]string(nil), hgen.NIs...)).Draw(rt, "order")
	}
	in.At = rapid.IntRange(1, max(1, len(belief.Ent))).Draw(rt, "at")
	in.Resolved = rapid.Bool().Draw(rt, "resolved-entry-hook")
	// an operation aimed at the contents: mostly a top-level entry pointing at an installed
	// group, otherwise anything the history generator would draw
	var groups []gen.EntryKey
	for k := range belief.Ent {
		if k.Kind == gen.NHG {
			groups = append(groups, k)
		}
	}
	gen.SortKeys(groups)
	if len(groups) > 0 && rapid.IntRange(0, 2).Draw(rt, "aimed") != 0 {
		g := groups[rapid.IntRange(0, len(groups)-1).Draw(rt, "group")]
		ni := hgen.NIs[rapid.IntRange(0, 2).Draw(rt, "opni")]
		if rapid.Bool().Draw(rt, "same-ni") {
			ni = g.NI
		}
		var id uint64
		fmt.Sscan(g.Key, &id)
		in.Op = &gen.Op{ID: 900000, NI: ni, Kind: gen.V4, Act: gen.ADD, Key: "198.18.0.0/15", Group: id, GroupNI: g.NI}
	} else {
		c2 := cfg
		c2.NoReplace = false
		in.Op = hgen.DrawOp(rt, belief, c2, 900000)
	}
	if rapid.IntRange(0, 5).Draw(rt, "add-instance?") == 0 {
		in.AddNI = "VRF-NEW"
	}
	return Case{Mode: "inject", H: h, Inject: in}
}

var _ = ev.JSON
