package c05

import (
	"encoding/json"
	"fmt"
	"testing"

	"pgregory.net/rapid"

	"verifh/internal/ev"
	"verifh/internal/gen"
	"verifh/internal/sess"
)

func TestMain(m *testing.M) { ev.Main(m, "C05", "exploration") }

// Ann is one announcement (or a disconnect when Close is set).
type Ann struct {
	S     int       `json:"s"`
	ID    gen.ID128 `json:"id"`
	Close bool      `json:"close,omitempty"`
	// Unk > 0: the id message carries an unknown field with this value (see sess.Step.Unk)
	Unk int `json:"unk,omitempty"`
}

// Case is a sequence of election announcements by up to four sessions.
type Case struct {
	Seq []Ann `json:"seq"`
	// InFlight: announcements made while an operation of the primary is in flight (package sess)
	InFlight *sess.InFlight `json:"inflight,omitempty"`
	// Inject: the server starts with this election id learnt and no primary (sess.Script.Inject)
	Inject *gen.ID128 `json:"inject,omitempty"`
}

func setup() {
	c := ev.C()
	c.Rule = "sequences of election announcements (and disconnects) by 1-4 negotiated SINGLE_PRIMARY sessions over in-process streams: exhaustive over the {0,1,2}x{0,1,2} id lattice (zero id included) x 3 sessions for length<=3 (quick) / <=4 (thorough), plus rapid sequences up to length 12 with each id half drawn from {0,1,2,2^32,2^63,2^64-2,2^64-1}. Plus in-flight schedules (the primary's request stopped inside an operation through the public post-change hook, 1-5 announcements by up to 3 other sessions meanwhile, each followed until answered or parked on a lock, then released): no election response below the id it answers or above the maximum announced, and at quiescence id == maximum, primary == most recent announcer of it (any announcer of it if announcements had to wait), confirmed by probe operations. Oracle: election model (cur = 128-bit max announced, primary = most recent announcer of an id >= all earlier ones): every election response carries exactly cur; zero id ends that RPC with INVALID_ARGUMENT and changes nothing; primary and cur compared through the election hook after every step, and behaviourally: after every announcement each announced session sends a correctly stamped idempotent DELETE, which must be acknowledged iff the session is the model's primary with id == cur. Non-trivial = the sequence contains two ids ordered differently by (high,low) than by the low word alone, or a tie, or a decrease; distinct by FNV-64 of the case JSON. Later additions: announcements whose id message carries an unknown field; servers started with an injected election id; in-flight schedules in which clients of idle sessions go away."
	c.Assumptions = []string{"sessions are driven sequentially at message granularity (concurrent announcements are C11's subject)"}
}

func toScript(c Case) sess.Script {
	sc := sess.Script{FwdRefs: true, Inject: c.Inject}
	seen := map[int]bool{}
	for _, a := range c.Seq {
		if !seen[a.S] {
			seen[a.S] = true
			sc.Steps = append(sc.Steps, sess.Step{S: a.S, K: "params", P: &sess.ParamSpec{Red: 1, Persist: 1, Ack: 0}})
		}
		if a.Close {
			sc.Steps = append(sc.Steps, sess.Step{S: a.S, K: "halfclose"})
			continue
		}
		id := a.ID
		sc.Steps = append(sc.Steps, sess.Step{S: a.S, K: "elec", ID: &id, Unk: a.Unk})
	}
	return sc
}

func runCase(c Case) *ev.Verdict {
	if c.InFlight != nil {
		return sess.RunInFlight(c.InFlight, "C05")
	}
	v, st := sess.Run(toScript(c), sess.Checks{P: "C05", Election: true, Probe: true})
	if st.OrderSensitive {
		v.Class("high-vs-low-word-order")
	}
	if st.Tie {
		v.Class("tie")
	}
	if st.Decrease {
		v.Class("decrease")
	}
	if st.Handover > 0 {
		v.Class("handover")
	}
	if st.Violations > 0 {
		v.Class("zero-id")
	}
	v.NonTrivial = st.OrderSensitive || st.Tie || st.Decrease
	return v
}

func TestReplay(t *testing.T) {
	setup()
	for _, f := range ev.ReplayFiles() {
		var c Case
		if err := ev.LoadCase(f, &c); err != nil {
			t.Fatalf("%s: %v", f, err)
		}
		for i := 0; i < 3; i++ {
			v := runCase(c)
			if fresh := ev.C().Record(ev.JSON(c), v); len(fresh) > 0 {
				t.Errorf("%s: %v", f, fresh)
				break
			}
		}
	}
}

var halves = []uint64{0, 1, 2, 1 << 32, 1 << 63, ^uint64(0) - 1, ^uint64(0)}

func TestCampaign(t *testing.T) {
	setup()
	col := ev.C()
	t.Run("exhaustive-lattice", func(t *testing.T) {
		maxLen := ev.Pick("C05_EXH_LEN", 3, 4)
		var alpha []Ann
		for s := 0; s < 3; s++ {
			for hi := uint64(0); hi < 3; hi++ {
				for lo := uint64(0); lo < 3; lo++ {
					alpha = append(alpha, Ann{S: s, ID: gen.ID128{Hi: hi, Lo: lo}})
				}
			}
		}
		sk, ns := ev.Shard()
		for n := 1; n <= maxLen; n++ {
			total := 1
			for i := 0; i < n; i++ {
				total *= len(alpha)
			}
			cnt, bad := 0, 0
			for idx := 0; idx < total; idx++ {
				if idx%ns != sk {
					continue
				}
				var c Case
				x := idx
				for i := 0; i < n; i++ {
					c.Seq = append(c.Seq, alpha[x%len(alpha)])
					x /= len(alpha)
				}
				v := runCase(c)
				cnt++
				if fresh := col.Record(ev.JSON(c), v); len(fresh) > 0 {
					bad++
					if bad <= 3 {
						t.Errorf("%s: %v", ev.JSON(c), fresh)
					}
				}
			}
			col.Scope(fmt.Sprintf("all announcement sequences of length %d over {0,1,2}^2 ids x 3 sessions", n), cnt, true)
		}
	})
	t.Run("announcements-while-an-operation-is-in-flight", func(t *testing.T) {
		rapid.Check(t, func(rt *rapid.T) {
			if rapid.IntRange(0, 2).Draw(rt, "run?") != 0 {
				return
			}
			c := Case{InFlight: sess.DrawInFlight(rt)}
			v := runCase(c)
			col.Check(rt, ev.JSON(c), v)
		})
	})
	t.Run("random", func(t *testing.T) {
		rapid.Check(t, func(rt *rapid.T) {
			var c Case
			ns := rapid.IntRange(1, 4).Draw(rt, "sessions")
			n := rapid.IntRange(1, 12).Draw(rt, "len")
			var prev []gen.ID128
			for i := 0; i < n; i++ {
				a := Ann{S: rapid.IntRange(0, ns-1).Draw(rt, "s")}
				switch k := rapid.IntRange(0, 19).Draw(rt, "kind"); {
				case k == 0:
					a.Close = true
				case k < 5 && len(prev) > 0:
					a.ID = prev[rapid.IntRange(0, len(prev)-1).Draw(rt, "repeat")] // a tie
				default:
					a.ID = gen.ID128{Hi: halves[rapid.IntRange(0, len(halves)-1).Draw(rt, "hi")], Lo: halves[rapid.IntRange(0, len(halves)-1).Draw(rt, "lo")]}
				}
				if !a.Close {
					prev = append(prev, a.ID)
					if rapid.IntRange(0, 5).Draw(rt, "unknown-field?") == 0 {
						a.Unk = rapid.IntRange(1, 2).Draw(rt, "unk")
					}
				}
				c.Seq = append(c.Seq, a)
			}
			if rapid.IntRange(0, 5).Draw(rt, "inject?") == 0 {
				c.Inject = &gen.ID128{Hi: halves[rapid.IntRange(0, len(halves)-1).Draw(rt, "inject-hi")], Lo: halves[rapid.IntRange(0, len(halves)-1).Draw(rt, "inject-lo")]}
			}
			v := runCase(c)
			col.Check(rt, ev.JSON(c), v)
		})
	})
	col.MinimizeAll(minimize)
}

func minimize(sig string, cs []byte) []byte {
	var c Case
	if err := json.Unmarshal(cs, &c); err != nil {
		return nil
	}
	if c.InFlight != nil {
		return cs
	}
	try := func(cc Case) bool { return runCase(cc).HasSig(sig) }
	if !try(c) {
		return nil
	}
	for i := 0; i < len(c.Seq); {
		cc := Case{Seq: append(append([]Ann(nil), c.Seq[:i]...), c.Seq[i+1:]...), Inject: c.Inject}
		if len(cc.Seq) > 0 && try(cc) {
			c = cc
		} else {
			i++
		}
	}
	return ev.JSON(c)
}
