package c10

import (
	"encoding/json"
	"fmt"
	"strings"
	"testing"
	"time"

	"google.golang.org/grpc/codes"
	"google.golang.org/grpc/status"
	"pgregory.net/rapid"

	spb "github.com/openconfig/gribi/v1/proto/service"

	"verifh/internal/drive"
	"verifh/internal/ev"
	"verifh/internal/gen"
	"verifh/internal/hgen"
	"verifh/internal/l2"
	"verifh/internal/model"
	"verifh/internal/obs"
	"verifh/internal/sess"
)

func TestMain(m *testing.M) {
	drive.Watchdog = 10 * time.Second
	ev.Main(m, "C10", "fault_enumeration")
}

// Fault is one way a client goes away.
type Fault struct {
	Kind string `json:"kind"` // "modify" | "get"
	// modify: the session's messages are [params, election, batch...]; Cut of
	// them are delivered before the client goes away.
	NBatches int  `json:"nbatches,omitempty"`
	Cut      int  `json:"cut"`
	Read     bool `json:"read,omitempty"` // the client read every response to the delivered messages first
	// Mode: halfclose | cancel | recv-error (transport failure seen by the server's Recv) |
	// send-error (the K-th response cannot be written) | cancel-blocked (the client stops reading
	// at the K-th response, then cancels)
	Mode string `json:"mode"`
	K    int    `json:"k,omitempty"`
	// get: the client goes away when response number GetCut+1 is written
	GetCut int `json:"getcut,omitempty"`
	// get, Touch: immediately before the abandoned Get a primary session programs again, with
	// their current payload, one installed entry of every table (state-neutral writes), so
	// that the abandoned Get is the first read after a write - the harness's own complete Gets
	// must not be what keeps a server-side read cache warm
	Touch bool `json:"touch,omitempty"`
	// get, Rep > 0: the same abandoned Get happens Rep more times before the server is
	// looked at again (a long-lived server that has seen many clients go away)
	Rep int `json:"rep,omitempty"`
}

// Case: a history is consumed batch by batch by a sequence of sessions, each
// ending with a fault; after every fault the server is observed and probed.
type Case struct {
	H      hgen.History `json:"h"`
	Batch  int          `json:"batch"`
	Faults []Fault      `json:"faults"`
	// Net: the server sits behind a real grpc.Server over bufconn and the client side is real
	// gRPC: half-close = CloseSend, cancel = context cancellation (RST_STREAM), recv-error = the
	// client's connection is closed, cancel-unread = the client stops reading responses, sends
	// everything, then cancels; flow-control (Flood > 0) = the client stops reading and keeps
	// sending until the server's writer is blocked by HTTP/2 flow control, then goes away.
	Net   bool `json:"net,omitempty"`
	Flood int  `json:"flood,omitempty"`
	// InFlight (replaces everything above): clients of idle sessions go away while an operation
	// of the primary is in flight and other sessions announce election ids (package sess)
	InFlight *sess.InFlight `json:"inflight,omitempty"`
}

func setup() {
	c := ev.C()
	c.Rule = "scripts (negotiate, elect, batches of generated operations; Gets over the resulting contents) x every cut point (after each message sent, after each response read, at the K-th response of a batch) x termination mode {half-close, context cancel, transport error on the server's Recv, transport error on the server's Send, client stops reading then cancels}; Get abandoned after each received response 0..n (half of them as the first read after state-neutral writes to every table); sequences of 1-3 such faults; plus the same scripts against the server behind a real grpc.Server over bufconn (CloseSend, context cancellation, connection teardown, client that never reads then cancels, abandoned Get stream, and a flood that stalls the server's writer in HTTP/2 flow control before the client goes away). For every generated script all single-fault (cut, mode) pairs are enumerated, plus rapid-drawn multi-fault sequences. Oracle after every fault, once the RPC has ended and its goroutines are parked (goroutine-state quiescence): entries read through a fresh Get equal the belief-model state after SOME prefix of the sent operations that includes every acknowledged one; the highest learnt election id equals the maximum announced in the delivered messages; then a probe session (negotiate, win the election, one ADD, Get, Flush of one instance) must complete under the watchdog; a hang is classified from the goroutine dump. Non-trivial = a cut at the K-th response inside a batch, or inside a Get stream with entries remaining; distinct by FNV-64 of the case JSON. Later additions: long-lived-server scope (15-257, thorough 4097, abandoned Gets in a row); disconnect-during-a-hand-over scope (in-flight schedules of package sess with clients of idle sessions going away)."
	c.Assumptions = []string{"servers run with forward references disallowed so that the belief model is deterministic for unanswered operations", "transport failures are emulated at the stream interface (exact cut points); the real-transport class uses grpc over an in-memory bufconn listener (no kernel TCP)"}
}

type runner struct {
	c       Case
	v       *ev.Verdict
	s       *drive.Srv
	belief  *model.RIB
	ops     []*gen.Op
	next    int
	maxID   *gen.ID128
	maybeID *gen.ID128 // an announcement that was in flight when its RPC was torn down
	inside  bool
	round   int
}

func (r *runner) fail(sig, f string, a ...any) { r.v.Fail("C10/"+sig, f, a...) }

// observe reads the contents through a fresh Get and matches them with a prefix
// of sent (of which the first acked are acknowledged).
func (r *runner) observe(when string, sent []*gen.Op, acked int) bool {
	got, ok := l2.Observe(r.s, r.v, "C10", when)
	if !ok {
		return false
	}
	m := r.belief.Clone()
	match := -1
	var lastDiff []string
	for p := 0; p <= len(sent); p++ {
		if p > 0 {
			o := sent[p-1]
			m.BeliefApply(o.NI, o.Proto())
		}
		if p < acked {
			continue
		}
		d := obs.Diff(obs.FromModel(m), got)
		if len(d) == 0 {
			match = p
			break
		}
		if p == acked {
			lastDiff = d
		}
	}
	if match < 0 {
		r.fail("state-not-a-prefix", "%s: the installed entries equal no prefix (>= %d acknowledged, %d sent) of the operations sent; against the acknowledged prefix: %s", when, acked, len(sent), strings.Join(lastDiff, "; "))
		return false
	}
	// adopt the matching prefix
	for _, o := range sent[:match] {
		r.belief.BeliefApply(o.NI, o.Proto())
	}
	// election state
	id, _ := r.s.S.VerifElection()
	if r.maybeID != nil {
		if id != nil && gen.FromProto128(id).Cmp(*r.maybeID) == 0 {
			r.announce(*r.maybeID)
		}
		r.maybeID = nil
	}
	switch {
	case r.maxID == nil && id != nil:
		r.fail("election-id-changed", "%s: server has learnt election id %v, none was announced", when, gen.FromProto128(id))
	case r.maxID != nil && (id == nil || gen.FromProto128(id).Cmp(*r.maxID) != 0):
		r.fail("election-id-changed", "%s: highest learnt election id is %v, the maximum announced is %s", when, id, r.maxID)
	}
	obs.CheckCounters(r.belief, r.s.S.VerifRIB(), r.v, "C10/counter-vs-referrers", when)
	return len(r.v.Findings) == 0
}

func (r *runner) announce(id gen.ID128) {
	if r.maxID == nil || id.Cmp(*r.maxID) > 0 {
		x := id
		r.maxID = &x
	}
}

// probe: a new session must be fully serviceable.
func (r *runner) probe(when string) bool {
	x := r.s.Open()
	id := gen.ID128{Hi: 0, Lo: uint64(r.round*10 + 5)}
	nh := &gen.Op{ID: 1, NI: "DEFAULT", Kind: gen.NH, Act: gen.ADD, Key: "4", IP: fmt.Sprintf("203.0.113.%d", r.round+1), Elec: &id}
	x.Send(drive.StdParams(false))
	x.Send(&spb.ModifyRequest{ElectionId: id.Proto()})
	if _, hg := x.Send(&spb.ModifyRequest{Operation: []*spb.AFTOperation{nh.Proto()}}); hg != nil {
		l2.HangFinding(r.v, "C10", hg)
		return false
	}
	rs, ended, hg := x.Barrier()
	if hg != nil {
		l2.HangFinding(r.v, "C10", hg)
		return false
	}
	okAdd := false
	okElec := false
	for _, m := range rs {
		if e := m.GetElectionId(); e != nil && gen.FromProto128(e).Cmp(id) == 0 {
			okElec = true
		}
		for _, a := range m.GetResult() {
			if a.GetId() == 1 && a.GetStatus() == spb.AFTResult_RIB_PROGRAMMED {
				okAdd = true
			}
		}
	}
	if ended || !okAdd || !okElec {
		r.fail("probe-failed", "%s: a new session could not negotiate, win the election and program an entry: ended=%v (%v) responses %v", when, ended, x.Err(), rs)
		return false
	}
	r.announce(id)
	r.belief.BeliefApply("DEFAULT", nh.Proto())
	_, err, hg := r.s.Flush(&spb.FlushRequest{Election: &spb.FlushRequest_Id{Id: id.Proto()}, NetworkInstance: &spb.FlushRequest_Name{Name: "VRF-B"}})
	if hg != nil {
		l2.HangFinding(r.v, "C10", hg)
		return false
	}
	if err != nil {
		r.fail("probe-flush-failed", "%s: Flush(VRF-B) by the new primary failed: %v", when, err)
		return false
	}
	r.belief.Flush([]string{"VRF-B"})
	if hg := x.Close(); hg != nil {
		l2.HangFinding(r.v, "C10", hg)
		return false
	}
	return r.observe(when+" + probe", nil, 0)
}

func (r *runner) modifyFault(fi int, f Fault) bool {
	when := fmt.Sprintf("fault %d (%+v)", fi, f)
	x := r.s.Open()
	id := gen.ID128{Hi: 0, Lo: uint64(r.round*10 + 1)}
	msgs := []*spb.ModifyRequest{drive.StdParams(false), {ElectionId: id.Proto()}}
	var batches [][]*gen.Op
	for b := 0; b < f.NBatches && r.next < len(r.ops); b++ {
		var ops []*gen.Op
		req := &spb.ModifyRequest{}
		for len(ops) < r.c.Batch && r.next < len(r.ops) {
			o := *r.ops[r.next]
			r.next++
			o.Elec = &id
			ops = append(ops, &o)
			req.Operation = append(req.Operation, o.Proto())
		}
		batches = append(batches, ops)
		msgs = append(msgs, req)
	}
	cut := f.Cut
	if cut > len(msgs) {
		cut = len(msgs)
	}
	nrespPlanned := 0 // responses the server would produce for the messages to be delivered
	for i := 0; i < cut; i++ {
		if i < 2 {
			nrespPlanned++
		} else {
			nrespPlanned += len(batches[i-2])
		}
	}
	k := f.K
	if k > nrespPlanned {
		k = nrespPlanned
	}
	switch f.Mode {
	case "send-error":
		if k >= 1 {
			x.FailSends(k)
		}
	case "cancel-blocked":
		if k >= 1 {
			x.BlockSends(k)
		}
	case "cancel-unread":
		x.PauseReads()
	}
	delivered := 0
	for i := 0; i < cut; i++ {
		ok, hg := x.Send(msgs[i])
		if hg != nil {
			l2.HangFinding(r.v, "C10", hg)
			return false
		}
		if !ok {
			break // the RPC ended already, or the server stopped reading (flow control)
		}
		delivered++
	}
	// what has been delivered (a delivered message is processed: the server's
	// reader handles it synchronously before it can park)
	var sent []*gen.Op
	for i := 2; i < delivered; i++ {
		sent = append(sent, batches[i-2]...)
	}
	nresp := nrespPlanned
	acked := 0
	countAcked := func() {
		n := 0
		for _, m := range x.Responses() {
			if len(m.GetResult()) > 0 || (m.GetElectionId() == nil && m.GetSessionParamsResult() == nil) {
				n++
			}
		}
		if n > len(sent) {
			n = len(sent)
		}
		acked = n
	}
	switch f.Mode {
	case "send-error":
		if k >= 1 {
			r.inside = r.inside || (k > 2 && k < nresp)
			if _, _, hg := x.WaitEnd(); hg != nil {
				l2.HangFinding(r.v, "C10", hg)
				return false
			}
			countAcked()
			break
		}
		fallthrough
	case "halfclose", "cancel", "recv-error":
		if f.Read && cut >= 1 {
			if cut == 1 {
				if _, _, hg := x.WaitOneOrEnd(); hg != nil {
					l2.HangFinding(r.v, "C10", hg)
					return false
				}
			} else if _, ended, hg := x.Barrier(); hg != nil || ended {
				l2.HangFinding(r.v, "C10", hg)
				if hg == nil {
					r.fail("rpc-ended-early", "%s: the RPC ended before the fault with %v", when, x.Err())
				}
				return false
			}
			acked = len(sent)
		}
		switch f.Mode {
		case "halfclose":
			x.HalfClose()
		case "cancel":
			x.Cancel()
		default:
			x.Fail(status.Error(codes.Unavailable, "transport is closing"))
		}
		if _, _, hg := x.WaitEnd(); hg != nil {
			l2.HangFinding(r.v, "C10", hg)
			return false
		}
		if !f.Read {
			countAcked()
		}
	case "cancel-unread":
		// real transport: nothing was read; the server works through what it received at its
		// own pace and may be anywhere when the cancellation arrives
		r.inside = r.inside || delivered > 2
		x.Cancel()
		if _, _, hg := x.WaitEnd(); hg != nil {
			l2.HangFinding(r.v, "C10", hg)
			return false
		}
		countAcked()
	case "cancel-blocked":
		if k >= 1 {
			blocked, hg := x.WaitBlocked()
			if hg != nil {
				l2.HangFinding(r.v, "C10", hg)
				return false
			}
			r.inside = r.inside || (blocked && k > 2 && k < nresp)
		}
		x.Cancel()
		if _, _, hg := x.WaitEnd(); hg != nil {
			l2.HangFinding(r.v, "C10", hg)
			return false
		}
		countAcked()
	}
	// the election message: certainly processed if its response reached the
	// client (or the stream was closed cleanly behind it); if the RPC was torn
	// down while it was in flight the server may not have processed it
	if delivered >= 2 {
		confirmed := f.Mode == "halfclose"
		for _, m := range x.Responses() {
			if m.GetElectionId() != nil {
				confirmed = true
			}
		}
		if confirmed {
			r.announce(id)
		} else {
			x := id
			r.maybeID = &x
		}
	}
	if f.Mode == "halfclose" && x.Err() != nil {
		r.fail("halfclose-status", "%s: a clean half-close ended the RPC with %v", when, x.Err())
	}
	if got := r.s.S.VerifSessions(); got != 0 {
		r.fail("session-footprint", "%s: the server still keeps state for %d sessions after the client went away", when, got)
	}
	if !r.observe(when, sent, acked) {
		return false
	}
	// operations of undelivered batches are simply never sent
	return true
}

// floodFault (real transport only): the client stops reading, floods the stream with cheap
// operations (unknown network instance: answered FAILED before any RIB code) until the
// server's writer is parked in HTTP/2 flow control, then sends NBatches real requests - which
// the server cannot have read yet - and goes away (cancel or connection close).
func (r *runner) floodFault(fi int, f Fault) bool {
	when := fmt.Sprintf("fault %d (%+v)", fi, f)
	x := r.s.Open()
	id := gen.ID128{Hi: 0, Lo: uint64(r.round*10 + 1)}
	x.Send(drive.StdParams(false))
	x.Send(&spb.ModifyRequest{ElectionId: id.Proto()})
	if rs, ended, hg := x.Barrier(); hg != nil || ended || len(rs) != 2 {
		l2.HangFinding(r.v, "C10", hg)
		if hg == nil {
			r.fail("setup", "%s: session setup: ended=%v %v", when, ended, rs)
		}
		return false
	}
	r.announce(id)
	x.PauseReads()
	junk := &spb.ModifyRequest{}
	for i := 0; i < r.c.Flood; i++ {
		o := &gen.Op{ID: uint64(1<<40 + i), NI: drive.BarrierNI, Kind: gen.NH, Act: gen.ADD, Key: "1", IP: "192.0.2.1", Elec: &id}
		junk.Operation = append(junk.Operation, o.Proto())
	}
	blocked := false
	deadline := time.Now().Add(drive.Watchdog)
	for n := 0; n < 400 && !blocked && time.Now().Before(deadline); n++ {
		x.SendAsync(junk)
		for w := 0; w < 20 && !blocked; w++ {
			time.Sleep(200 * time.Microsecond)
			blocked = x.ServerWriteBlocked()
		}
	}
	if blocked {
		r.v.Class("server-writer-flow-controlled")
		r.inside = true
	}
	var sent []*gen.Op
	for b := 0; b < f.NBatches && r.next < len(r.ops); b++ {
		req := &spb.ModifyRequest{}
		for n := 0; n < r.c.Batch && r.next < len(r.ops); n++ {
			o := *r.ops[r.next]
			r.next++
			o.Elec = &id
			sent = append(sent, &o)
			req.Operation = append(req.Operation, o.Proto())
		}
		x.SendAsync(req)
	}
	if f.Mode == "flow-control-connclose" {
		x.Fail(status.Error(codes.Unavailable, "connection closed"))
	} else {
		x.Cancel()
	}
	if _, _, hg := x.WaitEnd(); hg != nil {
		l2.HangFinding(r.v, "C10", hg)
		return false
	}
	if got := r.s.S.VerifSessions(); got != 0 {
		r.fail("session-footprint", "%s: the server still keeps state for %d sessions after the client went away", when, got)
	}
	return r.observe(when, sent, 0)
}

// touch re-programs one installed entry per table with its current payload.
func (r *runner) touch(when string) bool {
	seen := map[string]bool{}
	var ops []*gen.Op
	id := gen.ID128{Hi: 0, Lo: uint64(r.round*10 + 3)}
	for i := r.next - 1; i >= 0; i-- {
		o := r.ops[i]
		if o.Act == gen.DELETE || seen[o.Kind] {
			continue
		}
		p := o.Proto()
		k, ok := model.KeyOf(o.NI, p)
		if !ok {
			continue
		}
		cur, inst := r.belief.Ent[k]
		if !inst || !model.PayloadEqual(cur, model.Payload(p)) || !r.belief.Resolvable(o.NI, model.Payload(p)) {
			// (the probes flush VRF-B: an entry whose group lived there cannot be programmed again)
			continue
		}
		seen[o.Kind] = true
		oo := *o
		oo.ID = uint64(800000 + len(ops))
		oo.Act = gen.ADD
		oo.Elec = &id
		ops = append(ops, &oo)
	}
	if len(ops) == 0 {
		return true
	}
	x := r.s.Open()
	x.Send(drive.StdParams(false))
	x.Send(&spb.ModifyRequest{ElectionId: id.Proto()})
	req := &spb.ModifyRequest{}
	for _, o := range ops {
		req.Operation = append(req.Operation, o.Proto())
	}
	if _, hg := x.Send(req); hg != nil {
		l2.HangFinding(r.v, "C10", hg)
		return false
	}
	rs, ended, hg := x.Barrier()
	if hg != nil {
		l2.HangFinding(r.v, "C10", hg)
		return false
	}
	acks := 0
	for _, m := range rs {
		for _, a := range m.GetResult() {
			if a.GetStatus() == spb.AFTResult_RIB_PROGRAMMED {
				acks++
			}
		}
	}
	if ended || acks != len(ops) {
		r.fail("touch-failed", "%s: re-programming %d installed entries with their current payload: ended=%v (%v), %d acknowledged: %v", when, len(ops), ended, x.Err(), acks, rs)
		return false
	}
	r.announce(id)
	if hg := x.Close(); hg != nil {
		l2.HangFinding(r.v, "C10", hg)
		return false
	}
	r.v.Class("get-right-after-writes")
	return true
}

func (r *runner) getFault(fi int, f Fault) bool {
	when := fmt.Sprintf("fault %d (%+v)", fi, f)
	if f.Touch && !r.touch(when) {
		return false
	}
	total := len(r.belief.Ent)
	cut := f.GetCut
	if cut > total {
		cut = total
	}
	var rs []*spb.GetResponse
	var err error
	for i := 0; i <= f.Rep; i++ {
		var hg *drive.Hang
		rs, err, hg = r.s.Get(&spb.GetRequest{NetworkInstance: &spb.GetRequest_All{All: &spb.Empty{}}, Aft: spb.AFTType_ALL}, cut+1)
		if hg != nil {
			if i > 0 {
				hg.What = fmt.Sprintf("%s (abandoned Get number %d on this server)", hg.What, i+1)
			}
			l2.HangFinding(r.v, "C10", hg)
			return false
		}
	}
	if f.Rep > 0 {
		r.v.Class("many-abandoned-gets")
	}
	if cut < total {
		r.inside = true
		// over a real transport the remaining responses may all fit into the transport's
		// buffers before the cancellation arrives: OK is then a legitimate status
		if err == nil && !r.c.Net {
			r.fail("abandoned-get-ok", "%s: the client went away after %d of %d responses but Get returned OK", when, len(rs), total)
		}
	}
	return r.observe(when, nil, 0)
}

func runCase(c Case) *ev.Verdict {
	if c.InFlight != nil {
		return sess.RunInFlight(c.InFlight, "C10")
	}
	v := &ev.Verdict{}
	r := &runner{c: c, v: v, s: drive.NewSrv(false, hgen.NIs[1:]), belief: model.New("DEFAULT", hgen.NIs[1:], false)}
	if c.Net {
		r.s.UseNet()
		defer r.s.Shutdown()
		v.Class("real-transport")
	}
	for _, st := range c.H.Steps {
		if st.Op != nil {
			r.ops = append(r.ops, st.Op)
		}
	}
	if c.Batch < 1 {
		c.Batch = 1
		r.c.Batch = 1
	}
	for fi, f := range c.Faults {
		r.round = fi + 1
		ok := false
		if f.Kind == "get" {
			ok = r.getFault(fi, f)
		} else if strings.HasPrefix(f.Mode, "flow-control-") {
			if !c.Net {
				panic("flow-control faults need the real transport")
			}
			ok = r.floodFault(fi, f)
		} else {
			ok = r.modifyFault(fi, f)
		}
		v.Class("mode:" + f.Kind + "/" + f.Mode)
		if !ok || len(v.Findings) > 0 {
			return v
		}
		if !r.probe(fmt.Sprintf("after fault %d (%+v)", fi, f)) {
			return v
		}
	}
	if len(c.Faults) > 1 {
		v.Class("fault-sequence")
	}
	if r.inside {
		v.Class("cut-inside-batch-or-get")
	}
	v.NonTrivial = r.inside
	return v
}

func TestReplay(t *testing.T) {
	setup()
	for _, f := range ev.ReplayFiles() {
		var c Case
		if err := ev.LoadCase(f, &c); err != nil {
			t.Fatalf("%s: %v", f, err)
		}
		for i := 0; i < 5; i++ {
			v := runCase(c)
			if fresh := ev.C().Record(ev.JSON(c), v); len(fresh) > 0 {
				t.Errorf("%s: %v", f, fresh)
				break
			}
		}
	}
}

func drawHistory(rt *rapid.T) hgen.History {
	cfg := hgen.DefaultCfg()
	cfg.FlushPct = 0
	cfg.MinLen, cfg.MaxLen = 3, 16
	h := hgen.DrawHistory(rt, cfg)
	h.FwdRefs = false
	return h
}

var modes = []string{"halfclose", "cancel", "recv-error", "send-error", "cancel-blocked"}

func TestCampaign(t *testing.T) {
	setup()
	col := ev.C()
	t.Run("enumerate-cuts", func(t *testing.T) {
		// for every drawn script: every single-fault (cut, mode) pair
		rapid.Check(t, func(rt *rapid.T) {
			h := drawHistory(rt)
			batch := rapid.IntRange(1, 5).Draw(rt, "batch")
			nops := 0
			for _, st := range h.Steps {
				if st.Op != nil {
					nops++
				}
			}
			nb := (nops + batch - 1) / batch
			if nb > 3 {
				nb = 3
			}
			nmsgs := 2 + nb
			var cases []Case
			for cut := 0; cut <= nmsgs; cut++ {
				for _, mode := range modes[:3] {
					for _, read := range []bool{false, true} {
						cases = append(cases, Case{H: h, Batch: batch, Faults: []Fault{{Kind: "modify", NBatches: nb, Cut: cut, Read: read, Mode: mode}}})
					}
				}
			}
			nresp := 2 + nb*batch
			if nresp > 2+nops {
				nresp = 2 + nops
			}
			for k := 1; k <= nresp; k++ {
				for _, mode := range modes[3:] {
					cases = append(cases, Case{H: h, Batch: batch, Faults: []Fault{{Kind: "modify", NBatches: nb, Cut: nmsgs, Mode: mode, K: k}}})
				}
			}
			// abandoned Gets over the loaded contents: first load everything cleanly
			for g := 0; g <= nops; g++ {
				cases = append(cases, Case{H: h, Batch: batch, Faults: []Fault{{Kind: "modify", NBatches: 99, Cut: 99, Read: true, Mode: "halfclose"}, {Kind: "get", GetCut: g, Touch: g%2 == 1}}})
			}
			for _, c := range cases {
				v := runCase(c)
				col.Check(rt, ev.JSON(c), v)
			}
		})
	})
	t.Run("large-scripts", func(t *testing.T) {
		// a large RIB (dozens of next-hops and groups, 100+ prefixes) loaded in requests of up
		// to 64 operations: Gets abandoned with few, ~32, ~64 and many entries still to be
		// streamed, and requests cut at the K-th response deep inside a large batch
		rapid.Check(t, func(rt *rapid.T) {
			if rapid.IntRange(0, 5).Draw(rt, "large?") != 3 {
				return
			}
			bc := hgen.DefaultBulk()
			bc.BuildOnly = true
			h := hgen.DrawBulk(rt, bc)
			h.FwdRefs = false
			nops := len(h.Steps)
			batch := rapid.IntRange(24, 64).Draw(rt, "batch")
			load := Fault{Kind: "modify", NBatches: 9999, Cut: 9999, Read: true, Mode: "halfclose"}
			var cases []Case
			seen := map[int]bool{}
			for _, g := range []int{0, 1, 2, 3, 7, nops / 2, nops - 66, nops - 65, nops - 64, nops - 34, nops - 33, nops - 32, nops - 31, nops - 17, nops - 2, nops - 1} {
				if g < 0 || seen[g] {
					continue
				}
				seen[g] = true
				cases = append(cases, Case{H: h, Batch: batch, Faults: []Fault{load, {Kind: "get", GetCut: g, Touch: len(cases)%2 == 1}}})
			}
			nb := (nops + batch - 1) / batch
			for _, k := range []int{3, batch / 2, batch - 1, batch, batch + 1, batch + 2, batch + 3, 2 + batch + 16, 2 + batch + 32, 2 + batch + 33, nops} {
				for _, mode := range modes[3:] {
					cases = append(cases, Case{H: h, Batch: batch, Faults: []Fault{{Kind: "modify", NBatches: nb, Cut: 2 + nb, Mode: mode, K: k}}})
				}
			}
			for _, c := range cases {
				v := runCase(c)
				v.Class("large-script")
				col.Check(rt, ev.JSON(c), v)
			}
		})
	})
	t.Run("real-transport", func(t *testing.T) {
		// the same scripts with the server behind a real grpc.Server (bufconn): CloseSend,
		// context cancellation, connection teardown, an abandoned server stream, a client that
		// does not read, and HTTP/2 flow control stalling the server's writer
		rapid.Check(t, func(rt *rapid.T) {
			h := drawHistory(rt)
			batch := rapid.IntRange(1, 5).Draw(rt, "batch")
			nops := 0
			for _, st := range h.Steps {
				if st.Op != nil {
					nops++
				}
			}
			nb := (nops + batch - 1) / batch
			if nb > 3 {
				nb = 3
			}
			nmsgs := 2 + nb
			var cases []Case
			for _, mode := range modes[:3] {
				for _, read := range []bool{false, true} {
					cut := rapid.IntRange(0, nmsgs).Draw(rt, "cut")
					cases = append(cases, Case{Net: true, H: h, Batch: batch, Faults: []Fault{{Kind: "modify", NBatches: nb, Cut: cut, Read: read, Mode: mode}}})
				}
			}
			cases = append(cases, Case{Net: true, H: h, Batch: batch, Faults: []Fault{{Kind: "modify", NBatches: nb, Cut: nmsgs, Mode: "cancel-unread"}}})
			load := Fault{Kind: "modify", NBatches: 99, Cut: 99, Read: true, Mode: "halfclose"}
			for i := 0; i < 2; i++ {
				g := rapid.IntRange(0, nops).Draw(rt, "getcut")
				cases = append(cases, Case{Net: true, H: h, Batch: batch, Faults: []Fault{load, {Kind: "get", GetCut: g, Touch: i == 1}}})
			}
			if rapid.IntRange(0, 3).Draw(rt, "flood?") == 0 {
				mode := []string{"flow-control-cancel", "flow-control-connclose"}[rapid.IntRange(0, 1).Draw(rt, "floodmode")]
				pre := rapid.IntRange(0, 2).Draw(rt, "preload-batches")
				fs := []Fault{}
				if pre > 0 {
					fs = append(fs, Fault{Kind: "modify", NBatches: pre, Cut: 2 + pre, Read: true, Mode: "halfclose"})
				}
				fs = append(fs, Fault{Kind: "modify", NBatches: rapid.IntRange(0, 2).Draw(rt, "floodbatches"), Mode: mode})
				cases = append(cases, Case{Net: true, Flood: rapid.IntRange(256, 1024).Draw(rt, "flood"), H: h, Batch: batch, Faults: fs})
			}
			for _, c := range cases {
				v := runCase(c)
				col.Check(rt, ev.JSON(c), v)
			}
		})
	})
	t.Run("long-lived-server", func(t *testing.T) {
		// one server sees K clients abandon a Get (K around powers of two), then everything
		// must still work: limits on concurrent readers, per-client state and goroutines sit
		// at such sizes
		ks := []int{15, 16, 17, 31, 32, 33, 63, 64, 65, 127, 128, 129, 255, 256, 257}
		if ev.Thorough() {
			ks = append(ks, 511, 512, 513, 1023, 1024, 1025, 4097)
		}
		rapid.Check(t, func(rt *rapid.T) {
			if rapid.IntRange(0, 1).Draw(rt, "run?") != 0 {
				return
			}
			c := Case{H: drawHistory(rt), Batch: 5}
			c.Faults = append(c.Faults, Fault{Kind: "modify", NBatches: 3, Cut: 5, Read: true, Mode: "halfclose"})
			c.Faults = append(c.Faults, Fault{Kind: "get", GetCut: rapid.IntRange(0, 3).Draw(rt, "getcut"), Rep: ks[rapid.IntRange(0, len(ks)-1).Draw(rt, "k")] - 1, Touch: rapid.Bool().Draw(rt, "touch")})
			if rapid.Bool().Draw(rt, "net") {
				c.Net = true
				c.Faults[1].Rep = min(c.Faults[1].Rep, 129)
			}
			v := runCase(c)
			col.Check(rt, ev.JSON(c), v)
		})
	})
	t.Run("disconnect-during-a-hand-over", func(t *testing.T) {
		// the primary's request is stopped inside an operation (post-change hook); other sessions
		// announce election ids and the clients of idle sessions go away meanwhile; then the
		// operation is released: the election must end as the announcements say, everybody must
		// be answered and the primary's probe operation programmed
		rapid.Check(t, func(rt *rapid.T) {
			if rapid.IntRange(0, 1).Draw(rt, "run?") != 0 {
				return
			}
			f := sess.DrawInFlight(rt)
			gone := false
			for _, a := range f.Ann {
				gone = gone || a.Gone
			}
			if !gone {
				at := rapid.IntRange(0, len(f.Ann)).Draw(rt, "gone-at")
				f.Ann = append(f.Ann[:at:at], append([]sess.Ann{{Gone: true}}, f.Ann[at:]...)...)
			}
			c := Case{InFlight: f}
			v := runCase(c)
			col.Check(rt, ev.JSON(c), v)
		})
	})
	t.Run("fault-sequences", func(t *testing.T) {
		rapid.Check(t, func(rt *rapid.T) {
			c := Case{H: drawHistory(rt), Batch: rapid.IntRange(1, 5).Draw(rt, "batch")}
			nf := rapid.IntRange(2, 3).Draw(rt, "nfaults")
			for i := 0; i < nf; i++ {
				if rapid.IntRange(0, 3).Draw(rt, "get?") == 0 {
					c.Faults = append(c.Faults, Fault{Kind: "get", GetCut: rapid.IntRange(0, 6).Draw(rt, "getcut"), Touch: rapid.Bool().Draw(rt, "touch")})
					continue
				}
				f := Fault{Kind: "modify", NBatches: rapid.IntRange(0, 3).Draw(rt, "nbatches"), Mode: modes[rapid.IntRange(0, len(modes)-1).Draw(rt, "mode")]}
				f.Cut = rapid.IntRange(0, 2+f.NBatches).Draw(rt, "cut")
				f.Read = rapid.Bool().Draw(rt, "read")
				if f.Mode == "send-error" || f.Mode == "cancel-blocked" {
					f.Cut = 2 + f.NBatches
					f.K = rapid.IntRange(1, 2+f.NBatches*c.Batch).Draw(rt, "k")
					f.Read = false
				}
				c.Faults = append(c.Faults, f)
			}
			v := runCase(c)
			col.Check(rt, ev.JSON(c), v)
		})
	})
	col.MinimizeAll(minimize)
}

func minimize(sig string, cs []byte) []byte {
	var c Case
	if err := json.Unmarshal(cs, &c); err != nil {
		return nil
	}
	if c.InFlight != nil {
		return cs
	}
	fails := func(h hgen.History) bool {
		cc := c
		cc.H = h
		return runCase(cc).HasSig(sig)
	}
	fails = ev.Bounded(fails)
	if !fails(c.H) {
		return nil
	}
	c.H = hgen.Minimize(c.H, fails)
	return ev.JSON(c)
}
