// Package ev is the bookkeeping shared by every property package: it counts
// generated cases, classifies them, keeps samples, separates known findings
// from new violations, keeps the smallest failing case per signature and
// writes one shard file that the ./check driver aggregates into
// /verif/evidence/<id>.json.
package ev

import (
	"encoding/json"
	"flag"
	"fmt"
	"hash/fnv"
	"os"
	"path/filepath"
	"sort"
	"strconv"
	"strings"
	"sync"
	"testing"
	"time"
)

// Finding is one failed oracle clause. Sig is a short stable signature that
// names the clause and the structural feature of the failing case (never the
// concrete input); Msg is the human readable detail.
type Finding struct {
	Sig string `json:"sig"`
	Msg string `json:"msg"`
}

// Verdict is what running one case against the real code and the oracle
// produced.
type Verdict struct {
	Findings   []Finding
	NonTrivial bool
	Classes    []string
	// Inconclusive is set when the harness could not decide (for instance a
	// watchdog expired without a gribigo frame being blocked).
	Inconclusive string
}

func (v *Verdict) Fail(sig, format string, a ...any) {
	v.Findings = append(v.Findings, Finding{Sig: sig, Msg: fmt.Sprintf(format, a...)})
}

func (v *Verdict) Class(c string) { v.Classes = append(v.Classes, c) }

// Violation is a finding that is not listed as known, with the smallest case
// that produced it.
type Violation struct {
	Sig    string          `json:"sig"`
	Msg    string          `json:"msg"`
	Case   json.RawMessage `json:"case"`
	Replay string          `json:"replay"`
	N      int             `json:"n"`
	// GlogV: the process ran with this glog verbosity (-v) when the violation was seen
	GlogV int `json:"glog_v,omitempty"`
}

type knownEntry struct {
	Property  string `json:"property"`
	Signature string `json:"signature"`
	Status    string `json:"status"`
	What      string `json:"what"`
	Commit    string `json:"commit,omitempty"`
}

// Collector accumulates what one process (one shard) explored.
type Collector struct {
	Property    string
	Level       string
	Rule        string
	Assumptions []string

	mu           sync.Mutex
	evals        int
	nontriv      map[uint64]struct{}
	classes      map[string]int
	samples      []json.RawMessage
	ntSamples    int
	known        map[string]int
	knownSet     map[string]string
	viol         map[string]*Violation
	hangs        int
	extra        map[string]any
	inconclusive []string
	start        time.Time
	scopes       []map[string]any
}

var (
	global *Collector
)

// Tier returns "quick" or "thorough".
func Tier() string {
	if t := os.Getenv("VERIF_TIER"); t == "thorough" {
		return "thorough"
	}
	return "quick"
}

// Thorough reports whether the thorough tier was requested.
func Thorough() bool { return Tier() == "thorough" }

// Shard returns this process's shard index and the number of shards.
func Shard() (int, int) {
	k, _ := strconv.Atoi(os.Getenv("VERIF_SHARD"))
	n, _ := strconv.Atoi(os.Getenv("VERIF_NSHARDS"))
	if n <= 0 {
		n = 1
	}
	return k, n
}

// Seed is the VERIF_SEED value (default 1).
func Seed() int64 {
	s, err := strconv.ParseInt(os.Getenv("VERIF_SEED"), 10, 64)
	if err != nil {
		return 1
	}
	return s
}

// EnvInt reads an integer knob with a default.
func EnvInt(name string, def int) int {
	if v, err := strconv.Atoi(os.Getenv(name)); err == nil {
		return v
	}
	return def
}

// Pick returns q in the quick tier and th in the thorough tier, unless the
// environment variable name overrides it.
func Pick(name string, q, th int) int {
	d := q
	if Thorough() {
		d = th
	}
	return EnvInt(name, d)
}

// Main is called from TestMain of every property package.
func Main(m *testing.M, property, level string) {
	// glog: never create files in /tmp, write to stderr (the driver redirects it).
	_ = flag.Set("logtostderr", "true")
	_ = flag.Set("stderrthreshold", "FATAL")
	flag.Parse()
	// one shard of every campaign runs with verbose logging (the documented -v flag of the
	// binaries): log statements evaluate their arguments only then
	if v, err := strconv.Atoi(os.Getenv("VERIF_GLOG_V")); err == nil && v > 0 {
		SetGlogV(v)
	}
	c := New(property, level)
	global = c
	code := m.Run()
	c.Flush(code)
	os.Exit(code)
}

var glogV int

// SetGlogV sets glog's verbosity (the flag can be changed while running).
func SetGlogV(v int) {
	glogV = v
	_ = flag.Set("v", strconv.Itoa(v))
}

// C returns the process-wide collector.
func C() *Collector { return global }

func New(property, level string) *Collector {
	c := &Collector{
		Property: property,
		Level:    level,
		nontriv:  map[uint64]struct{}{},
		classes:  map[string]int{},
		known:    map[string]int{},
		knownSet: map[string]string{},
		viol:     map[string]*Violation{},
		extra:    map[string]any{},
		start:    time.Now(),
	}
	path := os.Getenv("VERIF_KNOWN")
	if path == "" {
		path = "/verif/known_findings.json"
	}
	if b, err := os.ReadFile(path); err == nil {
		var f struct {
			Findings []knownEntry `json:"findings"`
		}
		if err := json.Unmarshal(b, &f); err == nil {
			for _, k := range f.Findings {
				if k.Property == property && k.Status == "known" {
					c.knownSet[k.Signature] = k.What
				}
			}
		}
	}
	return c
}

// IsKnown reports whether sig is listed as a known (unrepaired) finding of
// this property. Oracles use it to tolerate exactly that pattern and go on.
func (c *Collector) IsKnown(sig string) bool {
	c.mu.Lock()
	defer c.mu.Unlock()
	_, ok := c.knownSet[sig]
	return ok
}

// Digest is a 64-bit FNV-1a of b.
func Digest(b []byte) uint64 {
	h := fnv.New64a()
	h.Write(b)
	return h.Sum64()
}

// Fataler is the subset of testing.TB / rapid.T the collector needs.
type Fataler interface {
	Fatalf(format string, args ...any)
}

// Record books one executed case. cs is the JSON form of the case. It returns
// the findings that are NOT known (new violations).
func (c *Collector) Record(cs []byte, v *Verdict) []Finding {
	c.mu.Lock()
	defer c.mu.Unlock()
	c.evals++
	for _, cl := range v.Classes {
		c.classes[cl]++
	}
	if glogV > 0 {
		c.classes[fmt.Sprintf("process-runs-with-glog-v=%d", glogV)]++
	}
	if v.Inconclusive != "" {
		c.inconclusive = append(c.inconclusive, v.Inconclusive)
	}
	if v.NonTrivial {
		d := Digest(cs)
		if _, seen := c.nontriv[d]; !seen {
			c.nontriv[d] = struct{}{}
			// keep the first few and then a thinning sample of non-trivial cases
			c.ntSamples++
			n := c.ntSamples
			if n <= 3 || (n&(n-1)) == 0 && len(c.samples) < 8 {
				if len(cs) < 20000 {
					c.samples = append(c.samples, json.RawMessage(append([]byte(nil), cs...)))
				}
			}
		}
	} else if len(c.samples) == 0 && c.evals == 1 && len(cs) < 20000 {
		c.samples = append(c.samples, json.RawMessage(append([]byte(nil), cs...)))
	}
	var fresh []Finding
	for _, f := range v.Findings {
		if _, ok := c.knownSet[f.Sig]; ok {
			c.known[f.Sig]++
			continue
		}
		fresh = append(fresh, f)
		if strings.Contains(f.Sig, "/hang:") {
			// every hang costs a watchdog period: a process that keeps finding them stops
			// early (with what it found; the saved case is then not minimised) instead of
			// spending its whole time budget waiting
			if c.hangs++; c.hangs >= EnvInt("VERIF_MAX_HANGS", 8) {
				if old := c.viol[f.Sig]; old == nil {
					c.viol[f.Sig] = &Violation{Sig: f.Sig, Msg: f.Msg, Case: append([]byte(nil), cs...), N: 1, GlogV: glogV}
				} else {
					old.N++
				}
				c.flushLocked(1)
				fmt.Fprintf(os.Stderr, "stopping after %d hang findings\n", c.hangs)
				os.Exit(1)
			}
		}
		old := c.viol[f.Sig]
		if old == nil {
			c.viol[f.Sig] = &Violation{Sig: f.Sig, Msg: f.Msg, Case: append([]byte(nil), cs...), N: 1, GlogV: glogV}
			c.flushLocked(-1)
		} else {
			old.N++
			if len(cs) <= len(old.Case) {
				old.Msg = f.Msg
				old.Case = append([]byte(nil), cs...)
				old.GlogV = glogV
			}
		}
	}
	return fresh
}

// Check records the case and makes t fail when there is a new violation.
func (c *Collector) Check(t Fataler, cs []byte, v *Verdict) {
	fresh := c.Record(cs, v)
	if len(fresh) > 0 && t != nil {
		var sb strings.Builder
		for _, f := range fresh {
			fmt.Fprintf(&sb, "[%s] %s\n", f.Sig, f.Msg)
		}
		t.Fatalf("property %s violated:\n%s", c.Property, sb.String())
	}
}

// Known books an occurrence of a known finding that was tolerated by an oracle.
func (c *Collector) Known(sig string) {
	c.mu.Lock()
	defer c.mu.Unlock()
	c.known[sig]++
}

// Extra stores an additional evidence key.
func (c *Collector) Extra(k string, v any) {
	c.mu.Lock()
	defer c.mu.Unlock()
	c.extra[k] = v
}

// AddExtraInt adds to an integer-valued evidence key.
func (c *Collector) AddExtraInt(k string, d int) {
	c.mu.Lock()
	defer c.mu.Unlock()
	cur, _ := c.extra[k].(int)
	c.extra[k] = cur + d
}

// Scope records an enumerated scope; exhaustive says the scope was enumerated
// completely by the union of all shards.
func (c *Collector) Scope(name string, size int, exhaustive bool) {
	c.mu.Lock()
	defer c.mu.Unlock()
	c.scopes = append(c.scopes, map[string]any{"name": name, "cases_this_shard": size, "exhaustive_over_all_shards": exhaustive})
}

// Violations returns how many distinct new signatures were seen.
func (c *Collector) Violations() int {
	c.mu.Lock()
	defer c.mu.Unlock()
	return len(c.viol)
}

// Flush writes the shard file.
func (c *Collector) Flush(exit int) {
	c.mu.Lock()
	defer c.mu.Unlock()
	c.flushLocked(exit)
}

// flushLocked writes the shard document. It is also called (with exit -1) whenever a new
// violation signature is recorded, so that a shard that is killed later - a hang in every
// following case eats the time budget - has still reported what it found.
func (c *Collector) flushLocked(exit int) {
	out := os.Getenv("VERIF_OUT")
	if out == "" {
		return
	}
	_ = os.MkdirAll(out, 0o755)
	k, n := Shard()
	digs := make([]string, 0, len(c.nontriv))
	for d := range c.nontriv {
		digs = append(digs, strconv.FormatUint(d, 16))
	}
	sort.Strings(digs)
	viol := []*Violation{}
	for _, v := range c.viol {
		viol = append(viol, v)
	}
	sort.Slice(viol, func(i, j int) bool { return viol[i].Sig < viol[j].Sig })
	doc := map[string]any{
		"property":     c.Property,
		"level":        c.Level,
		"rule":         c.Rule,
		"assumptions":  c.Assumptions,
		"tier":         Tier(),
		"shard":        k,
		"nshards":      n,
		"seed":         Seed(),
		"evaluations":  c.evals,
		"nontrivial":   digs,
		"classes":      c.classes,
		"samples":      c.samples,
		"known":        c.known,
		"violations":   viol,
		"extra":        c.extra,
		"scopes":       c.scopes,
		"inconclusive": c.inconclusive,
		"exit":         exit,
		"wall_s":       time.Since(c.start).Seconds(),
		"phase":        os.Getenv("VERIF_PHASE"),
	}
	b, _ := json.MarshalIndent(doc, "", " ")
	name := fmt.Sprintf("shard-%s-%d.json", os.Getenv("VERIF_PHASE"), k)
	_ = os.WriteFile(filepath.Join(out, name), b, 0o644)
}

// ReplayFiles lists the replay files this process was asked to run:
// VERIF_REPLAY_FILE (one file) or every *.json in VERIF_REPLAY_DIR.
func ReplayFiles() []string {
	if f := os.Getenv("VERIF_REPLAY_FILE"); f != "" {
		return []string{f}
	}
	d := os.Getenv("VERIF_REPLAY_DIR")
	if d == "" {
		return nil
	}
	m, _ := filepath.Glob(filepath.Join(d, "*.json"))
	sort.Strings(m)
	return m
}

// LoadCase reads a replay file. A replay file is either the bare case or an
// object {"case": ...} as written by the driver.
func LoadCase(path string, into any) error {
	b, err := os.ReadFile(path)
	if err != nil {
		return err
	}
	var wrap struct {
		Case  json.RawMessage `json:"case"`
		GlogV int             `json:"glog_v"`
	}
	if err := json.Unmarshal(b, &wrap); err == nil && len(wrap.Case) > 0 {
		SetGlogV(wrap.GlogV) // the verbosity the violation was seen with (0 = default)
		return json.Unmarshal(wrap.Case, into)
	}
	return json.Unmarshal(b, into)
}

// JSON marshals v, panicking on error (cases are plain data).
func JSON(v any) []byte {
	b, err := json.Marshal(v)
	if err != nil {
		panic(err)
	}
	return b
}

// MinimizeAll post-processes every recorded violation with a property-specific
// minimiser (delta debugging on the case); fn returns a smaller case that still
// shows the same signature, or nil to keep the current one.
func (c *Collector) MinimizeAll(fn func(sig string, cs []byte) []byte) {
	minDeadline = time.Now().Add(time.Duration(EnvInt("VERIF_MINIMIZE_TOTAL_S", 150)) * time.Second)
	c.mu.Lock()
	todo := []*Violation{}
	for _, v := range c.viol {
		todo = append(todo, v)
	}
	c.mu.Unlock()
	for _, v := range todo {
		if out := fn(v.Sig, v.Case); out != nil && len(out) < len(v.Case) {
			c.mu.Lock()
			v.Case = out
			c.mu.Unlock()
		}
	}
}

// HasSig reports whether a verdict contains a finding with signature sig.
func (v *Verdict) HasSig(sig string) bool {
	for _, f := range v.Findings {
		if f.Sig == sig {
			return true
		}
	}
	return false
}

// Inflight writes the case that is about to be executed to a per-shard file so
// that the driver can name it when the test process dies (a panic in a
// goroutine the harness does not own cannot be recovered).
func (c *Collector) Inflight(cs []byte) {
	out := os.Getenv("VERIF_OUT")
	if out == "" {
		return
	}
	k, _ := Shard()
	_ = os.WriteFile(filepath.Join(out, fmt.Sprintf("inflight-%s-%d.json", os.Getenv("VERIF_PHASE"), k)), cs, 0o644)
}

var minDeadline time.Time

// Bounded wraps the "still fails" predicate of a minimiser with a time budget:
// once the budget of this call (default 45 s) or of the whole MinimizeAll pass
// is used up it reports false, so that shrinking stops and the smallest case
// found so far is kept. Large (bulk) cases would otherwise be re-executed
// thousands of times.
func Bounded[T any](f func(T) bool) func(T) bool {
	dl := time.Now().Add(time.Duration(EnvInt("VERIF_MINIMIZE_S", 45)) * time.Second)
	if !minDeadline.IsZero() && minDeadline.Before(dl) {
		dl = minDeadline
	}
	first := true
	return func(x T) bool {
		if !first && time.Now().After(dl) {
			return false
		}
		first = false
		return f(x)
	}
}
