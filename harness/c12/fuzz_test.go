package c12

import (
	"fmt"
	"testing"

	"google.golang.org/protobuf/proto"

	spb "github.com/openconfig/gribi/v1/proto/service"
	"github.com/openconfig/gribigo/rib"

	"verifh/internal/ev"
	"verifh/internal/gen"
	"verifh/internal/hgen"
	"verifh/internal/l1"
	"verifh/internal/model"
	"verifh/internal/obs"
)

// preload is a fixed valid RIB the fuzzed operation is applied to (rebuilt at
// the top of every iteration: no state leaks between iterations).
func fuzzPreload() *rib.RIB {
	r := l1.NewRIB(true, l1.Opts{})
	ops := []*gen.Op{
		{ID: 1, NI: "DEFAULT", Kind: gen.NH, Act: gen.ADD, Key: "1", IP: "192.0.2.1"},
		{ID: 2, NI: "DEFAULT", Kind: gen.NH, Act: gen.ADD, Key: "2", Intf: "eth0"},
		{ID: 3, NI: "DEFAULT", Kind: gen.NHG, Act: gen.ADD, Key: "1", Hops: []gen.Hop{{Index: 1}, {Index: 2, Weight: gen.U(3)}}},
		{ID: 4, NI: "DEFAULT", Kind: gen.V4, Act: gen.ADD, Key: "1.0.0.0/8", Group: 1},
		{ID: 5, NI: "VRF-A", Kind: gen.V6, Act: gen.ADD, Key: "2001:db8::/32", Group: 1, GroupNI: "DEFAULT"},
		{ID: 6, NI: "DEFAULT", Kind: gen.MPLS, Act: gen.ADD, Key: "100", Group: 1},
		{ID: 7, NI: "DEFAULT", Kind: gen.NHG, Act: gen.ADD, Key: "2", Hops: []gen.Hop{{Index: 3}}}, // held
	}
	for _, o := range ops {
		r.AddEntry(o.NI, o.Proto())
	}
	return r
}

// FuzzOp: any byte string that decodes as an AFTOperation is applied to a
// pre-loaded RIB. Oracle inside the target: no panic; a rejected operation
// leaves contents, held set and counters identical; an accepted one keeps the
// counters equal to the referrers of the new contents and the contents readable.
func FuzzOp(f *testing.F) {
	for _, op := range constructed() {
		if b, err := (proto.MarshalOptions{AllowPartial: true}).Marshal(op); err == nil {
			f.Add(b)
		}
	}
	full := &gen.Op{ID: 9, NI: "DEFAULT", Kind: gen.NH, Act: gen.ADD, Key: "4", IP: "192.0.2.9", MAC: "00:00:5e:00:53:01", Intf: "eth0", Subintf: gen.U(1),
		IPinIPSrc: "192.0.2.1", IPinIPDst: "192.0.2.2", EncapH: gen.EncapMPLS, Decap: gen.EncapIPv4, Pushed: []uint64{16, 100}, PopTop: true, NHNI: "VRF-A",
		Encaps: []gen.Encap{{Index: 1, Type: "mpls", Labels: []uint64{100}}, {Index: 2, Type: "udpv6", DSCP: gen.U(3), DstIP: "2001:db8::2", DstPort: gen.U(6635), TTL: gen.U(64), SrcIP: "2001:db8::3", SrcPort: gen.U(49152)}}}
	for _, o := range []*gen.Op{full,
		{ID: 9, NI: "DEFAULT", Kind: gen.NHG, Act: gen.ADD, Key: "3", Hops: []gen.Hop{{Index: 1, Weight: gen.U(1)}}, Backup: gen.U(1), Color: gen.U(2)},
		{ID: 9, NI: "VRF-A", Kind: gen.V4, Act: gen.REPLACE, Key: "1.0.0.0/8", Group: 1, GroupNI: "DEFAULT", Meta: []byte{1, 2, 3}},
		{ID: 9, NI: "DEFAULT", Kind: gen.MPLS, Act: gen.ADD, Key: "101", Group: 1, Popped: []uint64{100, 100}},
		{ID: 9, NI: "DEFAULT", Kind: gen.NH, Act: gen.DELETE, Key: "1", NoPayload: true},
	} {
		b, _ := proto.Marshal(o.Proto())
		f.Add(b)
	}
	f.Fuzz(func(t *testing.T, data []byte) {
		op := &spb.AFTOperation{}
		if err := (proto.UnmarshalOptions{AllowPartial: true}).Unmarshal(data, op); err != nil {
			return
		}
		ni := op.GetNetworkInstance()
		r := fuzzPreload()
		if _, ok := r.NetworkInstanceRIB(ni); !ok || ni == "" {
			return // the server answers these before the RIB is reached
		}
		before, err := takeSnap(r)
		if err != nil {
			t.Fatalf("preload unreadable: %v", err)
		}
		var oks, fails []*rib.OpResult
		var cerr error
		if p := l1.Protect(func() {
			switch op.GetOp() {
			case spb.AFTOperation_DELETE:
				oks, fails, cerr = r.DeleteEntry(ni, op)
			case spb.AFTOperation_ADD, spb.AFTOperation_REPLACE:
				oks, fails, cerr = r.AddEntry(ni, op)
			}
		}); p != "" {
			t.Fatalf("panic: %s", p)
		}
		after, err := takeSnap(r)
		if err != nil {
			t.Fatalf("after the operation the RIB contents cannot be marshalled: %v", err)
		}
		own := false
		for _, o := range oks {
			if o.ID == op.GetId() {
				own = true
			}
		}
		_, heldNow := after.held[op.GetId()]
		_, wasHeld := before.held[op.GetId()]
		if cerr != nil || (!own && !(heldNow && !wasHeld)) {
			// rejected (or nothing happened): nothing may have changed
			_ = fails
			if d := obs.Diff(before.st, after.st); len(d) > 0 || fmt.Sprint(before.held) != fmt.Sprint(after.held) || before.counts != after.counts {
				// a colliding id may legitimately... no: a failed operation must not drop or alter anything
				t.Fatalf("rejected operation changed the state: entries %v held %v -> %v counters %s -> %s", d, before.held, after.held, before.counts, after.counts)
			}
			return
		}
		m2 := model.New("DEFAULT", hgen.NIs[1:], true)
		for k, p := range after.st {
			m2.Ent[k] = p
		}
		v := &evVerdict{}
		obs.CheckCounters(m2, r, &v.Verdict, "C12/fuzz-counters", "after accepted operation")
		if len(v.Findings) > 0 {
			t.Fatalf("%v", v.Findings)
		}
	})
}

type evVerdict struct{ ev.Verdict }
