// Package l2 runs single-primary operation histories through
// server.Modify/Get/Flush over the in-process streams of package drive ("L2").
package l2

import (
	"fmt"
	"strings"

	"google.golang.org/grpc/status"

	spb "github.com/openconfig/gribi/v1/proto/service"
	"github.com/openconfig/gribigo/server"

	"verifh/internal/clock"
	"verifh/internal/drive"
	"verifh/internal/ev"
	"verifh/internal/gen"
	"verifh/internal/hgen"
	"verifh/internal/l1"
	"verifh/internal/model"
	"verifh/internal/obs"
)

// Opts configures RunHistory.
type Opts struct {
	P       string
	Trusted bool
	FIB     bool
	// Batch holds the sizes of consecutive ModifyRequests (cycled).
	Batch []int
	// Fatal: 1-based index (among operation steps) of an operation that is sent
	// with a fatal election stamp: FatalKind 1 = no election id, 2 = no entry. The RPC must end there and nothing behind it in the
	// same request may leave a trace.
	Fatal     int
	FatalKind int
	SrvOpts   []server.ServerOpt
	// VRFs, when set, replaces the default non-default instances {VRF-A, VRF-B}.
	VRFs []string
	// Bystander > 0: before the session, another session negotiates the same parameters and
	// announces the same election id (the session announces it afterwards and is therefore the
	// primary); the bystander never sends an operation and its stream is half-closed immediately
	// before the request that contains step Bystander. Nothing may change for the session.
	Bystander int
	// LateVRF > 0: the last non-default instance does not exist at first; it is created with
	// Server.AddNetworkInstance immediately before the request that contains step LateVRF
	// (0-based index into the history; after the harness's reads of all instances that follow
	// every earlier request). Operations for it before that must fail as for an unknown instance.
	LateVRF int
	// RuntimeVRFs: create the VRFs with Server.AddNetworkInstance after New
	// instead of server.WithVRFs.
	RuntimeVRFs bool
	// Elec overrides the election id of the session (default (0,1)).
	Elec *gen.ID128
	// OnFlush, when set, performs the flush of a Flush step itself (C08) and
	// returns the network instances that were emptied.
	OnFlush func(s *drive.Srv, m *model.RIB, step int, st hgen.Step, observe func(when string) bool, v *ev.Verdict) (flushed []string, ok bool)
	// Final is called once after the last step, while the session is still open.
	Final func(s *drive.Srv, m *model.RIB, v *ev.Verdict)
	// Net: drive the server through real gRPC over bufconn ("L3") instead of the
	// in-process streams. Fatal must be 0 (a response produced while the RPC ends
	// is not observable over a real transport).
	Net bool
	// ReElect > 0: after every ReElect-th request the session announces a higher election id
	// (the primary raises its own id, which changes nothing else: entries, held operations and
	// counters stay) and stamps its later operations with it.
	ReElect int
	// NoRefCheck: the server is built with server.DisableRIBCheckFn() and the model does no
	// reference checking (counters are not compared).
	NoRefCheck bool
	// ObserveEvery > 1: the server is read back (Get + hooks) only after every n-th request
	// and at the end, so that several writes in a row are not separated by the harness's own
	// reads (a server-side read cache must not depend on being refreshed by the observer).
	// The model and the fold are advanced after every request all the same.
	ObserveEvery int
	// AfterBatch is called at every observation point.
	AfterBatch func(s *drive.Srv, m *model.RIB, v *ev.Verdict, when string)
}

// Split turns the results of one ModifyResponse into an outcome.
func Split(r *spb.ModifyResponse) (out model.Outcome, fib []uint64, other int) {
	out.Unordered = true
	for _, x := range r.GetResult() {
		switch x.GetStatus() {
		case spb.AFTResult_RIB_PROGRAMMED:
			out.OKs = append(out.OKs, x.GetId())
		case spb.AFTResult_FAILED:
			out.Fails = append(out.Fails, x.GetId())
		case spb.AFTResult_FIB_PROGRAMMED:
			fib = append(fib, x.GetId())
		default:
			other++
		}
	}
	return
}

// HangFinding books a watchdog expiry: a violation when a gribigo frame is
// blocked, otherwise inconclusive.
func HangFinding(v *ev.Verdict, P string, h *drive.Hang) {
	if h == nil {
		return
	}
	if h.Blocked != "" {
		v.Fail(P+"/hang:"+h.Blocked, "%s\n%s", h.Error(), trimDump(h.Dump))
	} else {
		v.Inconclusive = h.Error()
	}
}

func trimDump(d string) string {
	if len(d) > 6000 {
		return d[:6000] + "\n…"
	}
	return d
}

// Observe reads the whole RIB through the Get RPC.
func Observe(s *drive.Srv, v *ev.Verdict, P, when string) (obs.State, bool) {
	rs, err, h := s.GetAll()
	if h != nil {
		HangFinding(v, P, h)
		return nil, false
	}
	if err != nil {
		v.Fail(P+"/get-failed", "%s: Get(ALL, all NIs) failed: %v", when, err)
		return nil, false
	}
	st, dups, bad := obs.FromGet(rs)
	if len(dups) > 0 {
		v.Fail(P+"/get-duplicate", "%s: Get streamed keys twice: %v", when, dups)
	}
	if len(bad) > 0 {
		v.Fail(P+"/get-bad-entry", "%s: Get streamed entries without a payload: %v", when, bad)
	}
	return st, true
}

// Elec is the election id the single session of RunHistory uses.
var Elec = gen.ID128{Hi: 0, Lo: 1}

// RunHistory executes h on one elected session.
func RunHistory(h hgen.History, o Opts) (*ev.Verdict, *l1.Trace) {
	v := &ev.Verdict{}
	tr := &l1.Trace{}
	P := o.P
	if o.NoRefCheck {
		o.SrvOpts = append(append([]server.ServerOpt(nil), o.SrvOpts...), server.DisableRIBCheckFn())
	}
	clock.Install()
	vrfs := hgen.NIs[1:]
	if o.VRFs != nil {
		vrfs = o.VRFs
	}
	allNIs := append([]string{"DEFAULT"}, vrfs...)
	late := ""
	if o.LateVRF > 0 && len(vrfs) > 0 {
		late = vrfs[len(vrfs)-1]
		vrfs = vrfs[:len(vrfs)-1]
	}
	var s *drive.Srv
	if o.RuntimeVRFs {
		s = drive.NewSrv(h.FwdRefs, nil, o.SrvOpts...)
		for _, n := range vrfs {
			if err := s.S.AddNetworkInstance(n); err != nil {
				panic(err)
			}
		}
	} else {
		s = drive.NewSrv(h.FwdRefs, vrfs, o.SrvOpts...)
	}
	if o.Net {
		s.UseNet()
		defer s.Shutdown()
	}
	m := model.New("DEFAULT", vrfs, h.FwdRefs)
	m.RefCheck = !o.NoRefCheck
	fold := obs.State{}
	type sent struct {
		ni string
		op *spb.AFTOperation
	}
	byID := map[uint64]sent{}

	elec := Elec
	if o.Elec != nil {
		elec = *o.Elec
	}
	var by *drive.Session
	if o.Bystander > 0 {
		by = s.Open()
		by.Send(drive.StdParams(o.FIB))
		by.Send(&spb.ModifyRequest{ElectionId: elec.Proto()})
		if rs, ended, hg := by.Barrier(); hg != nil || ended || len(rs) != 2 {
			if hg != nil {
				HangFinding(v, P, hg)
			} else {
				v.Fail(P+"/setup", "bystander session setup: ended=%v err=%v responses=%v", ended, by.Err(), rs)
			}
			return v, tr
		}
		v.Class("bystander-session-with-the-same-election-id")
		defer func() {
			if by != nil {
				by.Close()
			}
		}()
	}
	x := s.Open()
	defer func() {
		if hg := x.Close(); hg != nil && len(v.Findings) == 0 {
			HangFinding(v, P, hg)
		}
	}()
	if _, hg := x.Send(drive.StdParams(o.FIB)); hg != nil {
		HangFinding(v, P, hg)
		return v, tr
	}
	if _, hg := x.Send(&spb.ModifyRequest{ElectionId: elec.Proto()}); hg != nil {
		HangFinding(v, P, hg)
		return v, tr
	}
	rs, ended, hg := x.Barrier()
	if hg != nil {
		HangFinding(v, P, hg)
		return v, tr
	}
	if ended || len(rs) != 2 {
		v.Fail(P+"/setup", "session setup: ended=%v err=%v responses=%v", ended, x.Err(), rs)
		return v, tr
	}

	observe := func(when string) bool {
		got, ok := Observe(s, v, P, when)
		if !ok {
			return false
		}
		if d := obs.Diff(fold, got); len(d) > 0 {
			v.Fail(P+"/fold-mismatch:"+obs.DiffClass(d), "%s: Get does not return the fold of the acknowledged operations: %s", when, strings.Join(d, "; "))
		}
		obs.CheckInstalled(m, got, v, P+"/installed-vs-model", when)
		obs.CheckHeld(m, s.S.VerifRIB(), v, P+"/held-vs-model", when)
		if !o.NoRefCheck {
			obs.CheckCounters(m, s.S.VerifRIB(), v, P+"/counter-vs-referrers", when)
		}
		if o.AfterBatch != nil {
			o.AfterBatch(s, m, v, when)
		}
		return len(v.Findings) == 0
	}

	opIdx := 0
	bi := 0
	i := 0
	nreq := 0
	for i < len(h.Steps) {
		if by != nil && i >= o.Bystander {
			if hg := by.Close(); hg != nil {
				HangFinding(v, P, hg)
				return v, tr
			}
			by = nil
		}
		if late != "" && i >= o.LateVRF {
			if err := s.S.AddNetworkInstance(late); err != nil {
				v.Fail(P+"/add-network-instance", "before step %d: AddNetworkInstance(%q): %v", i, late, err)
				return v, tr
			}
			m.NIs[late] = true
			late = ""
			v.Class("network-instance-created-at-runtime")
		}
		st := h.Steps[i]
		if st.Op == nil {
			i++
			clock.Apply(st.Clock)
			tr.Flushes++
			var nis []string
			if o.OnFlush != nil {
				var ok bool
				nis, ok = o.OnFlush(s, m, i-1, st, observe, v)
				if !ok {
					return v, tr
				}
			} else {
				req := &spb.FlushRequest{Election: &spb.FlushRequest_Id{Id: elec.Proto()}}
				if len(st.Flush) == 1 {
					req.NetworkInstance = &spb.FlushRequest_Name{Name: st.Flush[0]}
					tr.PartialFlushes++
				} else {
					req.NetworkInstance = &spb.FlushRequest_All{All: &spb.Empty{}}
				}
				_, _, hg := s.Flush(req) // the status of Flush is C08's subject
				if hg != nil {
					HangFinding(v, P, hg)
					return v, tr
				}
				nis = st.Flush
				if len(nis) != 1 {
					nis = allNIs
				}
			}
			m.Flush(nis)
			set := map[string]bool{}
			for _, n := range nis {
				set[n] = true
			}
			for k := range fold {
				if set[k.NI] {
					delete(fold, k)
				}
			}
			if len(m.Ent) > 0 {
				tr.FlushSurvivors++
			}
			if !observe(fmt.Sprintf("after step %d flush %v", i-1, nis)) {
				return v, tr
			}
			continue
		}
		// collect a batch of consecutive operation steps
		size := 1
		if len(o.Batch) > 0 {
			size = o.Batch[bi%len(o.Batch)]
			bi++
		}
		var ops []*gen.Op
		for i < len(h.Steps) && h.Steps[i].Op != nil && len(ops) < size {
			ops = append(ops, h.Steps[i].Op)
			// (the clock events of all operations of a request happen before the request)
			if h.Steps[i].Clock != 0 {
				clock.Apply(h.Steps[i].Clock)
				v.Class("clock-stepped-or-frozen")
			}
			i++
		}
		req := &spb.ModifyRequest{}
		fatalAt := -1
		for j, op := range ops {
			opIdx++
			p := op.Proto()
			p.ElectionId = elec.Proto()
			if o.Fatal == opIdx {
				fatalAt = j
				switch o.FatalKind {
				case 2:
					p.Entry = nil // no entry at all: the RIB call reports a fatal error
				default:
					p.ElectionId = nil
				}
			}
			byID[p.GetId()] = sent{op.NI, p}
			req.Operation = append(req.Operation, p)
		}
		if _, hg := x.Send(req); hg != nil {
			HangFinding(v, P, hg)
			return v, tr
		}
		when := fmt.Sprintf("after request of %d op(s) ending at step %d", len(ops), i-1)
		var rs []*spb.ModifyResponse
		var ended bool
		if fatalAt >= 0 {
			// no barrier here: it would race with the end of the RPC
			rs, ended, hg = x.WaitEnd()
			// a response the server produced just before the RPC ended may be
			// undeliverable (the handler returned first); it still counts as the
			// server's acknowledgement.
			rs = append(rs, x.Late()...)
			if hg != nil && hg.What == "wait for RPC end" {
				v.Fail(P+"/fatal-op-not-fatal", "%s: op %d carried a fatal election stamp but the RPC did not end", when, req.Operation[fatalAt].GetId())
				return v, tr
			}
		} else {
			rs, ended, hg = x.Barrier()
		}
		if hg != nil {
			HangFinding(v, P, hg)
			return v, tr
		}
		answered := len(ops)
		if fatalAt >= 0 {
			answered = fatalAt
			if !ended {
				v.Fail(P+"/fatal-op-not-fatal", "%s: op %d carried a fatal election stamp but the RPC did not end; responses %v", when, req.Operation[fatalAt].GetId(), rs)
				return v, tr
			}
			if st, _ := status.FromError(x.Err()); x.Err() == nil || st == nil {
				v.Fail(P+"/fatal-op-ok-status", "%s: RPC ended with %v after a fatal op", when, x.Err())
			}
		} else if ended {
			v.Fail(P+"/rpc-ended", "%s: RPC ended unexpectedly with %v", when, x.Err())
			return v, tr
		}
		if len(rs) != answered {
			v.Fail(P+"/response-count", "%s: want one ModifyResponse per processed operation (%d), got %d: %v", when, answered, len(rs), rs)
			return v, tr
		}
		for j := 0; j < answered; j++ {
			p := req.Operation[j]
			out, _, _ := Split(rs[j])
			k, hasKey := model.KeyOf(ops[j].NI, p)
			_, wasInst := m.Ent[k]
			if p.GetOp() == spb.AFTOperation_DELETE {
				m.StepDelete(ops[j].NI, p, out, v, P)
				if hasKey && wasInst && len(out.OKs) > 0 {
					tr.DeletedInstalled++
				}
			} else {
				oldp := m.Ent[k]
				heldBefore := len(m.Held)
				m.StepAdd(ops[j].NI, p, out, o.Trusted, v, P)
				if wasInst && len(out.OKs) > 0 && out.OKs[0] == p.GetId() && !model.PayloadEqual(oldp, model.Payload(p)) {
					tr.ReplacedDifferent++
				}
				for _, id := range out.OKs {
					if id != p.GetId() {
						tr.HeldResolved++
					}
				}
				if len(m.Held) > heldBefore {
					tr.Held++
				}
			}
			tr.Failed += len(out.Fails)
			for _, id := range out.OKs {
				sn, ok := byID[id]
				if !ok {
					v.Fail(P+"/ack-unknown-id", "%s: acknowledged id %d that was never sent", when, id)
					continue
				}
				fk, ok := model.KeyOf(sn.ni, sn.op)
				if !ok {
					continue
				}
				top := fk.Kind == gen.V4 || fk.Kind == gen.V6 || fk.Kind == gen.MPLS
				if sn.op.GetOp() == spb.AFTOperation_DELETE {
					if _, inst := fold[fk]; inst && top {
						tr.TopDeletes++
					}
					delete(fold, fk)
				} else {
					if top {
						tr.TopAcks++
					}
					fold[fk] = model.Canon(model.Payload(sn.op))
				}
			}
		}
		if len(v.Findings) > 0 {
			return v, tr
		}
		nreq++
		if o.ReElect > 0 && nreq%o.ReElect == 0 && fatalAt < 0 {
			elec = gen.ID128{Hi: elec.Hi, Lo: elec.Lo + 1}
			if _, hg := x.Send(&spb.ModifyRequest{ElectionId: elec.Proto()}); hg != nil {
				HangFinding(v, P, hg)
				return v, tr
			}
			ers, eended, hg := x.Barrier()
			if hg != nil {
				HangFinding(v, P, hg)
				return v, tr
			}
			if eended || len(ers) != 1 || ers[0].GetElectionId() == nil || gen.FromProto128(ers[0].GetElectionId()).Cmp(elec) != 0 {
				v.Fail(P+"/re-election", "%s: the primary announced the higher id %s: ended=%v (%v), responses %v", when, elec, eended, x.Err(), ers)
				return v, tr
			}
			v.Class("primary-raises-its-election-id")
			if !observe(when + ", then the primary announced " + elec.String()) {
				return v, tr
			}
		}
		if o.ObserveEvery <= 1 || nreq%o.ObserveEvery == 0 || i >= len(h.Steps) || fatalAt >= 0 {
			if !observe(when) {
				return v, tr
			}
		}
		if fatalAt >= 0 {
			tr.Failed++
			return v, tr
		}
	}
	if o.Final != nil && len(v.Findings) == 0 {
		o.Final(s, m, v)
	}
	return v, tr
}
