package c18

import (
	"context"
	"encoding/json"
	"fmt"
	"strings"
	"testing"

	"google.golang.org/protobuf/encoding/prototext"
	"google.golang.org/protobuf/proto"
	"pgregory.net/rapid"

	aftpb "github.com/openconfig/gribi/v1/proto/gribi_aft"
	enums "github.com/openconfig/gribi/v1/proto/gribi_aft/enums"
	spb "github.com/openconfig/gribi/v1/proto/service"
	"github.com/openconfig/gribigo/fluent"
	wpb "github.com/openconfig/ygot/proto/ywrapper"

	"verifh/internal/captb"
	"verifh/internal/cstub"
	"verifh/internal/ev"
	"verifh/internal/gen"
)

func TestMain(m *testing.M) { ev.Main(m, "C18", "exploration") }

// Hdr is an encap-header builder program (completed before it is added).
type Hdr struct {
	Type   string   `json:"t"` // mpls | udpv6
	Labels []uint64 `json:"labels,omitempty"`
	// udpv6 setter calls in order: name + value
	Calls []HCall `json:"calls,omitempty"`
}
type HCall struct {
	M string `json:"m"`
	U uint64 `json:"u,omitempty"`
	S string `json:"s,omitempty"`
}

// Stmt is one statement of a builder program.
type Stmt struct {
	K string `json:"k"` // new | call | queue | elec | startsending | check
	B int    `json:"b,omitempty"`
	// new
	Kind string `json:"kind,omitempty"` // v4 v6 mpls nh nhg
	// call
	M    string   `json:"m,omitempty"`
	S    string   `json:"s,omitempty"`
	S2   string   `json:"s2,omitempty"`
	U    uint64   `json:"u,omitempty"`
	U2   uint64   `json:"u2,omitempty"`
	Us   []uint64 `json:"us,omitempty"`
	By   []byte   `json:"by,omitempty"`
	Hdrs []Hdr    `json:"hdrs,omitempty"`
	// queue
	Act string `json:"act,omitempty"` // ADD REPLACE DELETE
	Bs  []int  `json:"bs,omitempty"`
	// queue, elec: which Modify() handle the call is made on: 0 = a fresh c.Modify(),
	// 1 = the handle the previous call returned (call chaining), 2 = a handle obtained once,
	// before the first statement, and kept
	H int `json:"h,omitempty"`
	// restart, Reinit: between Stop and Start the initial election id is specified again
	// (Connection().WithInitialElectionID(U, U2)) - it is then the id most recently set
	Reinit bool `json:"reinit,omitempty"`
	// queue, Rep > 1: the list of entries is handed over Rep times in the one call (a batch of
	// thousands of entries)
	Rep int `json:"rep,omitempty"`
}

type Case struct {
	Mode string    `json:"mode"` // elected | allprimary
	Init gen.ID128 `json:"init"`
	FIB  bool      `json:"fib"`
	Prog []Stmt    `json:"prog"`
}

func setup() {
	c := ev.C()
	c.Rule = "builder programs: sequences of constructor / With* / Add* calls on the five entry builders and both encap-header builders (any order, repeated; header builders are completed before they are added), interleaved with AddEntry/ReplaceEntry/DeleteEntry over one or more builders and UpdateElectionID - each made on a fresh c.Modify(), on the handle the previous call returned (chaining) or on a handle kept from the start -, StartSending at a drawn position and OpProto/EntryProto probes, on a fluent client in elected-primary or all-primary mode connected to a recording stub; builders keep being mutated after they were queued. Oracle: an independent interpreter builds the expected AFTOperation/AFTEntry from scratch (last call wins per setter, append per Add*), the expected ids 1,2,3.., operation type and election stamp; compared with OpProto()/EntryProto() at probe points and, only at the very end (so aliasing shows), with the ModifyRequest pointers the stub received (proto.Equal). Non-trivial = a builder call after a queue call on the same builder, or an UpdateElectionID between two queue calls, or a kept/chained handle used after an election update, or >=6 distinct setters; distinct by FNV-64 of the case JSON. Later additions: string pools with values a normaliser would rewrite; restart that re-specifies the initial election id."
	c.Assumptions = []string{"encap-header builders are not touched after being passed to AddEncapHeader; repeated WithLabels on one header is not generated (ambiguous)"}
}

// ---- the interpreter (oracle side) -------------------------------------------

type ebuilder struct {
	kind string
	ni   string
	elec *gen.ID128
	v4   *aftpb.Afts_Ipv4EntryKey
	v6   *aftpb.Afts_Ipv6EntryKey
	lb   *aftpb.Afts_LabelEntryKey
	nh   *aftpb.Afts_NextHopKey
	nhg  *aftpb.Afts_NextHopGroupKey
}

func u(v uint64) *wpb.UintValue   { return &wpb.UintValue{Value: v} }
func s(v string) *wpb.StringValue { return &wpb.StringValue{Value: v} }

var hdrEnum = map[uint64]enums.OpenconfigAftTypesEncapsulationHeaderType{
	1: enums.OpenconfigAftTypesEncapsulationHeaderType_OPENCONFIGAFTTYPESENCAPSULATIONHEADERTYPE_IPV4,
	2: enums.OpenconfigAftTypesEncapsulationHeaderType_OPENCONFIGAFTTYPESENCAPSULATIONHEADERTYPE_MPLS,
	3: enums.OpenconfigAftTypesEncapsulationHeaderType_OPENCONFIGAFTTYPESENCAPSULATIONHEADERTYPE_UDPV6,
}

func newE(kind string) *ebuilder {
	b := &ebuilder{kind: kind}
	switch kind {
	case gen.V4:
		b.v4 = &aftpb.Afts_Ipv4EntryKey{Ipv4Entry: &aftpb.Afts_Ipv4Entry{}}
	case gen.V6:
		b.v6 = &aftpb.Afts_Ipv6EntryKey{Ipv6Entry: &aftpb.Afts_Ipv6Entry{}}
	case gen.MPLS:
		b.lb = &aftpb.Afts_LabelEntryKey{LabelEntry: &aftpb.Afts_LabelEntry{}}
	case gen.NH:
		b.nh = &aftpb.Afts_NextHopKey{}
	case gen.NHG:
		b.nhg = &aftpb.Afts_NextHopGroupKey{NextHopGroup: &aftpb.Afts_NextHopGroup{}}
	}
	return b
}

func hdrProto(h Hdr) *aftpb.Afts_NextHop_EncapHeader {
	switch h.Type {
	case "mpls":
		p := &aftpb.Afts_NextHop_EncapHeader{Type: hdrEnum[2], Mpls: &aftpb.Afts_NextHop_EncapHeader_Mpls{}}
		for _, l := range h.Labels {
			p.Mpls.MplsLabelStack = append(p.Mpls.MplsLabelStack, &aftpb.Afts_NextHop_EncapHeader_Mpls_MplsLabelStackUnion{MplsLabelStackUint64: l})
		}
		return p
	}
	p := &aftpb.Afts_NextHop_EncapHeader{Type: hdrEnum[3], UdpV6: &aftpb.Afts_NextHop_EncapHeader_UdpV6{}}
	for _, c := range h.Calls {
		switch c.M {
		case "WithDSCP":
			p.UdpV6.Dscp = u(c.U)
		case "WithDstIP":
			p.UdpV6.DstIp = s(c.S)
		case "WithDstUDPPort":
			p.UdpV6.DstUdpPort = u(c.U)
		case "WithIPTTL":
			p.UdpV6.IpTtl = u(c.U)
		case "WithSrcIP":
			p.UdpV6.SrcIp = s(c.S)
		case "WithSrcUDPPort":
			p.UdpV6.SrcUdpPort = u(c.U)
		}
	}
	return p
}

func (b *ebuilder) nhp() *aftpb.Afts_NextHop {
	if b.nh.NextHop == nil {
		b.nh.NextHop = &aftpb.Afts_NextHop{}
	}
	return b.nh.NextHop
}

func (b *ebuilder) apply(c Stmt) {
	switch c.M {
	case "WithNetworkInstance":
		b.ni = c.S
		return
	case "WithElectionID":
		b.elec = &gen.ID128{Lo: c.U, Hi: c.U2}
		return
	}
	switch b.kind {
	case gen.V4:
		switch c.M {
		case "WithPrefix":
			b.v4.Prefix = c.S
		case "WithNextHopGroup":
			b.v4.Ipv4Entry.NextHopGroup = u(c.U)
		case "WithNextHopGroupNetworkInstance":
			b.v4.Ipv4Entry.NextHopGroupNetworkInstance = s(c.S)
		case "WithMetadata":
			b.v4.Ipv4Entry.EntryMetadata = &wpb.BytesValue{Value: c.By}
		}
	case gen.V6:
		switch c.M {
		case "WithPrefix":
			b.v6.Prefix = c.S
		case "WithNextHopGroup":
			b.v6.Ipv6Entry.NextHopGroup = u(c.U)
		case "WithNextHopGroupNetworkInstance":
			b.v6.Ipv6Entry.NextHopGroupNetworkInstance = s(c.S)
		case "WithMetadata":
			b.v6.Ipv6Entry.EntryMetadata = &wpb.BytesValue{Value: c.By}
		}
	case gen.MPLS:
		switch c.M {
		case "WithLabel":
			b.lb.Label = &aftpb.Afts_LabelEntryKey_LabelUint64{LabelUint64: uint64(uint32(c.U))}
		case "WithNextHopGroup":
			b.lb.LabelEntry.NextHopGroup = u(c.U)
		case "WithNextHopGroupNetworkInstance":
			b.lb.LabelEntry.NextHopGroupNetworkInstance = s(c.S)
		case "WithPoppedLabelStack":
			b.lb.LabelEntry.PoppedMplsLabelStack = []*aftpb.Afts_LabelEntry_PoppedMplsLabelStackUnion{}
			for _, l := range c.Us {
				b.lb.LabelEntry.PoppedMplsLabelStack = append(b.lb.LabelEntry.PoppedMplsLabelStack, &aftpb.Afts_LabelEntry_PoppedMplsLabelStackUnion{PoppedMplsLabelStackUint64: uint64(uint32(l))})
			}
		}
	case gen.NHG:
		switch c.M {
		case "WithID":
			b.nhg.Id = c.U
		case "WithBackupNHG":
			b.nhg.NextHopGroup.BackupNextHopGroup = u(c.U)
		case "AddNextHop":
			b.nhg.NextHopGroup.NextHop = append(b.nhg.NextHopGroup.NextHop, &aftpb.Afts_NextHopGroup_NextHopKey{Index: c.U, NextHop: &aftpb.Afts_NextHopGroup_NextHop{Weight: u(c.U2)}})
		}
	case gen.NH:
		switch c.M {
		case "WithIndex":
			b.nh.Index = c.U
		case "WithIPAddress":
			b.nhp().IpAddress = s(c.S)
		case "WithInterfaceRef":
			b.nhp().InterfaceRef = &aftpb.Afts_NextHop_InterfaceRef{Interface: s(c.S)}
		case "WithSubinterfaceRef":
			b.nhp().InterfaceRef = &aftpb.Afts_NextHop_InterfaceRef{Interface: s(c.S), Subinterface: u(c.U)}
		case "WithMacAddress":
			b.nhp().MacAddress = s(c.S)
		case "WithIPinIP":
			b.nhp().IpInIp = &aftpb.Afts_NextHop_IpInIp{SrcIp: s(c.S), DstIp: s(c.S2)}
		case "WithNextHopNetworkInstance":
			b.nhp().NetworkInstance = s(c.S)
		case "WithPopTopLabel":
			b.nhp().PopTopLabel = &wpb.BoolValue{Value: true}
		case "WithPushedLabelStack":
			b.nhp().PushedMplsLabelStack = []*aftpb.Afts_NextHop_PushedMplsLabelStackUnion{}
			for _, l := range c.Us {
				b.nhp().PushedMplsLabelStack = append(b.nhp().PushedMplsLabelStack, &aftpb.Afts_NextHop_PushedMplsLabelStackUnion{PushedMplsLabelStackUint64: uint64(uint32(l))})
			}
		case "AddEncapHeader":
			for _, h := range c.Hdrs {
				n := b.nhp()
				n.EncapHeader = append(n.EncapHeader, &aftpb.Afts_NextHop_EncapHeaderKey{Index: uint64(len(n.EncapHeader)) + 1, EncapHeader: hdrProto(h)})
			}
		case "WithDecapsulateHeader":
			b.nhp().DecapsulateHeader = hdrEnum[c.U]
		case "WithEncapsulateHeader":
			b.nhp().EncapsulateHeader = hdrEnum[c.U]
		}
	}
}

func (b *ebuilder) opProto() *spb.AFTOperation {
	o := &spb.AFTOperation{NetworkInstance: b.ni}
	if b.elec != nil {
		o.ElectionId = b.elec.Proto()
	}
	switch b.kind {
	case gen.V4:
		o.Entry = &spb.AFTOperation_Ipv4{Ipv4: proto.Clone(b.v4).(*aftpb.Afts_Ipv4EntryKey)}
	case gen.V6:
		o.Entry = &spb.AFTOperation_Ipv6{Ipv6: proto.Clone(b.v6).(*aftpb.Afts_Ipv6EntryKey)}
	case gen.MPLS:
		o.Entry = &spb.AFTOperation_Mpls{Mpls: proto.Clone(b.lb).(*aftpb.Afts_LabelEntryKey)}
	case gen.NH:
		o.Entry = &spb.AFTOperation_NextHop{NextHop: proto.Clone(b.nh).(*aftpb.Afts_NextHopKey)}
	case gen.NHG:
		o.Entry = &spb.AFTOperation_NextHopGroup{NextHopGroup: proto.Clone(b.nhg).(*aftpb.Afts_NextHopGroupKey)}
	}
	return o
}

func (b *ebuilder) entryProto() *spb.AFTEntry {
	e := &spb.AFTEntry{NetworkInstance: b.ni}
	switch b.kind {
	case gen.V4:
		e.Entry = &spb.AFTEntry_Ipv4{Ipv4: proto.Clone(b.v4).(*aftpb.Afts_Ipv4EntryKey)}
	case gen.V6:
		e.Entry = &spb.AFTEntry_Ipv6{Ipv6: proto.Clone(b.v6).(*aftpb.Afts_Ipv6EntryKey)}
	case gen.MPLS:
		e.Entry = &spb.AFTEntry_Mpls{Mpls: proto.Clone(b.lb).(*aftpb.Afts_LabelEntryKey)}
	case gen.NH:
		e.Entry = &spb.AFTEntry_NextHop{NextHop: proto.Clone(b.nh).(*aftpb.Afts_NextHopKey)}
	case gen.NHG:
		e.Entry = &spb.AFTEntry_NextHopGroup{NextHopGroup: proto.Clone(b.nhg).(*aftpb.Afts_NextHopGroupKey)}
	}
	return e
}

// ---- the real side ----------------------------------------------------------

// rbuilder wraps a real fluent builder. The builder types are unexported, so
// the calls are made from closures created where the concrete type is known.
type rbuilder struct {
	kind string
	e    fluent.GRIBIEntry
	call func(c Stmt)
}

func u32s(us []uint64) []uint32 {
	out := make([]uint32, 0, len(us))
	for _, x := range us {
		out = append(out, uint32(x))
	}
	return out
}

func newR(kind string) *rbuilder {
	switch kind {
	case gen.V4:
		x := fluent.IPv4Entry()
		return &rbuilder{kind, x, func(c Stmt) {
			switch c.M {
			case "WithPrefix":
				x.WithPrefix(c.S)
			case "WithNetworkInstance":
				x.WithNetworkInstance(c.S)
			case "WithNextHopGroup":
				x.WithNextHopGroup(c.U)
			case "WithNextHopGroupNetworkInstance":
				x.WithNextHopGroupNetworkInstance(c.S)
			case "WithMetadata":
				x.WithMetadata(c.By)
			case "WithElectionID":
				x.WithElectionID(c.U, c.U2)
			}
		}}
	case gen.V6:
		x := fluent.IPv6Entry()
		return &rbuilder{kind, x, func(c Stmt) {
			switch c.M {
			case "WithPrefix":
				x.WithPrefix(c.S)
			case "WithNetworkInstance":
				x.WithNetworkInstance(c.S)
			case "WithNextHopGroup":
				x.WithNextHopGroup(c.U)
			case "WithNextHopGroupNetworkInstance":
				x.WithNextHopGroupNetworkInstance(c.S)
			case "WithMetadata":
				x.WithMetadata(c.By)
			case "WithElectionID":
				x.WithElectionID(c.U, c.U2)
			}
		}}
	case gen.MPLS:
		x := fluent.LabelEntry()
		return &rbuilder{kind, x, func(c Stmt) {
			switch c.M {
			case "WithLabel":
				x.WithLabel(uint32(c.U))
			case "WithNetworkInstance":
				x.WithNetworkInstance(c.S)
			case "WithNextHopGroup":
				x.WithNextHopGroup(c.U)
			case "WithNextHopGroupNetworkInstance":
				x.WithNextHopGroupNetworkInstance(c.S)
			case "WithPoppedLabelStack":
				x.WithPoppedLabelStack(u32s(c.Us)...)
			}
		}}
	case gen.NHG:
		x := fluent.NextHopGroupEntry()
		return &rbuilder{kind, x, func(c Stmt) {
			switch c.M {
			case "WithID":
				x.WithID(c.U)
			case "WithNetworkInstance":
				x.WithNetworkInstance(c.S)
			case "WithBackupNHG":
				x.WithBackupNHG(c.U)
			case "AddNextHop":
				x.AddNextHop(c.U, c.U2)
			case "WithElectionID":
				x.WithElectionID(c.U, c.U2)
			}
		}}
	}
	x := fluent.NextHopEntry()
	return &rbuilder{kind, x, func(c Stmt) {
		switch c.M {
		case "WithIndex":
			x.WithIndex(c.U)
		case "WithNetworkInstance":
			x.WithNetworkInstance(c.S)
		case "WithIPAddress":
			x.WithIPAddress(c.S)
		case "WithInterfaceRef":
			x.WithInterfaceRef(c.S)
		case "WithSubinterfaceRef":
			x.WithSubinterfaceRef(c.S, c.U)
		case "WithMacAddress":
			x.WithMacAddress(c.S)
		case "WithIPinIP":
			x.WithIPinIP(c.S, c.S2)
		case "WithNextHopNetworkInstance":
			x.WithNextHopNetworkInstance(c.S)
		case "WithPopTopLabel":
			x.WithPopTopLabel()
		case "WithPushedLabelStack":
			x.WithPushedLabelStack(u32s(c.Us)...)
		case "AddEncapHeader":
			for _, h := range c.Hdrs {
				if h.Type == "mpls" {
					b := fluent.MPLSEncapHeader()
					if len(h.Labels) > 0 {
						b.WithLabels(h.Labels...)
					}
					x.AddEncapHeader(b)
					continue
				}
				b := fluent.UDPV6EncapHeader()
				for _, hc := range h.Calls {
					switch hc.M {
					case "WithDSCP":
						b.WithDSCP(hc.U)
					case "WithDstIP":
						b.WithDstIP(hc.S)
					case "WithDstUDPPort":
						b.WithDstUDPPort(hc.U)
					case "WithIPTTL":
						b.WithIPTTL(hc.U)
					case "WithSrcIP":
						b.WithSrcIP(hc.S)
					case "WithSrcUDPPort":
						b.WithSrcUDPPort(hc.U)
					}
				}
				x.AddEncapHeader(b)
			}
		case "WithDecapsulateHeader":
			x.WithDecapsulateHeader(fluent.Header(c.U))
		case "WithEncapsulateHeader":
			x.WithEncapsulateHeader(fluent.Header(c.U))
		case "WithElectionID":
			x.WithElectionID(c.U, c.U2)
		}
	}}
}

func short(m proto.Message) string {
	return strings.Join(strings.Fields(prototext.MarshalOptions{}.Format(m)), " ")
}

// anyElection marks an expected election-id message whose value is not asserted.
var anyElection = &spb.ModifyRequest{ElectionId: &spb.Uint128{}}

func runCase(c Case) *ev.Verdict {
	v := &ev.Verdict{}
	tb := captb.New("c18")
	stub := &cstub.Stub{}
	cl := fluent.NewClient()
	conn := cl.Connection().WithStub(stub)
	if c.Mode == "elected" {
		conn.WithRedundancyMode(fluent.ElectedPrimaryClient).WithInitialElectionID(c.Init.Lo, c.Init.Hi).WithPersistence()
	} else {
		conn.WithRedundancyMode(fluent.AllPrimaryClients)
	}
	if c.FIB {
		conn.WithFIBACK()
	}
	ctx, cancel := context.WithCancel(context.Background())
	defer cancel()
	if f := tb.Run(func(t testing.TB) { cl.Start(ctx, t) }); f != nil || tb.Fataled() {
		v.Fail("C18/start", "Start failed: %v %v", f, tb.Fatals)
		return v
	}
	defer cl.Stop(tb)

	var eb []*ebuilder
	var rb []*rbuilder
	var done [][]*spb.ModifyRequest // expected messages of the streams that restarts have closed
	restarts := 0
	retained := cl.Modify()
	chain := cl.Modify()
	staleHandle := false // a kept or chained handle was used after an election update made through any handle
	elecSeen := false
	// expected messages
	var want []*spb.ModifyRequest
	var wantPre []*spb.ModifyRequest // queued before StartSending
	started := false
	cur := (*gen.ID128)(nil)
	if c.Mode == "elected" {
		x := c.Init
		cur = &x
	}
	opCount := uint64(0)
	queuedOnce := map[int]bool{}
	callAfterQueue, elecBetween := false, false
	queues := 0
	elecSinceQueue := false
	setters := map[string]bool{}

	emit := func(m *spb.ModifyRequest) {
		if started {
			want = append(want, m)
		} else {
			wantPre = append(wantPre, m)
		}
	}
	for i, st := range c.Prog {
		switch st.K {
		case "new":
			eb = append(eb, newE(st.Kind))
			rb = append(rb, newR(st.Kind))
		case "call":
			if st.B >= len(eb) {
				continue
			}
			eb[st.B].apply(st)
			rb[st.B].call(st)
			setters[eb[st.B].kind+"."+st.M] = true
			if queuedOnce[st.B] {
				callAfterQueue = true
			}
		case "check":
			if st.B >= len(eb) {
				continue
			}
			op, err := rb[st.B].e.OpProto()
			if err != nil {
				v.Fail("C18/opproto-error", "statement %d: OpProto: %v", i, err)
				return v
			}
			if w := eb[st.B].opProto(); !proto.Equal(op, w) {
				v.Fail("C18/opproto-mismatch:"+eb[st.B].kind, "statement %d: OpProto() of builder %d = {%s}, want {%s}", i, st.B, short(op), short(w))
				return v
			}
			en, err := rb[st.B].e.EntryProto()
			if err != nil {
				v.Fail("C18/entryproto-error", "statement %d: EntryProto: %v", i, err)
				return v
			}
			if w := eb[st.B].entryProto(); !proto.Equal(en, w) {
				v.Fail("C18/entryproto-mismatch:"+eb[st.B].kind, "statement %d: EntryProto() of builder %d = {%s}, want {%s}", i, st.B, short(en), short(w))
				return v
			}
		case "queue":
			var es []fluent.GRIBIEntry
			m := &spb.ModifyRequest{}
			bs := st.Bs
			for r := 1; r < st.Rep; r++ {
				bs = append(bs[:len(bs):len(bs)], st.Bs...)
			}
			if st.Rep > 1 {
				v.Class("bulk-queue-call")
			}
			for _, bi := range bs {
				if bi >= len(eb) {
					continue
				}
				es = append(es, rb[bi].e)
				o := eb[bi].opProto()
				o.Op = map[string]spb.AFTOperation_Operation{gen.ADD: spb.AFTOperation_ADD, gen.REPLACE: spb.AFTOperation_REPLACE, gen.DELETE: spb.AFTOperation_DELETE}[st.Act]
				opCount++
				o.Id = opCount
				if c.Mode == "elected" && o.ElectionId == nil && cur != nil {
					o.ElectionId = cur.Proto()
				}
				m.Operation = append(m.Operation, o)
				queuedOnce[bi] = true
			}
			if len(es) == 0 {
				continue
			}
			tq := captb.New("c18")
			if f := tq.Run(func(t testing.TB) {
				h := cl.Modify()
				switch st.H {
				case 1:
					h = chain
				case 2:
					h = retained
				}
				if st.H != 0 && elecSeen {
					staleHandle = true
				}
				switch st.Act {
				case gen.ADD:
					chain = h.AddEntry(t, es...)
				case gen.REPLACE:
					chain = h.ReplaceEntry(t, es...)
				default:
					chain = h.DeleteEntry(t, es...)
				}
			}); f != nil || tq.Fataled() {
				v.Fail("C18/queue-failed", "statement %d: %s failed: %v %v", i, st.Act, f, tq.Fatals)
				return v
			}
			emit(m)
			queues++
			if queues > 1 && elecSinceQueue {
				elecBetween = true
			}
			elecSinceQueue = false
		case "elec":
			if c.Mode != "elected" {
				continue
			}
			switch st.H {
			case 1:
				chain = chain.UpdateElectionID(tb, st.U, st.U2)
			case 2:
				chain = retained.UpdateElectionID(tb, st.U, st.U2)
			default:
				chain = cl.Modify().UpdateElectionID(tb, st.U, st.U2)
			}
			elecSeen = true
			cur = &gen.ID128{Lo: st.U, Hi: st.U2}
			emit(&spb.ModifyRequest{ElectionId: cur.Proto()})
			if queues > 0 {
				elecSinceQueue = true
			}
		case "restart":
			// Stop + Start + StartSending on the same fluent client, once everything queued so
			// far has reached the server: ids keep counting and operations keep being stamped
			// with the id of the latest UpdateElectionID
			if !started {
				continue
			}
			cst := stub.Stream(len(done))
			if cst == nil || !cst.WaitSent(len(want)) {
				n := -1
				if cst != nil {
					n = len(cst.SentCopy())
				}
				v.Fail("C18/messages-missing", "statement %d (restart): the server received %d messages, the program queued %d", i, n, len(want))
				return v
			}
			done = append(done, want)
			want = nil
			tr := captb.New("c18")
			if f := tr.Run(func(t testing.TB) {
				cl.Stop(t)
				if st.Reinit {
					cl.Connection().WithInitialElectionID(st.U, st.U2)
				}
				cl.Start(ctx, t)
				cl.StartSending(ctx, t)
			}); f != nil || tr.Fataled() {
				v.Fail("C18/restart", "statement %d: Stop/Start/StartSending failed: %v %v", i, f, tr.Fatals)
				return v
			}
			restarts++
			if st.Reinit {
				// the initial election id was specified again between Stop and Start: it is now
				// the id most recently set
				cur = &gen.ID128{Lo: st.U, Hi: st.U2}
				elecSeen = true
				v.Class("initial-election-id-respecified-at-restart")
			}
			// the new session's handshake: parameters as configured, then (elected mode) an
			// election id whose value the property does not fix
			p := &spb.SessionParameters{}
			if c.Mode == "elected" {
				p.Redundancy = spb.SessionParameters_SINGLE_PRIMARY
				p.Persistence = spb.SessionParameters_PRESERVE
			}
			if c.FIB {
				p.AckType = spb.SessionParameters_RIB_AND_FIB_ACK
			}
			want = append(want, &spb.ModifyRequest{Params: p})
			if c.Mode == "elected" {
				want = append(want, anyElection)
			}
		case "startsending":
			if started {
				continue
			}
			ts := captb.New("c18")
			if f := ts.Run(func(t testing.TB) { cl.StartSending(ctx, t) }); f != nil || ts.Fataled() {
				v.Fail("C18/startsending", "StartSending failed: %v %v", f, ts.Fatals)
				return v
			}
			started = true
			// the handshake precedes everything that was queued earlier
			var hs []*spb.ModifyRequest
			p := &spb.SessionParameters{}
			if c.Mode == "elected" {
				p.Redundancy = spb.SessionParameters_SINGLE_PRIMARY
				p.Persistence = spb.SessionParameters_PRESERVE
			}
			if c.FIB {
				p.AckType = spb.SessionParameters_RIB_AND_FIB_ACK
			}
			hs = append(hs, &spb.ModifyRequest{Params: p})
			if c.Mode == "elected" {
				hs = append(hs, &spb.ModifyRequest{ElectionId: c.Init.Proto()})
			}
			want = append(append(hs, wantPre...), want...)
			wantPre = nil
		}
	}
	if !started {
		// nothing may have been sent
		if stub.Streams() != 0 && len(stub.Stream(0).SentCopy()) != 0 {
			v.Fail("C18/sent-before-startsending", "messages reached the server before StartSending")
		}
		v.NonTrivial = false
		return v
	}
	done = append(done, want)
	for si, want := range done {
		st := stub.Stream(si)
		if st == nil {
			v.Fail("C18/no-stream", "Modify stream %d was not opened", si)
			return v
		}
		if !st.WaitSent(len(want)) {
			v.Fail("C18/messages-missing", "stream %d: the server received %d messages, the program queued %d", si, len(st.SentCopy()), len(want))
			return v
		}
		got := st.SentCopy()
		if len(got) != len(want) {
			v.Fail("C18/message-count", "stream %d: the server received %d messages, want %d", si, len(got), len(want))
			return v
		}
		for i := range want {
			if want[i] == anyElection {
				if got[i].GetElectionId() == nil || got[i].Params != nil || len(got[i].Operation) > 0 {
					v.Fail("C18/message-mismatch:election", "stream %d message %d received by the server is {%s}, want an election id", si, i, short(got[i]))
					return v
				}
				continue
			}
			if !proto.Equal(got[i], want[i]) {
				kind := "other"
				switch {
				case want[i].Params != nil:
					kind = "params"
				case want[i].ElectionId != nil:
					kind = "election"
				case len(want[i].Operation) > 0:
					kind = "operation"
					if len(got[i].Operation) == len(want[i].Operation) {
						for j := range want[i].Operation {
							g, w := got[i].Operation[j], want[i].Operation[j]
							switch {
							case g.GetId() != w.GetId():
								kind = "operation-id"
							case g.GetOp() != w.GetOp():
								kind = "operation-type"
							case !proto.Equal(g.GetElectionId(), w.GetElectionId()):
								kind = "operation-election-stamp"
							case !proto.Equal(g, w):
								kind = "operation-payload"
							}
						}
					}
				}
				v.Fail("C18/message-mismatch:"+kind, "stream %d message %d received by the server is {%s}, want {%s}", si, i, short(got[i]), short(want[i]))
				return v
			}
		}
	}
	if restarts > 0 {
		v.Class("restarted-client")
	}
	if callAfterQueue {
		v.Class("builder-call-after-queue")
	}
	if elecBetween {
		v.Class("election-update-between-queues")
	}
	if len(setters) >= 6 {
		v.Class(">=6-setters")
	}
	v.Class("mode:" + c.Mode)
	if staleHandle {
		v.Class("kept-or-chained-handle-used-after-election-update")
	}
	v.NonTrivial = callAfterQueue || elecBetween || len(setters) >= 6 || staleHandle
	return v
}

func TestReplay(t *testing.T) {
	setup()
	for _, f := range ev.ReplayFiles() {
		var c Case
		if err := ev.LoadCase(f, &c); err != nil {
			t.Fatalf("%s: %v", f, err)
		}
		v := runCase(c)
		if fresh := ev.C().Record(ev.JSON(c), v); len(fresh) > 0 {
			t.Errorf("%s: %v", f, fresh)
		}
	}
}

// ---- generator ---------------------------------------------------------------

var nis = []string{"DEFAULT", "VRF-A", ""}
var strs = map[string][]string{
	// strings are opaque to the builders: besides canonical spellings the pools hold valid
	// values that a normaliser would rewrite (host bits set, upper-case or zero-padded hex,
	// uncompressed zero runs, IPv4-mapped, surrounding blanks) and one malformed value each
	"prefix4": {"1.0.0.0/8", "2.2.0.0/16", "", "10.1.1.7/24", "192.0.2.1/32", "010.1.1.0/24", " 1.0.0.0/8"},
	"prefix6": {"2001:db8::/32", "::/0", "2001:DB8::/32", "2001:0db8:0:0::/64", "2001:db8::1/64", "::ffff:10.0.0.0/104", "2001:db8:0:0:0:0:0:0/32"},
	"ip":      {"192.0.2.1", "2001:db8::1", "", "2001:DB8::1", "2001:0db8::0001", "::ffff:192.0.2.1", "192.0.2.1 "},
	"mac":     {"00:00:5e:00:53:01", "02:aa:bb:cc:dd:ee", "00:00:5E:00:53:01", "0:0:5e:0:53:1", "0000.5e00.5301"},
	"intf":    {"eth0", "Ethernet1/2", "ethernet1/2", " eth0"},
}

func pick[T any](rt *rapid.T, xs []T, l string) T {
	return xs[rapid.IntRange(0, len(xs)-1).Draw(rt, l)]
}

var methods = map[string][]string{
	gen.V4:   {"WithPrefix", "WithNetworkInstance", "WithNextHopGroup", "WithNextHopGroupNetworkInstance", "WithMetadata", "WithElectionID"},
	gen.V6:   {"WithPrefix", "WithNetworkInstance", "WithNextHopGroup", "WithNextHopGroupNetworkInstance", "WithMetadata", "WithElectionID"},
	gen.MPLS: {"WithLabel", "WithNetworkInstance", "WithNextHopGroup", "WithNextHopGroupNetworkInstance", "WithPoppedLabelStack"},
	gen.NHG:  {"WithID", "WithNetworkInstance", "WithBackupNHG", "AddNextHop", "WithElectionID"},
	gen.NH: {"WithIndex", "WithNetworkInstance", "WithIPAddress", "WithInterfaceRef", "WithSubinterfaceRef", "WithMacAddress", "WithIPinIP", "WithNextHopNetworkInstance",
		"WithPopTopLabel", "WithPushedLabelStack", "AddEncapHeader", "WithDecapsulateHeader", "WithEncapsulateHeader", "WithElectionID"},
}

func drawCall(rt *rapid.T, b int, kind string) Stmt {
	st := Stmt{K: "call", B: b, M: pick(rt, methods[kind], "method")}
	big := []uint64{0, 1, 2, 7, 1 << 32, ^uint64(0)}
	switch st.M {
	case "WithPrefix":
		if kind == gen.V4 {
			st.S = pick(rt, strs["prefix4"], "s")
		} else {
			st.S = pick(rt, strs["prefix6"], "s")
		}
	case "WithNetworkInstance", "WithNextHopGroupNetworkInstance", "WithNextHopNetworkInstance":
		st.S = pick(rt, nis, "ni")
	case "WithNextHopGroup", "WithID", "WithIndex", "WithBackupNHG":
		st.U = pick(rt, big, "u")
	case "WithLabel":
		st.U = pick(rt, []uint64{0, 16, 100, 1048575, 1<<32 - 1}, "label")
	case "WithMetadata":
		st.By = pick(rt, [][]byte{{}, {1}, {0xde, 0xad}, []byte("12345678")}, "bytes")
	case "WithElectionID":
		st.U, st.U2 = pick(rt, big, "lo"), pick(rt, big[:3], "hi")
	case "WithPoppedLabelStack", "WithPushedLabelStack":
		n := rapid.IntRange(0, 3).Draw(rt, "nlabels")
		for i := 0; i < n; i++ {
			st.Us = append(st.Us, pick(rt, []uint64{16, 100, 100, 1048575}, "label"))
		}
	case "AddNextHop":
		st.U, st.U2 = pick(rt, big, "index"), pick(rt, big, "weight")
	case "WithIPAddress":
		st.S = pick(rt, strs["ip"], "s")
	case "WithInterfaceRef":
		st.S = pick(rt, strs["intf"], "s")
	case "WithSubinterfaceRef":
		st.S, st.U = pick(rt, strs["intf"], "s"), pick(rt, big, "u")
	case "WithMacAddress":
		st.S = pick(rt, strs["mac"], "s")
	case "WithIPinIP":
		st.S, st.S2 = pick(rt, strs["ip"], "s"), pick(rt, strs["ip"], "s2")
	case "WithDecapsulateHeader", "WithEncapsulateHeader":
		st.U = uint64(rapid.IntRange(1, 3).Draw(rt, "hdr"))
	case "AddEncapHeader":
		n := rapid.IntRange(1, 2).Draw(rt, "nhdrs")
		for i := 0; i < n; i++ {
			if rapid.Bool().Draw(rt, "mpls?") {
				h := Hdr{Type: "mpls"}
				nl := rapid.IntRange(0, 3).Draw(rt, "nlabels")
				for j := 0; j < nl; j++ {
					h.Labels = append(h.Labels, pick(rt, []uint64{16, 100, 1048575, 1 << 40}, "label"))
				}
				st.Hdrs = append(st.Hdrs, h)
			} else {
				h := Hdr{Type: "udpv6"}
				nc := rapid.IntRange(0, 7).Draw(rt, "ncalls")
				for j := 0; j < nc; j++ {
					m := pick(rt, []string{"WithDSCP", "WithDstIP", "WithDstUDPPort", "WithIPTTL", "WithSrcIP", "WithSrcUDPPort"}, "hmethod")
					hc := HCall{M: m}
					if strings.HasSuffix(m, "IP") {
						hc.S = pick(rt, []string{"2001:db8::2", "2001:db8::3", "", "2001:DB8::2", "2001:0db8::0003"}, "hs")
					} else {
						hc.U = pick(rt, []uint64{0, 1, 63, 6635, 65535}, "hu")
					}
					h.Calls = append(h.Calls, hc)
				}
				st.Hdrs = append(st.Hdrs, h)
			}
		}
	}
	return st
}

func drawCase(rt *rapid.T) Case {
	c := Case{Mode: pick(rt, []string{"elected", "elected", "allprimary"}, "mode"), FIB: rapid.Bool().Draw(rt, "fib")}
	c.Init = gen.ID128{Hi: uint64(rapid.IntRange(0, 2).Draw(rt, "inithi")), Lo: uint64(rapid.IntRange(1, 3).Draw(rt, "initlo"))}
	n := rapid.IntRange(3, 40).Draw(rt, "len")
	startAt := rapid.IntRange(0, n).Draw(rt, "startsending-at")
	var kinds []string
	for i := 0; i < n; i++ {
		if i == startAt {
			c.Prog = append(c.Prog, Stmt{K: "startsending"})
		}
		k := rapid.IntRange(0, 19).Draw(rt, "stmt")
		switch {
		case len(kinds) == 0 || k == 0:
			kind := pick(rt, gen.Kinds, "kind")
			kinds = append(kinds, kind)
			c.Prog = append(c.Prog, Stmt{K: "new", Kind: kind})
		case k < 11:
			b := rapid.IntRange(0, len(kinds)-1).Draw(rt, "b")
			c.Prog = append(c.Prog, drawCall(rt, b, kinds[b]))
		case k < 15:
			st := Stmt{K: "queue", Act: pick(rt, []string{gen.ADD, gen.REPLACE, gen.DELETE}, "act"), H: drawHandle(rt)}
			nb := rapid.IntRange(1, 3).Draw(rt, "nentries")
			for j := 0; j < nb; j++ {
				st.Bs = append(st.Bs, rapid.IntRange(0, len(kinds)-1).Draw(rt, "b"))
			}
			if rapid.IntRange(0, 39).Draw(rt, "bulk?") == 0 {
				// thousands of entries in one call (sizes around powers of two)
				st.Rep = (pick(rt, []int{255, 257, 1023, 1024, 1025, 1500, 2049, 4097}, "bulk-size") + nb - 1) / nb
			}
			c.Prog = append(c.Prog, st)
		case k < 17:
			c.Prog = append(c.Prog, Stmt{K: "elec", U: uint64(rapid.IntRange(1, 9).Draw(rt, "lo")), U2: uint64(rapid.IntRange(0, 2).Draw(rt, "hi")), H: drawHandle(rt)})
		case k == 17 && rapid.IntRange(0, 2).Draw(rt, "restart?") == 0:
			rs := Stmt{K: "restart"}
			if c.Mode == "elected" && rapid.Bool().Draw(rt, "reinit") {
				rs.Reinit, rs.U, rs.U2 = true, uint64(rapid.IntRange(1, 9).Draw(rt, "lo")), uint64(rapid.IntRange(0, 2).Draw(rt, "hi"))
			}
			c.Prog = append(c.Prog, rs)
		default:
			c.Prog = append(c.Prog, Stmt{K: "check", B: rapid.IntRange(0, len(kinds)-1).Draw(rt, "b")})
		}
	}
	if startAt >= n {
		c.Prog = append(c.Prog, Stmt{K: "startsending"})
	}
	return c
}

func TestCampaign(t *testing.T) {
	setup()
	col := ev.C()
	t.Run("random", func(t *testing.T) {
		rapid.Check(t, func(rt *rapid.T) {
			c := drawCase(rt)
			v := runCase(c)
			col.Check(rt, ev.JSON(c), v)
		})
	})
	col.MinimizeAll(func(sig string, cs []byte) []byte {
		var c Case
		if err := json.Unmarshal(cs, &c); err != nil {
			return nil
		}
		if !runCase(c).HasSig(sig) {
			return nil
		}
		for i := 0; i < len(c.Prog); {
			if c.Prog[i].K == "new" || c.Prog[i].K == "startsending" {
				i++
				continue
			}
			cc := c
			cc.Prog = append(append([]Stmt(nil), c.Prog[:i]...), c.Prog[i+1:]...)
			if runCase(cc).HasSig(sig) {
				c = cc
			} else {
				i++
			}
		}
		return ev.JSON(c)
	})
	_ = fmt.Sprint
}

// drawHandle: half of the calls go through a fresh c.Modify(), the rest through the handle
// the previous call returned (chaining, the style of the package documentation) or a handle
// kept from the start.
func drawHandle(rt *rapid.T) int {
	switch rapid.IntRange(0, 5).Draw(rt, "handle") {
	case 0, 1:
		return 1
	case 2:
		return 2
	}
	return 0
}
