package c16

import (
	"strings"

	"github.com/openconfig/ygot/ygot"
	"pgregory.net/rapid"

	"verifh/internal/ev"
	"verifh/internal/gen"
	"verifh/internal/hgen"
	"verifh/internal/inject"
	"verifh/internal/model"
	"verifh/internal/obs"
)

// runInject: a Flush is stopped at one of its removal notifications and an operation of a
// second actor is started there (package inject owns the schedule: the Flush resumes when the
// operation returned or is parked on a lock). Whatever order the two take effect in, once both
// have finished the fold of all notifications must equal the RIB contents.
func runInject(c Case) *ev.Verdict {
	v := &ev.Verdict{}
	cons := &consumer{st: map[gen.EntryKey]ygot.ValidatedGoStruct{}}
	res := inject.Run(c.H, *c.Inject, cons.hook)
	if hg := res.Hang; hg != nil {
		if hg.Blocked != "" {
			v.Fail("C16/hang:"+hg.Blocked, "%s\n%s", hg.Error(), hg.Dump[:min(len(hg.Dump), 5000)])
		} else {
			v.Inconclusive = hg.Error()
		}
		return v
	}
	switch {
	case !res.Injected:
		v.Class("inject:flush-ended-before-the-injection-point")
	case res.Parked:
		v.Class("inject:operation-waited-for-the-flush")
	default:
		v.Class("inject:operation-completed-inside-the-flush")
	}
	for _, b := range cons.bad {
		v.Fail("C16/bad-notification", "%s", b)
	}
	want, err := obs.FromRIB(res.R)
	if err != nil {
		v.Fail("C16/contents-unreadable", "%v", err)
		return v
	}
	got, err := cons.state()
	if err != nil {
		v.Fail("C16/consumer-state-unreadable", "%v", err)
		return v
	}
	if d := obs.Diff(want, got); len(d) > 0 {
		v.Fail("C16/fold-of-notifications:"+obs.DiffClass(d)+"+concurrent-flush", "Flush(%v) with %s started by a second actor at the flush's notification %d (it waited for a lock: %v): folding the post-change notifications does not give the RIB contents (want = RIB, got = consumer): %s", c.Inject.Flush, injectedWhat(c.Inject), c.Inject.At, res.Parked, strings.Join(d, "; "))
	}
	v.NonTrivial = res.Injected && len(res.Pre) > 0
	return v
}

func drawInject(rt *rapid.T) Case {
	cfg := hgen.DefaultCfg()
	cfg.FlushPct = 0
	cfg.MinLen, cfg.MaxLen = 6, 24
	h := hgen.DrawHistory(rt, cfg)
	h.FwdRefs = false
	belief := model.New("DEFAULT", hgen.NIs[1:], false)
	for _, st := range h.Steps {
		if st.Op != nil {
			belief.BeliefApply(st.Op.NI, st.Op.Proto())
		}
	}
	in := &inject.Spec{}
	switch rapid.IntRange(0, 2).Draw(rt, "targets") {
	case 0:
		in.Flush = []string{hgen.NIs[rapid.IntRange(0, 2).Draw(rt, "ni")]}
	default:
		in.Flush = rapid.Permutation(append([]string(nil), hgen.NIs...)).Draw(rt, "order")
	}
	in.At = rapid.IntRange(1, max(1, len(belief.Ent))).Draw(rt, "at")
	in.Resolved = rapid.Bool().Draw(rt, "resolved-entry-hook")
	// the second actor mostly programs again a key that is installed now (and is being flushed)
	keys := belief.Keys()
	var installed []*gen.Op
	for _, st := range h.Steps {
		if st.Op == nil || st.Op.Act == gen.DELETE {
			continue
		}
		for _, k := range keys {
			if k.NI == st.Op.NI && k.Kind == st.Op.Kind && k.Key == st.Op.Key {
				installed = append(installed, st.Op)
				break
			}
		}
	}
	if len(installed) > 0 && rapid.IntRange(0, 3).Draw(rt, "re-add") != 0 {
		o := *installed[rapid.IntRange(0, len(installed)-1).Draw(rt, "which")]
		o.ID = 900000
		o.Act = gen.ADD
		in.Op = &o
	} else {
		in.Op = hgen.DrawOp(rt, belief, cfg, 900000)
	}
	if rapid.IntRange(0, 5).Draw(rt, "add-instance?") == 0 {
		in.AddNI = "VRF-NEW" // the second actor creates a network instance instead
	}
	return Case{Config: "inject", H: h, Inject: in}
}

func injectedWhat(in *inject.Spec) string {
	if in.AddNI != "" {
		return "AddNetworkInstance(" + in.AddNI + ")"
	}
	return in.Op.String()
}
