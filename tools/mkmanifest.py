#!/usr/bin/env python3
"""Regenerates /verif/MANIFEST.json from the table below (single source of truth)."""
import json, os, subprocess
ROOT = os.path.dirname(os.path.dirname(os.path.abspath(__file__)))

CHECKS = {
 "C01": dict(
   technique="model-based property testing (rapid histories + exhaustive small scope) against a relation model and a pure fold oracle",
   level="exploration",
   text="Generated operation histories (random, model-aimed, plus every history of length<=3 [quick] / <=4 [thorough] over a 24-step alphabet) are run against rib.RIB and against server.Modify/Get over in-process streams; after every step the installed entries must equal (a) the pure fold of the acknowledged operations in acknowledgement order and (b) the relation model, and held-set / counters must match. Search, not proof: it shows the property on the explored histories and finds counterexamples, shrunk to a replay file. In addition: dependency graphs in disturbed arrival orders (held chains, dependencies deleted while waited for, doomed held REPLACEs failing inside a cascade) and one server-level history in four runs with the server behind a real grpc.Server over bufconn (real codec and HTTP/2 streams), under the same oracles. One random history in eight runs with reference checking disabled (rib.DisableRIBCheckFn / server.DisableRIBCheckFn) against the model without reference checks; server-level histories may read the contents back only after every 2nd-5th request. At the server level the last network instance may be created at runtime at a drawn step (AddNetworkInstance).",
   note="Trusted: the reference model in harness/internal/model, the generator's notion of schema-valid payloads, rib.Concrete*Proto for reading L1 state (cross-checked by C07). Exhaustive only for the stated small scopes.",
   design="DESIGN.md §4 C01"),
 "C02": dict(
   technique="model-based property testing: every arrival order of small dependency graphs (exhaustive) + rapid-drawn larger graphs, against a relation model with completeness and closure invariants",
   level="exploration",
   text="Operations of dependency graphs (NH <- NHG <- IPv4/IPv6/MPLS, cross-instance references, dependencies deleted/re-added/never arriving, doomed held REPLACEs) are applied in every arrival order for subsets of a 15-op pool (<=4 ops quick, <=5 thorough) and in random orders for larger generated graphs, with forward references on and off, against rib.RIB and the server streams. After every step: each acknowledged op must be resolvable at its turn, no held op may be resolvable (held-id hook), no installed entry may dangle, unresolved ops must be FAILED at once when forward references are disallowed. One generated graph in four is interrupted by a Flush (all instances or one): held operations are not entries, they stay held and must still be answered when their references arrive. The dependency graphs include a doomed held REPLACE with another operation queued behind the same missing group. A bystander session that announced the same election id before the session may go away at a drawn step.",
   note="Trusted: reference model; the verif-tagged held-id hook. Exhaustive only for the stated pool/size; larger graphs are sampled.",
   design="DESIGN.md §4 C02"),
 "C03": dict(
   technique="model-based property testing with a derived-referrers oracle (counter hook == referrers, DELETE verdict == referenced) over retarget/flush histories with a delete-everything epilogue",
   level="exploration",
   text="Histories that create, retarget, delete and flush references (rapid + every history of length<=3/4 over a 22-step retarget alphabet) are followed by a generated epilogue that tries to delete every group and next-hop top-down and bottom-up. After every operation each reference counter (hook) must equal the number of installed referrers derived from the model state and every DELETE must be FAILED exactly when the model says the target is referenced. Key renamings include ids spanning the whole uint64 range (pairs further apart than 2^63). At the rib level the last network instance may be created at runtime at a drawn step.",
   note="Trusted: reference model's derivation of referrers from installed entries; verif-tagged counter hook. Sampled beyond the exhaustive small scope.",
   design="DESIGN.md §4 C03"),
 "C16": dict(
   technique="model-based property testing: a folding consumer of the hook notifications compared with RIBContents after every step, over generated histories x configuration orders",
   level="exploration",
   text="C01-style histories (held-op resolution, single-NI and all-NI flushes) are run under four configuration orders of hook registration vs network-instance creation (rib API and server options, runtime AddNetworkInstance). A consumer folds post-change notifications and must equal RIBContents in every NI after every step; resolved-entry notifications are counted exactly (awaited by goroutine state, not time), must contain/lack the announced key and must be unchanged at the end of the history. In addition the mid-flush injection schedule of C08 is run with this property's oracle: when the Flush and the second actor's operation (mostly re-programming a key that is being flushed) have both finished, the fold of all notifications must equal the RIB contents. The harness-owned wall clock is stepped backwards/forwards or frozen before drawn steps; the injected schedules register the resolved-entry hook as a drawn option. The second actor of the injected schedules may create a network instance at runtime.",
   note="Trusted: obs conversion via rib.Concrete*Proto for both sides of the comparison; goroutine-dump based quiescence for the asynchronous resolved-entry hook.",
   design="DESIGN.md §4 C16"),
 "C08": dict(
   technique="property-based testing with full decision-table enumeration at a generated flush point, against an explicit status table and the RIB relation model",
   level="exploration",
   text="For generated RIB contents (backup groups shared/missing/circular, cross-instance references) the complete decision table of Flush {target} x {election field} is enumerated against server election state (a learnt 128-bit id from a lattice, or none learnt with injected contents): every non-authorised or malformed cell must return the code and FlushResponseError reason gribi.proto assigns and change nothing (Get + hooks after each cell); one drawn authorised cell must answer OK, empty exactly its targets and leave counters consistent, and a generated epilogue of operations must behave as the model predicts. In addition (rib API), Flushes of 1-3 instances in a drawn order are stopped at a drawn removal notification through the public post-change hook; one further operation is started there on another goroutine and the Flush resumes only when that operation returned or is parked on a lock (goroutine state): the final contents must equal 'operation, then flush' or 'flush, then operation' under the belief model, Flush must succeed and counters must equal referrers. RIBs built with DisableRIBCheckFn (entries whose group is missing or whose group instance is unknown) are flushed with a model-free before/after oracle. The injected schedules register the RIB's resolved-entry hook as a drawn option; one shard runs with glog -v=2; rib-level calls run under the watchdog. The second actor of the injected schedules may create a network instance at runtime.",
   note="Trusted: the status table transcribed from gribi.proto comments (zero id: reason fixed, code INVALID_ARGUMENT or FAILED_PRECONDITION accepted); reference model; hooks. Authorised cells are sampled per RIB, rejected cells are all enumerated.",
   design="DESIGN.md §4 C08"),
 "C07": dict(
   technique="property-based testing: round-trip (programmed payload == Get payload), metamorphic relations over the (NI x table) request matrix, and FromGetResponses rebuild, on contents generated through Modify",
   level="exploration",
   text="RIB contents are reached through Modify with payloads populating every fluent-settable field; then the whole request matrix {3 NIs, all, unknown} x {ALL and the five tables} is issued. Each response set must equal the model's installed entries of that scope with proto-equal payloads and correct NI tags; Get(ALL) must be the disjoint union of the per-table Gets and Get(all NIs) the union of per-NI Gets; empty scopes give empty OK streams; a RIB rebuilt with rib.FromGetResponses must equal the source contents. One case in four runs over a real grpc.Server on bufconn (every response marshalled and parsed); one in three reads the contents back only after every 2nd-6th request; the key universe contains valid but non-canonically spelled IPv6 prefixes. A many-instances scope runs servers with 1-21 network instances. A slow-reader scope issues Get(all, ALL) for a live reader that takes 1-6 s (thorough 15 s) of real time for one response.",
   note="Trusted: reference model for which keys are installed; canonicalisation of keyed lists; in-process Get stream (no gRPC codec).",
   design="DESIGN.md §4 C07"),
 "C15": dict(
   technique="property-based round-trip testing: reconciler output applied to the live target RIB with reference checking on, then contents compared with the intended RIB",
   level="exploration",
   text="Pairs of reference-closed RIBs (shared generated base history plus an independent extension each; intended instances a subset of the target's; boundary id bases) are reconciled; the emitted operations are applied to the real target in the documented dependency order and each must be acknowledged by its own call; afterwards both RIBs' contents must be equal in every network instance, a second reconcile must be empty and the ids must be exactly base+1..base+n. The key universes hold two spellings of one prefix (distinct keys for the RIB). A large-tables scope reconciles tables of up to 2049 entries on either side.",
   note="Trusted: rib.RIB semantics themselves (decided by C01-C03) since the oracle applies the operations to a real RIB; obs conversion.",
   design="DESIGN.md §4 C15"),
 "C04": dict(
   technique="model-based property testing of multi-session scripts (harness-owned interleaving at message granularity) against the election/session model, with before/after state snapshots through Get and hooks",
   level="exploration",
   text="Scripts of connect / negotiate / announce / operate / disconnect steps for 2-3 sessions (random up to 25 steps, exhaustive up to 4/5 steps over a 2-session alphabet) with announced ids and operation stamps drawn independently from a 128-bit lattice are run over in-process streams. An operation must be accepted iff its session is the model's primary and its stamp equals the session's last announced id and the highest id learnt; every other operation must be answered FAILED or end its RPC and leave Get contents, held operations, counters, election id and primary untouched. In addition, in-flight schedules: the primary's request is stopped inside one of its operations through the public post-change hook, announcements of up to three other sessions are delivered meanwhile (each followed until it is answered or its handler is parked on a lock - goroutine state), the operation is released; at quiescence election id and primary must be those the announcements produce in their order (any announcer of the maximum if some had to wait) and exactly the primary's correctly stamped probe operation must be programmed. The wall clock the server reads belongs to the harness (VerifSetClock hook) and is stepped backwards/forwards or frozen at drawn steps. Scripts may start on a server with an injected election id (NewFake + InjectElectionID); in the in-flight schedules clients of idle sessions may go away meanwhile.",
   note="Trusted: the election model (primary = most recent announcer of an id >= all earlier ones, 128-bit compare); in-process streams; hooks for election state. Operations never become held here (C06 covers hand-over with held operations).",
   design="DESIGN.md §4 C04"),
 "C05": dict(
   technique="exhaustive small-scope enumeration + rapid sequences of election announcements against an explicit election model, with a behavioural probe of the primary",
   level="exploration",
   text="All announcement sequences of length<=3 (quick) / <=4 (thorough) over the 9-id lattice {0,1,2}^2 and 3 sessions, plus random sequences with boundary-structured 128-bit ids, ties, decreases and disconnects. Every election response must carry exactly the running 128-bit maximum; a zero id must end that RPC with INVALID_ARGUMENT and change nothing; after every step the hook's (id, primary) must equal the model's, and every announced session's correctly stamped probe operation must be acknowledged iff it is the model's primary. The in-flight schedules of C04 (announcements delivered while an operation of the primary is stopped inside the post-change hook) are run with this property's clauses: no election response below the id it answers or above the maximum announced; id and primary at quiescence. Announcements may carry an unknown field inside the election-id message (same number, different bytes). Sequences may start on a server with an injected election id (NewFake + InjectElectionID).",
   note="Trusted: the model definition taken from the property text; sequential (harness-owned) interleaving only - concurrent announcements are examined under C11.",
   design="DESIGN.md §4 C05"),
 "C06": dict(
   technique="model-based property testing of multi-session histories with a per-stream exactly-once result accounting oracle",
   level="exploration",
   text="Multi-session histories with batches of 1-8 operations over all tables (held operations that later resolve or fail, empty/unknown network instances, non-primary senders, wrong stamps), RIB-ack and FIB-ack, hand-over of the primary role while operations are held and per-session id counters that overlap across sessions. Per stream, up to a barrier after every request: no result for an id not sent on it; per id one of [FAILED], [RIB], [RIB,FIB]; never a verdict twice or failure and success; unanswered only if held, stream ended or primary role lost. In addition: dependency graphs sent by one elected session, and hand-overs in flight (the cascade that installs 1-6 held operations is stopped at a drawn installation through the post-change hook, another session takes over, the cascade is released): per-id verdict sequences must stay legal on every stream. A message for a session that sent nothing is accepted only if it fails that session's own unanswered operations. A backlog scope holds 255-4097 operations for missing groups while unrelated entries are installed and single operations are released; the harness-owned wall clock is stepped at drawn steps. Non-first operation ids may be 0 or 2^61+1.",
   note="Trusted: relation model deciding which operations are held; barrier-based quiescence of in-process streams; reading of gribi.proto that a fail-over discards the previous primary's held operations.",
   design="DESIGN.md §4 C06"),
 "C09": dict(
   technique="exhaustive small-scope enumeration + rapid message sequences against a session-protocol model with an explicit table of acceptable termination statuses",
   level="exploration",
   text="All message sequences of total length<=3 (quick) / <=4 (thorough) over an 18-symbol alphabet on two sessions and random sequences up to 14 messages on three: parameter combinations, election ids, stamped/unstamped operations, multi-field and empty messages, half-closes. Each violation must end exactly that RPC with a code and ModifyRPCErrorDetails reason from the acceptable set; afterwards Get, held operations, counters, election id/primary and the other streams must be untouched, the session footprint must equal the open sessions and later sessions proceed normally. The random alphabet contains requests with several differently stamped operations (own, wrong, explicit zero, none), scripts also run on a server that has already seen 15-257 (thorough 4097) short-lived sessions, and the harness-owned wall clock is stepped at drawn steps. The alphabet contains operations of no defined type, stamped or not.",
   note="Trusted: the status table transcribed from gribi.proto comments and compliance expectations (sets where several statuses are acceptable); the tolerance for parameters checked against a not-yet-negotiated peer.",
   design="DESIGN.md §4 C09"),
 "C12": dict(
   technique="property-based testing with constructed invalid classes and structural protobuf mutation of valid operations, before/after state comparison and a twin-RIB panic screen; the thorough tier adds coverage-guided native fuzzing (go test -fuzz) of proto.Unmarshal-decoded operations with the same oracle inside the target",
   level="exploration",
   text="A server pre-loaded with a generated RIB and a second idle session receives one message: every constructed invalid class, 1-3 structural mutations (undefined enum numbers, cleared sub-messages, duplicated list keys, invalid UTF-8, boundary integers, junk strings) of valid full-field operations, or a malformed Get/Flush. The operation is first applied to a twin RIB under recover (a panic there is a violation with the case), then sent through the server: exactly one in-band result or a clean RPC error on that session only; the idle session sees nothing and afterwards wins an election and programs an entry; rejected operations leave contents, held set and counters identical, accepted mutants change only their own key and keep counters and Get consistent. A mutant that is malformed by the model's static validity rules (zero/missing key or group, empty group, zero member index, label out of range, unknown group network instance, nil entry) must be rejected whatever else it carries - never programmed, never held; the constructed classes include the same defects on otherwise fully populated operations. Constructed classes include leaves only the schema constrains (metadata longer than 8 bytes, malformed addresses, label out of range); a long-bytes mutator and a static metadata rule cover the same for mutants. The zero-member-index class is repeated in wide groups (8-257 members). Invalid classes include names that differ from an instance name only by surrounding blanks, control characters or letter case (operations, group instances, Get, Flush).",
   note="Trusted: classification of the constructed classes as invalid (from the property text); the in-process stream (delivers messages gRPC's codec would refuse). A crash of the test process is reported by the driver as a violation with the in-flight case.",
   design="DESIGN.md §4 C12"),
 "C10": dict(
   technique="fault enumeration over generated scripts: every cut point x termination mode (in-process streams give exact cut points), prefix-of-sent-operations oracle, probe session under a watchdog with goroutine-dump attribution",
   level="fault_enumeration",
   text="For every generated Modify script all single faults are enumerated: the client goes away after each message sent, after each response read, at the K-th response inside a batch (send failure, or flow-control stall followed by cancel), by half-close, cancel or transport error; Gets are abandoned after each received response 0..n; plus random sequences of 2-3 faults. Once the RPC has ended and its goroutines are parked, entries read through a fresh Get must equal the model state after some prefix of the sent operations that includes every acknowledged one, the learnt election id must be the maximum delivered, the session footprint must be gone, and a probe session (negotiate, win election, ADD, Get, Flush) must complete; a watchdog expiry counts only with a gribigo frame parked on a lock/channel. The same scripts are also run with the server behind a real grpc.Server over bufconn: CloseSend, context cancellation (RST_STREAM), teardown of the client's connection, a client that never reads and then cancels, an abandoned Get stream, and a flood of cheap operations that parks the server's writer in HTTP/2 flow control before the client goes away. Half of the abandoned Gets are the first read after state-neutral writes to every table. A long-lived-server scope lets 15-257 (thorough 4097) clients abandon a Get on one server before it is probed. A disconnect-during-a-hand-over scope lets clients of idle sessions go away while an operation of the primary is in flight and other sessions announce election ids.",
   note="Trusted: belief model (servers run with forward references disallowed so unanswered operations are deterministic); goroutine-state quiescence; emulation of transport faults at the stream interface (kernel-level failures out of reach).",
   design="DESIGN.md §4 C10"),
 "C17": dict(
   technique="property-based differential testing of each chk helper against a direct specification of 'present' on a capturing testing.TB",
   level="exploration",
   text="Generated result lists, Get responses, client errors and wanted items (70% absent by a one-field perturbation, all five entry kinds, every option combination) are given to each helper on a capturing testing.TB; a field-by-field specification written without cmp decides presence and both directions must agree; HasResultsCache is additionally compared with HasResult (cache-pass implies plain-pass, equality when lookup keys are unique) and documented test-author errors must be fatal. Instance names include names that extend one another (VRF-1, VRF-12) with near-miss wants whose name/key boundary is moved by one character. The prefix pools hold several spellings of one prefix. Reported labels include values that alias small labels modulo 2^32.",
   note="Trusted: the specification of presence transcribed from the helper documentation; one documented-ambiguous region (AllowUnimplemented vs details of other codes) is not asserted.",
   design="DESIGN.md §4 C17"),
 "C18": dict(
   technique="property-based testing of generated builder programs against an independent interpreter, observed through a recording stub GRIBIClient",
   level="exploration",
   text="Programs of constructor/With*/Add* calls over the five entry builders and both encap-header builders, interleaved with AddEntry/ReplaceEntry/DeleteEntry, UpdateElectionID, StartSending and OpProto/EntryProto probes, run on a fluent client (elected-primary or all-primary) wired to a recording stub; builders keep being mutated after they were queued. An independent interpreter computes the expected protos, ids 1,2,3.., operation types and election stamps; probes are compared immediately, the request pointers received by the stub only at the very end so that aliasing of queued messages shows. Queue and election calls are made on a fresh Modify() handle, on the handle the previous call returned (chaining) or on a handle kept from the start; programs may restart the client (Stop + Start + StartSending: ids keep counting, the stamp stays the latest UpdateElectionID). String pools include valid values a normaliser would rewrite (host bits, upper-case or zero-padded hex, IPv4-mapped, surrounding blanks). A restart may re-specify the initial election id between Stop and Start. Queue calls may carry 255-4097 entries.",
   note="Trusted: the interpreter's reading of each setter (last call wins, Add* appends); header builders are not modified after AddEncapHeader; the stub stands in for gRPC (no serialisation).",
   design="DESIGN.md §4 C18"),
 "C13": dict(
   technique="model-based property testing of the client library against a scripted stub server with adversarial response schedules and a concurrent sampler",
   level="exploration",
   text="The client is driven through a scripted stub GRIBIClient: generated request batches and server schedules (results reordered across ids, grouped into responses, RIB and FIB acks split, election/parameter responses interleaved; violating servers with unknown ids, duplicate terminal results, multi-field responses). At every probe, after the receiver has provably processed everything sent (Recv-call synchronisation), Pending/Results must match the client model id by id (exactly one of pending / terminal result, details carry the operation's type and key, a RIB ack never completes an operation in FIB-ack mode) and AwaitConverged must return nil iff the model is converged, and a *ClientErr after a violating schedule; a concurrent sampler checks that no operation is ever lost. In addition an operation id is handed in a second time while unanswered (inside one request or in a later one) and every distinct id is answered once: AwaitConverged must not return nil. Requests may carry the client's election id together with operations (the election is then pending again). A second-session scope re-uses the client after the first session ended (cleanly or with an error) and Reset, with operations queued before or after Connect.",
   note="Trusted: the client model; Recv-call counting as the processing barrier; BusyLoopDelay set to 1 ms. One known finding is tolerated by signature (RIB_PROGRAMMED for a non-pending id in FIB-ack mode is not reported).",
   design="DESIGN.md §4 C13"),
 "C14": dict(
   technique="fault enumeration: every fault index x side x status class x burst size x epilogue on a scripted stub stream, with watchdog and goroutine-dump census oracles",
   level="fault_enumeration",
   text="A scripted exchange is cut by one stream fault at every message index on the send side (failing Send, or a Send stalled by flow control that then fails) and on the receive side, for EOF/Unavailable/Internal/Canceled, while the application queues a burst of 0..12 further requests; then Close, or Reset + new stub + Connect + a further exchange. The full product over small parameters is enumerated and larger ones are drawn. Done must fire, every Q must return, the error must be recorded, AwaitConverged must return a *ClientErr (never nil), Close/Reset must return, no goroutine with client frames may remain, and after Reset+Connect the client must be empty, the new stream must carry exactly a fresh client's messages and a further exchange must converge. 0-4 application goroutines may already be inside AwaitConverged when the stream breaks, the burst may be queued by another goroutine while the stream breaks, and a repeated contention scenario (several waiters, bursts of 7-12) looks for lock cycles between queueing calls, waiters and the client's sender/receiver. A many-outstanding scope uses requests of 255-8193 operations each, so that thousands are unanswered when the stream breaks. A linger scope leaves the re-connected session alone for 1-11 s (thorough 61 s) of real time before it is used again. After Reset the request for the new session may be queued before Connect.",
   note="Trusted: the stub's emulation of the gRPC client-stream contract; goroutine census by stack frames; 10 s watchdog (a hang is reported only with the blocked client frames in the dump).",
   design="DESIGN.md §4 C14"),
 "C11": dict(
   technique="randomised concurrent workloads (rapid-drawn scripts, scheduler perturbation, GOMAXPROCS variation) and election storms (simultaneous announcements from a spin barrier) under the Go race detector with a hang watchdog and a quiescent-state oracle",
   level="exploration",
   text="2-4 Modify sessions with ascending election ids (ties across sessions) and batches over per-session disjoint keys run from real goroutines together with Get readers and Flush callers (override and id-authorised) against one server built with -race. Any race-detector report is a violation (signature = the racing gribigo functions), as is a process death or a hang with gribigo frames parked on a lock/channel. At quiescence the learnt election id must be the maximum announced, the primary a session that announced it, every operation answered with one legal result sequence and, when no Flush overlapped, Get(ALL) must equal the union of the per-session folds of acknowledged operations. One session in five ends with a request during which its client goes away while the others go on; one random workload in four runs over real gRPC (bufconn). One workload in three runs on a server with both public RIB hooks registered (the post-change hook taking a drawn time); sessions keep their groups in a drawn home instance. Extra goroutines create network instances at runtime beside the workload.",
   note="Trusted: the Go race detector's happens-before analysis on the executions seen; the scheduler chooses the interleavings (sampled, not enumerated).",
   design="DESIGN.md §4 C11"),
 "C19": dict(
   technique="property-based testing of the compliance suite itself: rapid-drawn permutations/configurations on a shared conformant server, and a catalogue of single-requirement faulty servers (rewriting proxy over bufconn) with designated tests as oracle",
   level="exploration",
   text="Conformant half: every test of compliance.TestSuite must pass on a capturing testing.TB when the whole suite runs over real gRPC (bufconn) on one long-lived reference server in a generated permutation with a generated starting election id and VRF name. Faulty half: 29 single-requirement faults (response/request-rewriting proxy around the reference server, or the opposite server option); each (fault, designated test) pair must fail on a fresh faulty server and pass on a fresh unwrapped server in the same run; designation follows the registry's Requires* flags and test names only. The catalogue includes Get RPCs that end with a non-OK status after the complete data or after the first response. Further faults cover the plain 'this works' tests (valid additions / groups / deletes / metadata / cross-instance references / identical next-hops refused, session parameters never accepted, Modify unavailable, second matching session refused) and a session error with the right code but the wrong reason; a pair is retried up to three times before a test counts as unable to detect its fault. The catalogue includes servers that report acknowledgements with other values of the status enumeration (deprecated OK without FIB ack, UNSET). One conformant pass in three runs against a second conformant server whose Get reports the optional entry status fields truthfully.",
   note="Trusted: the catalogue and designation table in harness/c19/catalogue.go (completeness of the catalogue bounds what the faulty half can see); BusyLoopDelay 1 ms; pairs that wait for the suite's one-minute timeout run in the thorough tier only; a test that shuffles its own operations must fail at least once in 12 attempts.",
   design="DESIGN.md §4 C19, Appendix A"),
}
NOT_YET = {}

def main():
    props = [json.loads(l) for l in open(os.path.join(ROOT, "properties.jsonl"))]
    checks = []
    na = []
    for p in props:
        pid = p["id"]
        c = CHECKS.get(pid)
        if not c:
            na.append({"property_id": pid, "reason": NOT_YET.get(pid, "check under construction in this round; not claimed until its quick tier is green on the unchanged tree")})
            continue
        checks.append({
            "property_id": pid,
            "quick_cmd": "./check %s quick" % pid,
            "thorough_cmd": "./check %s thorough" % pid,
            "evidence_file": "/verif/evidence/%s.json" % pid,
            "replay_cmd_template": "./check %s --replay {path}" % pid,
            "engine": "pbt-harness",
            "level_claimed": {"category": c["level"], "text": c["text"], "design_ref": c["design"]},
            "level_note": c["note"],
            "technique": c["technique"],
        })
    hooks_commits = subprocess.run(["git", "-C", "/repo", "log", "--format=%H", "--grep=^verif hooks"], capture_output=True, text=True).stdout.split()
    m = {
        "version": 1,
        "setup_cmd": "./check setup",
        "hooks": {
            "guard": "verif",
            "enable": "go build tag: every check builds its test binary with `go test -c -tags verif` from /repo's working tree (harness/go.mod: replace github.com/openconfig/gribigo => /repo)",
            "baseline_off_cmd": "cd /repo && GOFLAGS=-mod=mod GOPROXY=off go test -json -vet=off -count=1 -timeout 25m ./...",
            "source_commits": hooks_commits,
            "add_only": True,
        },
        "engines": [{
            "name": "pbt-harness",
            "path": "/verif/harness",
            "serves_properties": [c["property_id"] for c in checks],
            "kind_free_text": "Go test module (pgregory.net/rapid v1.3.0 + native go fuzzing) with reference models, in-process gRPC stream fakes and a python driver (./check) that shards by seed over 16 cores, aggregates evidence and maps results to exit codes",
        }],
        "checks": checks,
        "not_applicable": na,
        "notes": "Technique family: property-based testing and fuzzing. Exit 2 = inconclusive (build failure / worker death / budget), never reported as a violation. known_findings.json lists recorded (known) and repaired (fixed) defects.",
    }
    json.dump(m, open(os.path.join(ROOT, "MANIFEST.json"), "w"), indent=1)
    print("checks:", [c["property_id"] for c in checks], "not_applicable:", len(na))

if __name__ == "__main__":
    main()
