package c09

import (
	"encoding/json"
	"fmt"
	"testing"

	"pgregory.net/rapid"

	"verifh/internal/ev"
	"verifh/internal/gen"
	"verifh/internal/sess"
)

func TestMain(m *testing.M) { ev.Main(m, "C09", "exploration") }

type Case struct {
	Script sess.Script `json:"script"`
}

func setup() {
	c := ev.C()
	c.Rule = "message sequences over the alphabet {session parameters (5 representative of the 8 mode combinations in the exhaustive scope, all 8 in the random one), election id (zero, low, equal, high), operation (stamped with the session's id / without id / wrong id), the four multi-field combinations, empty message, half-close} on up to 3 concurrently open sessions in every order: exhaustive to total length 3 (quick) / 4 (thorough) over 2 sessions, rapid to length 14 over 3. Oracle: session model with the acceptable status set per violation (code + ModifyRPCErrorDetails reason from gribi.proto and the compliance suite); after every violation: Get, held set, counters, election id and primary unchanged (hooks), no message on any other stream, the other sessions still usable (they go on in the script), session footprint == open sessions. Non-trivial = a violation happened while >=2 sessions were open, or was not the first message of its session; distinct by FNV-64 of the case JSON. Later additions: requests with several differently stamped operations (own, wrong, explicit zero, none); operations of no defined type; scripts on a server that has seen 15-257 (thorough 4097) short-lived sessions; clock steps."
	c.Assumptions = []string{
		"while another live session has not negotiated yet, a new SINGLE_PRIMARY session may be accepted or refused with PARAMS_DIFFER_FROM_OTHER_CLIENTS (the property does not decide it)",
		"an operation without election id must end the RPC with FAILED_PRECONDITION (no reason is specified); a multi-field message with INVALID_ARGUMENT; a zero election id with INVALID_ARGUMENT",
		"an empty ModifyRequest is not covered by the property: only absence of side effects is asserted",
	}
}

func runCase(c Case) *ev.Verdict {
	v, st := sess.Run(c.Script, sess.Checks{P: "C09", Proto: true, Election: true, Gate: true})
	if st.Violations > 0 {
		v.Class("violation")
	}
	if st.ViolWith2Open > 0 {
		v.Class("violation-with->=2-open")
	}
	if st.ViolNotFirst > 0 {
		v.Class("violation-not-first-message")
	}
	if st.Accepted > 0 {
		v.Class("accepted-op")
	}
	v.NonTrivial = st.ViolWith2Open > 0 || st.ViolNotFirst > 0
	return v
}

func TestReplay(t *testing.T) {
	setup()
	for _, f := range ev.ReplayFiles() {
		var c Case
		if err := ev.LoadCase(f, &c); err != nil {
			t.Fatalf("%s: %v", f, err)
		}
		for i := 0; i < 3; i++ {
			v := runCase(c)
			if fresh := ev.C().Record(ev.JSON(c), v); len(fresh) > 0 {
				t.Errorf("%s: %v", f, fresh)
				break
			}
		}
	}
}

func nhOp(id uint64, elec *gen.ID128) *gen.Op {
	return &gen.Op{ID: id, NI: "DEFAULT", Kind: gen.NH, Act: gen.ADD, Key: fmt.Sprint(id%3 + 1), IP: fmt.Sprintf("192.0.2.%d", id%250+1), Elec: elec}
}

// symbol kinds of the alphabet; operations are stamped at instantiation time
// relative to what the session announced so far.
type sym struct {
	k     string
	p     *sess.ParamSpec
	id    *gen.ID128
	multi string
	stamp string // "own" | "none" | "wrong" | "zero"
	// stamps (random campaign only): one request carrying several operations stamped differently
	stamps []string
	// untyped > 0: the untyped-th operation of the request (1-based) has no defined operation type
	untyped int
}

func symbols(allParams bool) []sym {
	var out []sym
	ps := []sess.ParamSpec{{Red: 1, Persist: 1, Ack: 0}, {Red: 1, Persist: 1, Ack: 1}, {Red: 0, Persist: 1, Ack: 0}, {Red: 0, Persist: 0, Ack: 0}, {Red: 1, Persist: 0, Ack: 0}}
	if allParams {
		ps = nil
		for r := int32(0); r < 2; r++ {
			for p := int32(0); p < 2; p++ {
				for a := int32(0); a < 2; a++ {
					ps = append(ps, sess.ParamSpec{Red: r, Persist: p, Ack: a})
				}
			}
		}
	}
	for i := range ps {
		out = append(out, sym{k: "params", p: &ps[i]})
	}
	for _, id := range []gen.ID128{{Hi: 0, Lo: 0}, {Hi: 0, Lo: 1}, {Hi: 0, Lo: 2}, {Hi: 0, Lo: 3}} {
		id := id
		out = append(out, sym{k: "elec", id: &id})
	}
	for _, s := range []string{"own", "none", "wrong"} {
		out = append(out, sym{k: "ops", stamp: s})
	}
	for _, m := range []string{"pe", "po", "eo", "peo"} {
		out = append(out, sym{k: "multi", multi: m})
	}
	out = append(out, sym{k: "empty"}, sym{k: "halfclose"})
	if allParams {
		// (appended: the biases of the random campaign address the symbols above by position)
		for _, st := range [][]string{{"own", "own", "own"}, {"own", "wrong", "own"}, {"zero", "none"}, {"zero", "own", "none"}, {"own", "none", "own"}, {"wrong", "zero", "own"}, {"none", "own"}, {"own", "zero"}} {
			out = append(out, sym{k: "ops", stamps: st})
		}
		out = append(out, sym{k: "ops", stamp: "zero"})
		// operations of no defined type (op unset): alone or beside others, stamped or not
		out = append(out, sym{k: "ops", stamps: []string{"none"}, untyped: 1}, sym{k: "ops", stamps: []string{"own"}, untyped: 1},
			sym{k: "ops", stamps: []string{"own", "none"}, untyped: 2}, sym{k: "ops", stamps: []string{"own", "own", "own"}, untyped: 2}, sym{k: "ops", stamps: []string{"wrong"}, untyped: 1})
	}
	return out
}

// build instantiates a sequence of (session, symbol) into a script.
func build(seq [][2]int, syms []sym) sess.Script {
	sc := sess.Script{FwdRefs: true}
	last := map[int]*gen.ID128{}
	for i, e := range seq {
		s, y := e[0], syms[e[1]]
		st := sess.Step{S: s, K: y.k, P: y.p, ID: y.id, Multi: y.multi}
		if y.k == "elec" && !y.id.IsZero() {
			last[s] = y.id
		}
		if y.k == "ops" {
			stampOf := func(how string) *gen.ID128 {
				switch how {
				case "own":
					if last[s] != nil {
						return last[s]
					}
					return &gen.ID128{Hi: 0, Lo: 1}
				case "wrong":
					return &gen.ID128{Hi: 0, Lo: 9}
				case "zero":
					return &gen.ID128{}
				}
				return nil
			}
			if len(y.stamps) > 0 {
				for j, how := range y.stamps {
					o := nhOp(uint64(100*(i+1)+j), stampOf(how))
					if y.untyped == j+1 {
						o.Act = "NONE"
					}
					st.Ops = append(st.Ops, o)
				}
			} else {
				st.Ops = []*gen.Op{nhOp(uint64(i+1), stampOf(y.stamp))}
			}
		}
		sc.Steps = append(sc.Steps, st)
	}
	return sc
}

func TestCampaign(t *testing.T) {
	setup()
	col := ev.C()
	t.Run("exhaustive-small-scope", func(t *testing.T) {
		maxLen := ev.Pick("C09_EXH_LEN", 3, 4)
		syms := symbols(false)
		nsym := len(syms) * 2
		sk, ns := ev.Shard()
		for n := 1; n <= maxLen; n++ {
			total := 1
			for i := 0; i < n; i++ {
				total *= nsym
			}
			cnt, bad := 0, 0
			for idx := 0; idx < total; idx++ {
				if idx%ns != sk {
					continue
				}
				var seq [][2]int
				x := idx
				for i := 0; i < n; i++ {
					e := x % nsym
					x /= nsym
					seq = append(seq, [2]int{e / len(syms), e % len(syms)})
				}
				c := Case{Script: build(seq, syms)}
				v := runCase(c)
				cnt++
				if fresh := col.Record(ev.JSON(c), v); len(fresh) > 0 {
					bad++
					if bad <= 3 {
						t.Errorf("%s: %v", ev.JSON(c), fresh)
					}
				}
			}
			col.Scope(fmt.Sprintf("all message sequences of total length %d over the %d-symbol alphabet on 2 sessions", n, len(syms)), cnt, true)
		}
	})
	t.Run("many-sessions", func(t *testing.T) {
		// a server that has already seen K short-lived sessions (K around powers of two): a
		// generated script must behave on it exactly as on a fresh one
		ks := []int{15, 16, 17, 63, 64, 65, 127, 128, 129, 255, 256, 257}
		if ev.Thorough() {
			ks = append(ks, 511, 512, 513, 1023, 1024, 1025, 4095, 4096, 4097)
		}
		rapid.Check(t, func(rt *rapid.T) {
			if rapid.IntRange(0, 9).Draw(rt, "run?") != 0 {
				return
			}
			sc := drawScript(rt)
			sc.Prelude = ks[rapid.IntRange(0, len(ks)-1).Draw(rt, "k")]
			if rapid.Bool().Draw(rt, "bad?") {
				sc.PreludeBad = rapid.IntRange(1, 7).Draw(rt, "every")
			}
			c := Case{Script: sc}
			v := runCase(c)
			col.Check(rt, ev.JSON(c), v)
		})
	})
	t.Run("long-streams", func(t *testing.T) {
		// the K-th message of a long-lived stream: every symbol of the alphabet as message
		// number K+1 of a session that negotiated and then announced the same election id
		// K-1 times, for K around powers of two, with and without a second live session
		syms := symbols(true)
		ks := []int{2, 3, 15, 16, 17, 63, 64, 65, 255, 256, 257}
		if ev.Thorough() {
			ks = append(ks, 31, 32, 33, 127, 128, 129, 511, 512, 513, 1023, 1024, 1025, 4095, 4096, 4097, 65535, 65536, 65537)
		}
		sk, ns := ev.Shard()
		cnt, bad, idx := 0, 0, 0
		for _, k := range ks {
			for y := range syms {
				for other := 0; other < 2; other++ {
					idx++
					if idx%ns != sk {
						continue
					}
					sc := sess.Script{FwdRefs: true}
					std := sess.ParamSpec{Red: 1, Persist: 1, Ack: 0}
					if other == 1 {
						sc.Steps = append(sc.Steps, sess.Step{S: 1, K: "params", P: &std}, sess.Step{S: 1, K: "elec", ID: &gen.ID128{Lo: 1}})
					}
					sc.Steps = append(sc.Steps, sess.Step{S: 0, K: "params", P: &std}, sess.Step{S: 0, K: "elec", ID: &gen.ID128{Lo: 2}, Rep: k - 2})
					sy := syms[y]
					st := sess.Step{S: 0, K: sy.k, P: sy.p, ID: sy.id, Multi: sy.multi}
					if sy.k == "ops" {
						var stamp *gen.ID128
						switch sy.stamp {
						case "own":
							stamp = &gen.ID128{Lo: 2}
						case "wrong":
							stamp = &gen.ID128{Lo: 9}
						}
						st.Ops = []*gen.Op{nhOp(1, stamp)}
					}
					sc.Steps = append(sc.Steps, st)
					// the session (if it survived) and the other one go on
					sc.Steps = append(sc.Steps, sess.Step{S: 0, K: "elec", ID: &gen.ID128{Lo: 3}}, sess.Step{S: 1, K: "elec", ID: &gen.ID128{Lo: 4}})
					c := Case{Script: sc}
					v := runCase(c)
					v.Class("long-stream")
					v.NonTrivial = true
					cnt++
					if fresh := col.Record(ev.JSON(c), v); len(fresh) > 0 {
						bad++
						if bad <= 3 {
							t.Errorf("%s: %v", ev.JSON(c), fresh)
						}
					}
				}
			}
		}
		col.Scope("every alphabet symbol as message K+1 of a long-lived negotiated stream, K around powers of two, with/without a second live session", cnt, true)
	})
	t.Run("random", func(t *testing.T) {
		syms := symbols(true)
		// bias: most sessions start with valid parameters so that later violations are reached
		rapid.Check(t, func(rt *rapid.T) {
			seq := drawSeq(rt, syms)
			c := Case{Script: build(seq, syms)}
			v := runCase(c)
			col.Check(rt, ev.JSON(c), v)
		})
	})
	col.MinimizeAll(minimize)
}

// drawSeq draws a random (session, symbol) sequence biased towards protocol progress.
func drawSeq(rt *rapid.T, syms []sym) [][2]int {
	n := rapid.IntRange(2, 14).Draw(rt, "len")
	var seq [][2]int
	started := map[int]bool{}
	nextSess := 3
	for i := 0; i < n; i++ {
		s := rapid.IntRange(0, nextSess-1).Draw(rt, "s")
		var y int
		if !started[s] && rapid.IntRange(0, 9).Draw(rt, "validstart") < 7 {
			y = 6 + rapid.IntRange(0, 1).Draw(rt, "ack") // {SP,PRESERVE,RIB|FIB} in the 8-combination table
		} else if started[s] && rapid.IntRange(0, 9).Draw(rt, "progress") < 5 {
			// make progress in the protocol: announce a non-zero id or operate with the own id
			y = []int{9, 10, 11, 12}[rapid.IntRange(0, 3).Draw(rt, "progress-sym")]
		} else {
			y = rapid.IntRange(0, len(syms)-1).Draw(rt, "sym")
		}
		started[s] = true
		seq = append(seq, [2]int{s, y})
		if syms[y].k == "halfclose" && nextSess < 6 {
			nextSess++
		}
	}
	return seq
}

func drawScript(rt *rapid.T) sess.Script {
	syms := symbols(true)
	sc := build(drawSeq(rt, syms), syms)
	sess.DrawClock(rt, &sc, 5)
	return sc
}

func minimize(sig string, cs []byte) []byte {
	var c Case
	if err := json.Unmarshal(cs, &c); err != nil {
		return nil
	}
	pre, bad := c.Script.Prelude, c.Script.PreludeBad
	ms := sess.Minimize(c.Script, ev.Bounded(func(s sess.Script) bool {
		s.Prelude, s.PreludeBad = pre, bad
		return runCase(Case{Script: s}).HasSig(sig)
	}))
	ms.Prelude, ms.PreludeBad = pre, bad
	return ev.JSON(Case{Script: ms})
}
