package c15

import (
	"context"
	"encoding/json"
	"fmt"
	"sort"
	"strings"
	"sync/atomic"
	"testing"

	"pgregory.net/rapid"

	spb "github.com/openconfig/gribi/v1/proto/service"
	"github.com/openconfig/gribigo/rib"
	"github.com/openconfig/gribigo/rib/reconciler"

	"verifh/internal/ev"
	"verifh/internal/gen"
	"verifh/internal/hgen"
	"verifh/internal/l1"
	"verifh/internal/model"
	"verifh/internal/obs"
)

func TestMain(m *testing.M) { ev.Main(m, "C15", "exploration") }

// Case: both RIBs are built (forward references disallowed, no flush, hence
// reference-closed and without held operations) from a shared base history
// plus one extension each.
type Case struct {
	Base   []hgen.Step `json:"base"`
	ExtI   []hgen.Step `json:"ext_intended"`
	ExtT   []hgen.Step `json:"ext_target"`
	NIsI   []string    `json:"nis_intended"` // VRFs of the intended RIB (subset of the target's)
	NIsT   []string    `json:"nis_target"`
	IDBase uint64      `json:"id_base"`
}

func setup() {
	c := ev.C()
	c.Rule = "pairs of reference-closed RIBs built at the rib API (forward references disallowed, no flush) from a shared rapid-drawn base history plus an independent extension each, over DEFAULT + {VRF-A,VRF-B} where the intended RIB's instances are a subset of the target's; id base from boundaries. Oracle (round trip): the reconciler's operations are applied to the live target with reference checking on in the documented order (Add NH,NHG,top; Replace NH,NHG,top; Delete top,NHG,NH); every operation must be acknowledged by its own call, afterwards RIBContents(target)==RIBContents(intended) in every NI of either side (absent==empty), a second reconcile is empty, ids are exactly base+1..base+n. Non-trivial = the pair needs >=1 add, >=1 replace and >=1 delete, or the target has an NI the intended RIB lacks; distinct by FNV-64 of the case JSON. Later additions: two spellings of one prefix in the key universes; large-tables scope (up to 2049 entries per table on either side)."
	c.Assumptions = []string{"input RIBs are reference-closed and hold no pending operations (by construction)", "every network instance of the intended RIB exists on the target"}
}

func build(vrfs []string, steps ...[]hgen.Step) *rib.RIB {
	r := rib.New("DEFAULT", rib.DisableForwardReferences())
	for _, n := range vrfs {
		if err := r.AddNetworkInstance(n); err != nil {
			panic(err)
		}
	}
	for _, ss := range steps {
		for _, st := range ss {
			if st.Op == nil {
				continue
			}
			op := st.Op.Proto()
			if op.GetOp() == spb.AFTOperation_DELETE {
				r.DeleteEntry(st.Op.NI, op)
			} else {
				r.AddEntry(st.Op.NI, op)
			}
		}
	}
	return r
}

func perNI(st obs.State) map[string]int {
	out := map[string]int{}
	for k := range st {
		out[k.NI]++
	}
	return out
}

func runCase(c Case) *ev.Verdict {
	v := &ev.Verdict{}
	intended := build(c.NIsI, c.Base, c.ExtI)
	target := build(c.NIsT, c.Base, c.ExtT)
	var id atomic.Uint64
	id.Store(c.IDBase)
	rec := reconciler.New(reconciler.NewLocalRIB(intended), reconciler.NewLocalRIB(target))
	var ops *reconciler.ReconcileOps
	var err error
	if p := l1.Protect(func() { ops, err = rec.Reconcile(context.Background(), &id) }); p != "" {
		v.Fail(l1.Sig("C15", p), "Reconcile panicked: %s", p)
		return v
	}
	if err != nil {
		v.Fail("C15/reconcile-error", "Reconcile failed: %v", err)
		return v
	}
	phases := []struct {
		name string
		ops  []*spb.AFTOperation
	}{
		{"add/nh", ops.Add.NH}, {"add/nhg", ops.Add.NHG}, {"add/top", ops.Add.TopLevel},
		{"replace/nh", ops.Replace.NH}, {"replace/nhg", ops.Replace.NHG}, {"replace/top", ops.Replace.TopLevel},
		{"delete/top", ops.Delete.TopLevel}, {"delete/nhg", ops.Delete.NHG}, {"delete/nh", ops.Delete.NH},
	}
	var ids []uint64
	n := 0
	nAdd, nRep, nDel := 0, 0, 0
	for _, ph := range phases {
		for _, op := range ph.ops {
			n++
			ids = append(ids, op.GetId())
			switch {
			case strings.HasPrefix(ph.name, "add"):
				nAdd++
			case strings.HasPrefix(ph.name, "replace"):
				nRep++
			default:
				nDel++
			}
			wantDel := strings.HasPrefix(ph.name, "delete")
			if (op.GetOp() == spb.AFTOperation_DELETE) != wantDel {
				v.Fail("C15/op-type-in-wrong-phase", "%s contains operation %d of type %s", ph.name, op.GetId(), op.GetOp())
			}
			var oks, fails []*rib.OpResult
			var err error
			if p := l1.Protect(func() {
				if op.GetOp() == spb.AFTOperation_DELETE {
					oks, fails, err = target.DeleteEntry(op.GetNetworkInstance(), op)
				} else {
					oks, fails, err = target.AddEntry(op.GetNetworkInstance(), op)
				}
			}); p != "" {
				v.Fail(l1.Sig("C15", p), "applying %s op %d panicked: %s", ph.name, op.GetId(), p)
				return v
			}
			k, _ := model.KeyOf(op.GetNetworkInstance(), op)
			if err != nil || len(fails) != 0 || len(oks) != 1 || oks[0].ID != op.GetId() {
				msg := ""
				if len(fails) > 0 {
					msg = fails[0].Error
				}
				v.Fail("C15/op-not-acknowledged:"+ph.name, "applying %s operation %d (%s %s) to the target: oks=%v fails=%v (%s) err=%v", ph.name, op.GetId(), op.GetOp(), k, obs.IDs(oks), obs.IDs(fails), msg, err)
			}
		}
	}
	// ids: exactly base+1 .. base+n
	sort.Slice(ids, func(i, j int) bool { return ids[i] < ids[j] })
	for i, x := range ids {
		if x != c.IDBase+uint64(i)+1 {
			v.Fail("C15/ids", "operation ids are %v, want exactly %d..%d", ids, c.IDBase+1, c.IDBase+uint64(n))
			break
		}
	}
	if got := id.Load(); got != c.IDBase+uint64(n) {
		v.Fail("C15/id-counter", "id counter is %d after %d operations from base %d", got, n, c.IDBase)
	}
	si, err := obs.FromRIB(intended)
	if err != nil {
		v.Fail("C15/contents-unreadable", "%v", err)
		return v
	}
	st, err := obs.FromRIB(target)
	if err != nil {
		v.Fail("C15/contents-unreadable", "%v", err)
		return v
	}
	extraNI := len(c.NIsT) > len(c.NIsI)
	if d := obs.Diff(si, st); len(d) > 0 {
		cl := obs.DiffClass(d)
		onlyTargetNI := true
		inI := map[string]bool{"DEFAULT": true}
		for _, n := range c.NIsI {
			inI[n] = true
		}
		for _, l := range d {
			hit := false
			for _, n := range c.NIsT {
				if !inI[n] && strings.Contains(l, " "+n+"/") {
					hit = true
				}
			}
			if !hit {
				onlyTargetNI = false
			}
		}
		if onlyTargetNI {
			cl += ":target-only-ni"
		}
		v.Fail("C15/not-converged:"+cl, "after applying the reconciler's operations the target differs from the intended RIB (want = intended, got = target): %s", strings.Join(d, "; "))
	}
	if len(v.Findings) == 0 {
		ops2, err := rec.Reconcile(context.Background(), &id)
		if err != nil {
			v.Fail("C15/reconcile-error", "second Reconcile failed: %v", err)
		} else if !ops2.IsEmpty() {
			v.Fail("C15/second-reconcile-not-empty", "reconciling converged RIBs yields operations: add %d/%d/%d replace %d/%d/%d delete %d/%d/%d",
				len(ops2.Add.NH), len(ops2.Add.NHG), len(ops2.Add.TopLevel), len(ops2.Replace.NH), len(ops2.Replace.NHG), len(ops2.Replace.TopLevel), len(ops2.Delete.TopLevel), len(ops2.Delete.NHG), len(ops2.Delete.NH))
		}
	}
	if nAdd > 0 {
		v.Class("adds")
	}
	if nRep > 0 {
		v.Class("replaces")
	}
	if nDel > 0 {
		v.Class("deletes")
	}
	if extraNI {
		v.Class("target-has-extra-ni")
	}
	if n == 0 {
		v.Class("equal-ribs")
	}
	v.NonTrivial = (nAdd > 0 && nRep > 0 && nDel > 0) || (extraNI && len(perNI(st)) >= 0)
	return v
}

func TestReplay(t *testing.T) {
	setup()
	for _, f := range ev.ReplayFiles() {
		var c Case
		if err := ev.LoadCase(f, &c); err != nil {
			t.Fatalf("%s: %v", f, err)
		}
		for i := 0; i < 10; i++ {
			v := runCase(c)
			if fresh := ev.C().Record(ev.JSON(c), v); len(fresh) > 0 {
				t.Errorf("%s: %v", f, fresh)
				break
			}
		}
	}
}

func drawSteps(rt *rapid.T, m *model.RIB, cfg hgen.Cfg, n int, id *uint64) []hgen.Step {
	var out []hgen.Step
	for i := 0; i < n; i++ {
		*id++
		o := hgen.DrawOp(rt, m, cfg, *id)
		out = append(out, hgen.Step{Op: o})
		m.BeliefApply(o.NI, o.Proto())
	}
	return out
}

func drawCase(rt *rapid.T) Case {
	cfg := hgen.DefaultCfg()
	cfg.FlushPct = 0
	cfg.Rich = 30
	cfg.PopTop = true
	cfg.Backups = 20
	c := Case{}
	vrfSets := [][]string{{}, {"VRF-A"}, {"VRF-A", "VRF-B"}}
	ti := rapid.IntRange(0, 2).Draw(rt, "target-nis")
	ii := rapid.IntRange(0, ti).Draw(rt, "intended-nis")
	c.NIsT, c.NIsI = vrfSets[ti], vrfSets[ii]
	c.IDBase = []uint64{0, 1, 41, 1 << 32, 1<<63 - 1, 1 << 63}[rapid.IntRange(0, 5).Draw(rt, "idbase")]
	// belief models follow a RIB without forward references; the belief of the
	// shared base is cloned for both extensions
	m := model.New("DEFAULT", c.NIsT, false)
	var id uint64
	c.Base = drawSteps(rt, m, cfg, rapid.IntRange(0, 25).Draw(rt, "nbase"), &id)
	mi, mt := m.Clone(), m.Clone()
	c.ExtI = drawSteps(rt, mi, cfg, rapid.IntRange(0, 12).Draw(rt, "nexti"), &id)
	c.ExtT = drawSteps(rt, mt, cfg, rapid.IntRange(0, 12).Draw(rt, "nextt"), &id)
	return c
}

func TestCampaign(t *testing.T) {
	setup()
	col := ev.C()
	t.Run("random", func(t *testing.T) {
		rapid.Check(t, func(rt *rapid.T) {
			c := drawCase(rt)
			v := runCase(c)
			col.Check(rt, ev.JSON(c), v)
		})
	})
	t.Run("large-tables", func(t *testing.T) {
		// one table of one instance holds N entries on the intended side and M on the target side
		// (N, M around powers of two, 0 included; partly the same keys with another group):
		// thousands of adds, replaces and deletes in one reconciliation
		sizes := []int{0, 1, 255, 257, 1023, 1024, 1025, 1030, 2047, 2049}
		rapid.Check(t, func(rt *rapid.T) {
			if rapid.IntRange(0, 29).Draw(rt, "run?") != 0 {
				return
			}
			c := Case{NIsT: []string{"VRF-A"}, NIsI: []string{"VRF-A"}, IDBase: []uint64{0, 1 << 32}[rapid.IntRange(0, 1).Draw(rt, "idbase")]}
			ni := []string{"DEFAULT", "VRF-A"}[rapid.IntRange(0, 1).Draw(rt, "ni")]
			kind := []string{gen.V4, gen.V6, gen.MPLS, gen.NH}[rapid.IntRange(0, 3).Draw(rt, "table")]
			id := uint64(0)
			add := func(dst *[]hgen.Step, o *gen.Op) {
				id++
				o.ID = id
				*dst = append(*dst, hgen.Step{Op: o})
			}
			add(&c.Base, &gen.Op{NI: ni, Kind: gen.NH, Act: gen.ADD, Key: "1", IP: "192.0.2.1"})
			add(&c.Base, &gen.Op{NI: ni, Kind: gen.NHG, Act: gen.ADD, Key: "1", Hops: []gen.Hop{{Index: 1}}})
			add(&c.Base, &gen.Op{NI: ni, Kind: gen.NHG, Act: gen.ADD, Key: "2", Hops: []gen.Hop{{Index: 1, Weight: gen.U(2)}}})
			entry := func(i int, group uint64) *gen.Op {
				switch kind {
				case gen.V4:
					return &gen.Op{NI: ni, Kind: gen.V4, Act: gen.ADD, Key: fmt.Sprintf("10.%d.%d.0/24", i/250, i%250), Group: group}
				case gen.V6:
					return &gen.Op{NI: ni, Kind: gen.V6, Act: gen.ADD, Key: fmt.Sprintf("2001:db8:%x::/48", i+1), Group: group}
				case gen.MPLS:
					return &gen.Op{NI: ni, Kind: gen.MPLS, Act: gen.ADD, Key: fmt.Sprint(1000 + i), Group: group}
				}
				return &gen.Op{NI: ni, Kind: gen.NH, Act: gen.ADD, Key: fmt.Sprint(100 + i), IP: fmt.Sprintf("198.51.100.%d", 1+int(group))}
			}
			n := sizes[rapid.IntRange(0, len(sizes)-1).Draw(rt, "intended-size")]
			m := sizes[rapid.IntRange(0, len(sizes)-1).Draw(rt, "target-size")]
			shift := []int{0, 3, 500}[rapid.IntRange(0, 2).Draw(rt, "shift")] // the target's keys start here: overlap with other payloads
			for i := 0; i < n; i++ {
				add(&c.ExtI, entry(i, 1))
			}
			for i := 0; i < m; i++ {
				add(&c.ExtT, entry(shift+i, 2))
			}
			v := runCase(c)
			v.Class("large-tables")
			v.NonTrivial = n+m >= 255
			col.Check(rt, ev.JSON(c), v)
		})
	})
	col.MinimizeAll(minimize)
}

func minimize(sig string, cs []byte) []byte {
	var c Case
	if err := json.Unmarshal(cs, &c); err != nil {
		return nil
	}
	try := func(cc Case) bool {
		for i := 0; i < 3; i++ {
			if runCase(cc).HasSig(sig) {
				return true
			}
		}
		return false
	}
	if !try(c) {
		return nil
	}
	for _, part := range []*[]hgen.Step{&c.Base, &c.ExtI, &c.ExtT} {
		part := part
		h := hgen.Minimize(hgen.History{Steps: *part}, ev.Bounded(func(h hgen.History) bool {
			old := *part
			*part = h.Steps
			ok := try(c)
			*part = old
			return ok
		}))
		*part = h.Steps
	}
	_ = fmt.Sprint
	_ = gen.ADD
	return ev.JSON(c)
}
