package hgen

import (
	"fmt"

	"pgregory.net/rapid"

	"verifh/internal/gen"
)

// DrawGraph draws a dependency graph (NH <- NHG <- IPv4/IPv6/MPLS over 1-3 network
// instances, cross-instance group references, dependencies that never arrive, are deleted
// and re-added, retargeting REPLACEs, a doomed held REPLACE) and an arrival order.
func DrawGraph(rt *rapid.T) History {
	nis := NIs
	var ops []gen.Op
	type grp struct {
		ni string
		id uint64
	}
	var groups []grp
	nNI := rapid.IntRange(1, 3).Draw(rt, "nNI")
	for n := 0; n < nNI; n++ {
		ni := nis[n]
		nnh := rapid.IntRange(1, 3).Draw(rt, "nnh")
		for i := 1; i <= nnh; i++ {
			if rapid.IntRange(0, 9).Draw(rt, "nh-arrives") == 0 {
				continue // this dependency never arrives
			}
			ops = append(ops, gen.Op{NI: ni, Kind: gen.NH, Act: gen.ADD, Key: fmt.Sprint(i), IP: "192.0.2.1"})
		}
		ng := rapid.IntRange(1, 2).Draw(rt, "ng")
		for g := 1; g <= ng; g++ {
			o := gen.Op{NI: ni, Kind: gen.NHG, Act: gen.ADD, Key: fmt.Sprint(g)}
			for i := 1; i <= nnh; i++ {
				if rapid.Bool().Draw(rt, "member") {
					o.Hops = append(o.Hops, gen.Hop{Index: uint64(i)})
				}
			}
			if len(o.Hops) == 0 {
				o.Hops = []gen.Hop{{Index: 1}}
			}
			if rapid.IntRange(0, 4).Draw(rt, "backup?") == 0 {
				o.Backup = gen.U(uint64(rapid.IntRange(1, 3).Draw(rt, "backup")))
			}
			groups = append(groups, grp{ni, uint64(g)})
			if rapid.IntRange(0, 9).Draw(rt, "nhg-arrives") != 0 {
				ops = append(ops, o)
			}
		}
	}
	ntop := rapid.IntRange(1, 4).Draw(rt, "ntop")
	for i := 0; i < ntop; i++ {
		g := groups[rapid.IntRange(0, len(groups)-1).Draw(rt, "grp")]
		ni := nis[rapid.IntRange(0, nNI-1).Draw(rt, "topni")]
		kind := []string{gen.V4, gen.V6, gen.MPLS}[rapid.IntRange(0, 2).Draw(rt, "topkind")]
		key := map[string][]string{gen.V4: V4s, gen.V6: V6s, gen.MPLS: {"100", "101", "1048575"}}[kind]
		o := gen.Op{NI: ni, Kind: kind, Act: gen.ADD, Key: key[rapid.IntRange(0, len(key)-1).Draw(rt, "key")], Group: g.id}
		if g.ni != ni || rapid.IntRange(0, 3).Draw(rt, "explicit-ni") == 0 {
			o.GroupNI = g.ni
		}
		ops = append(ops, o)
	}
	// dependencies deleted and re-added
	nx := rapid.IntRange(0, 4).Draw(rt, "nextra")
	for i := 0; i < nx && len(ops) > 0; i++ {
		b := ops[rapid.IntRange(0, len(ops)-1).Draw(rt, "victim")]
		if b.Kind == gen.NH || b.Kind == gen.NHG {
			ops = append(ops, gen.Op{NI: b.NI, Kind: b.Kind, Act: gen.DELETE, Key: b.Key, NoPayload: true})
			if rapid.Bool().Draw(rt, "readd") {
				ops = append(ops, b)
			}
		} else if rapid.IntRange(0, 2).Draw(rt, "top-delete?") == 0 {
			ops = append(ops, gen.Op{NI: b.NI, Kind: b.Kind, Act: gen.DELETE, Key: b.Key, NoPayload: true})
		} else {
			r := b
			r.Act = gen.REPLACE
			r.Group = uint64(rapid.IntRange(1, 3).Draw(rt, "retarget"))
			ops = append(ops, r)
		}
	}
	// a held REPLACE that is doomed (its key is deleted while it waits) plus a
	// later install that makes the server look at the held set again
	if rapid.IntRange(0, 3).Draw(rt, "doomed?") == 0 {
		for _, b := range ops {
			if b.Kind == gen.V4 || b.Kind == gen.V6 || b.Kind == gen.MPLS {
				r := b
				r.Act, r.Group, r.GroupNI = gen.REPLACE, 4, ""
				ops = append(ops, r,
					gen.Op{NI: b.NI, Kind: b.Kind, Act: gen.DELETE, Key: b.Key, NoPayload: true},
					gen.Op{NI: b.NI, Kind: gen.NH, Act: gen.ADD, Key: "4", Intf: "eth0"},
					gen.Op{NI: b.NI, Kind: gen.NH, Act: gen.ADD, Key: "3", Intf: "eth0"})
				if rapid.Bool().Draw(rt, "queue-behind") {
					// another entry queues up behind the same missing group, which then arrives:
					// the doomed REPLACE is answered and the other one becomes installable in the same step
					other := map[string]string{gen.V4: "198.18.0.0/15", gen.V6: "2001:db8:f00d::/48", gen.MPLS: "4242"}[b.Kind]
					ops = append(ops,
						gen.Op{NI: b.NI, Kind: b.Kind, Act: gen.ADD, Key: other, Group: 4},
						gen.Op{NI: b.NI, Kind: gen.NHG, Act: gen.ADD, Key: "4", Hops: []gen.Hop{{Index: 4}}})
				}
				break
			}
		}
	}
	var perm []gen.Op
	if rapid.Bool().Draw(rt, "uniform-order") {
		perm = rapid.Permutation(ops).Draw(rt, "order")
	} else {
		// mostly causal order (dependencies first) disturbed by a few swaps
		perm = append(perm, ops...)
		for k := rapid.IntRange(0, 3).Draw(rt, "nswaps"); k > 0; k-- {
			i := rapid.IntRange(0, len(perm)-1).Draw(rt, "swap-i")
			j := rapid.IntRange(0, len(perm)-1).Draw(rt, "swap-j")
			perm[i], perm[j] = perm[j], perm[i]
		}
	}
	h := History{FwdRefs: rapid.IntRange(0, 3).Draw(rt, "fwd") != 0}
	for i := range perm {
		o := perm[i]
		o.ID = uint64(i + 1)
		h.Steps = append(h.Steps, Step{Op: &o})
	}
	// one graph in four is interrupted by a Flush (all instances, or one): held operations are
	// not entries - they stay held and must still be answered when their references arrive
	if len(h.Steps) > 1 && rapid.IntRange(0, 3).Draw(rt, "flush?") == 0 {
		at := rapid.IntRange(1, len(h.Steps)-1).Draw(rt, "flush-at")
		fl := Step{Flush: append([]string(nil), NIs...)}
		if rapid.Bool().Draw(rt, "one-instance") {
			fl.Flush = []string{NIs[rapid.IntRange(0, 2).Draw(rt, "flush-ni")]}
		}
		h.Steps = append(h.Steps[:at], append([]Step{fl}, h.Steps[at:]...)...)
	}
	return h
}
