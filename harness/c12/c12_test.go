package c12

import (
	"encoding/json"
	"fmt"
	"sort"
	"strings"
	"testing"

	"google.golang.org/protobuf/encoding/prototext"
	"google.golang.org/protobuf/proto"
	"pgregory.net/rapid"

	aftpb "github.com/openconfig/gribi/v1/proto/gribi_aft"
	spb "github.com/openconfig/gribi/v1/proto/service"
	"github.com/openconfig/gribigo/rib"

	"verifh/internal/drive"
	"verifh/internal/ev"
	"verifh/internal/gen"
	"verifh/internal/hgen"
	"verifh/internal/l1"
	"verifh/internal/l2"
	"verifh/internal/model"
	"verifh/internal/mut"
	"verifh/internal/obs"
)

func TestMain(m *testing.M) { ev.Main(m, "C12", "exploration") }

// Mut is one recorded mutation: mutator index and the chooser's draws.
type Mut struct {
	K     int   `json:"k"`
	Draws []int `json:"draws"`
}

// Case: a server pre-loaded by Pre receives one malformed message. The message
// is described by a recipe (messages with invalid UTF-8 cannot be marshalled):
// a constructed class name, or a valid parent operation plus recorded mutations.
type Case struct {
	Pre    hgen.History `json:"pre"`
	Class  string       `json:"class"` // constructed:<name> | mutated:<mutators> | get:<name> | flush:<name>
	Parent *gen.Op      `json:"parent,omitempty"`
	Muts   []Mut        `json:"muts,omitempty"`
	Text   string       `json:"text"` // rendering of the final message, for the reader
}

// replayChooser replays recorded draws.
type replayChooser struct {
	draws []int
	i     int
}

func (r *replayChooser) Intn(n int, _ string) int {
	if r.i >= len(r.draws) {
		return 0
	}
	d := r.draws[r.i]
	r.i++
	if d >= n {
		d = n - 1
	}
	return d
}

// recChooser draws with rapid and records.
type recChooser struct {
	t     *rapid.T
	draws []int
}

func (r *recChooser) Intn(n int, label string) int {
	d := rapid.IntRange(0, n-1).Draw(r.t, label)
	r.draws = append(r.draws, d)
	return d
}

func render(m proto.Message) (s string) {
	defer func() {
		if r := recover(); r != nil {
			s = fmt.Sprintf("%q", fmt.Sprint(m))
		}
	}()
	if m == nil || !m.ProtoReflect().IsValid() {
		return "nil"
	}
	return fmt.Sprintf("%q", strings.Join(strings.Fields(prototext.MarshalOptions{AllowPartial: true}.Format(m)), " "))
}

func setup() {
	c := ev.C()
	c.Rule = "a server pre-loaded with a generated valid RIB (possibly with held operations) and with a second, idle session receives one message: (i) constructed invalid operations, one class each (nil key message, nil payload, zero id/index, zero/missing group, empty group, zero member index, invalid prefix, out-of-range and aliasing label, empty/unknown network instance, unknown group network instance, operation type 0/99, no entry); (ii) 1-3 structural mutations (clear sub-message, zero scalar, duplicate/drop keyed list element, undefined enum number, invalid UTF-8, boundary integer, empty/junk string, populate unset sub-message) of valid full-field operations; (iii) malformed Get/Flush requests. Oracle: no panic (the operation is first applied to a twin RIB under recover; a process crash is reported by the driver with the in-flight case), no hang, exactly one in-band result or a clean RPC error on that session only, the idle session sees nothing and then wins an election and programs an entry; (i): rejected and RIB contents, held set and counters identical before/after; (ii): if rejected identical, if accepted the change is confined to the operation's key (plus keys of previously held operations), held set grows by at most its id, counters equal referrers of the new contents and Get(ALL) succeeds. Non-trivial = the message differs from a valid parent (or is a constructed invalid class) and reached the rib code (known network instance, correctly stamped); distinct by FNV-64 of the case JSON. Later additions: schema-only invalid classes (metadata > 8 bytes, malformed addresses, label out of range), long-bytes mutator, zero member index in wide groups (8-257 members)."
	c.Assumptions = []string{"in-process streams carry messages that gRPC's codec would refuse (invalid UTF-8); they are still required not to crash the server"}
}

var elec = gen.ID128{Hi: 0, Lo: 1}

func loadRIB(r *rib.RIB, h hgen.History) {
	for _, st := range h.Steps {
		if st.Op == nil {
			continue
		}
		op := st.Op.Proto()
		if op.GetOp() == spb.AFTOperation_DELETE {
			r.DeleteEntry(st.Op.NI, op)
		} else {
			r.AddEntry(st.Op.NI, op)
		}
	}
}

type snap struct {
	st     obs.State
	held   map[uint64]string
	counts string
}

func takeSnap(r *rib.RIB) (*snap, error) {
	st, err := obs.FromRIB(r)
	if err != nil {
		return nil, err
	}
	return &snap{st: st, held: r.VerifPendingOps(), counts: fmt.Sprint(r.VerifRefCounts())}, nil
}

// buildOp reconstructs the operation of a case from its recipe.
func buildOp(c Case) *spb.AFTOperation {
	if strings.HasPrefix(c.Class, "constructed:") {
		op, ok := constructed()[strings.TrimPrefix(c.Class, "constructed:")]
		if !ok {
			panic("unknown constructed class " + c.Class)
		}
		return op
	}
	op := c.Parent.Proto()
	for _, m := range c.Muts {
		mut.Apply(op, m.K, &replayChooser{draws: m.Draws})
	}
	return op
}

func runCase(c Case) *ev.Verdict {
	v := &ev.Verdict{}
	ev.C().Inflight(ev.JSON(c))
	s := drive.NewSrv(true, hgen.NIs[1:])
	r := s.S.VerifRIB()
	loadRIB(r, c.Pre)
	v.Class(strings.SplitN(c.Class, ":", 2)[0])
	if strings.HasPrefix(c.Class, "get:") || strings.HasPrefix(c.Class, "flush:") {
		return runGetFlush(c, s, v)
	}
	op := buildOp(c)
	for _, mn := range strings.Split(strings.TrimPrefix(c.Class, "mutated:"), "+") {
		if strings.HasPrefix(c.Class, "mutated:") {
			v.Class("mutator:" + mn)
		}
	}
	constructed := strings.HasPrefix(c.Class, "constructed:")
	if constructed {
		v.Class(c.Class)
	}
	ni := op.GetNetworkInstance()
	_, knownNI := r.NetworkInstanceRIB(ni)
	reachesRIB := knownNI && ni != "" && op.GetElectionId() != nil && gen.FromProto128(op.GetElectionId()).Cmp(elec) == 0 &&
		(op.GetOp() == spb.AFTOperation_ADD || op.GetOp() == spb.AFTOperation_REPLACE || op.GetOp() == spb.AFTOperation_DELETE)

	// 1. twin RIB under recover: a panic here would kill a real server
	if reachesRIB {
		twin := l1.NewRIB(true, l1.Opts{})
		loadRIB(twin, c.Pre)
		if p := l1.Protect(func() {
			if op.GetOp() == spb.AFTOperation_DELETE {
				twin.DeleteEntry(ni, op)
			} else {
				twin.AddEntry(ni, op)
			}
		}); p != "" {
			v.Fail(l1.Sig("C12", p), "%s %s panics inside the RIB: %s", c.Class, c.Text, p)
			v.NonTrivial = true
			return v
		}
	}

	// 2. through the server
	// sessions are opened one after the other: a session that has not negotiated
	// yet makes the server refuse another session's parameters
	idle := s.Open()
	var actor *drive.Session
	defer func() {
		for _, x := range []*drive.Session{idle, actor} {
			if x == nil {
				continue
			}
			if hg := x.Close(); hg != nil && len(v.Findings) == 0 {
				l2.HangFinding(v, "C12", hg)
			}
		}
	}()
	if _, hg := idle.Send(drive.StdParams(false)); hg != nil {
		l2.HangFinding(v, "C12", hg)
		return v
	}
	if rs, ended, hg := idle.Barrier(); hg != nil || ended || len(rs) != 1 {
		l2.HangFinding(v, "C12", hg)
		if hg == nil {
			v.Fail("C12/setup", "idle session setup: ended=%v %v %v", ended, idle.Err(), rs)
		}
		return v
	}
	actor = s.Open()
	if _, hg := actor.Send(drive.StdParams(false)); hg != nil {
		l2.HangFinding(v, "C12", hg)
		return v
	}
	if _, hg := actor.Send(&spb.ModifyRequest{ElectionId: elec.Proto()}); hg != nil {
		l2.HangFinding(v, "C12", hg)
		return v
	}
	if rs, ended, hg := actor.Barrier(); hg != nil || ended || len(rs) != 2 {
		l2.HangFinding(v, "C12", hg)
		if hg == nil {
			v.Fail("C12/setup", "actor session setup: ended=%v %v %v", ended, actor.Err(), rs)
		}
		return v
	}
	before, err := takeSnap(r)
	if err != nil {
		v.Fail("C12/contents-unreadable", "before: %v", err)
		return v
	}
	if _, hg := actor.Send(&spb.ModifyRequest{Operation: []*spb.AFTOperation{op}}); hg != nil {
		l2.HangFinding(v, "C12", hg)
		return v
	}
	rs, ended, hg := actor.Barrier()
	if hg != nil {
		l2.HangFinding(v, "C12", hg)
		return v
	}
	if ended {
		rs = append(rs, actor.Late()...)
	}
	after, err := takeSnap(r)
	if err != nil {
		v.Fail("C12/contents-unreadable", "after %s: the RIB contents cannot be marshalled any more: %v", c.Text, err)
		return v
	}
	id := op.GetId()
	var own []spb.AFTResult_Status
	foreign := []uint64{}
	for _, m := range rs {
		for _, x := range m.GetResult() {
			if x.GetId() == id {
				own = append(own, x.GetStatus())
			} else {
				foreign = append(foreign, x.GetId())
			}
		}
	}
	if len(rs) > 1 {
		v.Fail("C12/multiple-responses", "%s %s: %d ModifyResponses for one operation: %v", c.Class, c.Text, len(rs), rs)
	}
	if len(own) > 1 {
		v.Fail("C12/answered-twice", "%s %s: results for its id: %v", c.Class, c.Text, own)
	}
	for _, f := range foreign {
		if _, wasHeld := before.held[f]; !wasHeld {
			v.Fail("C12/foreign-result", "%s %s: result for id %d which is neither this operation nor previously held", c.Class, c.Text, f)
		}
	}
	accepted := len(own) == 1 && own[0] == spb.AFTResult_RIB_PROGRAMMED
	hNow, nowHeld := after.held[id]
	hWas, wasHeld := before.held[id]
	// A mutation can set the operation's id to that of an operation that is
	// already held (id reuse, which the property does not speak about): the
	// operation is then held in its place, visible as a changed payload.
	heldNow := nowHeld && (!wasHeld || hNow != hWas)
	rejected := ended || (len(own) == 1 && own[0] == spb.AFTResult_FAILED)
	if !ended && len(own) == 0 && !heldNow {
		v.Fail("C12/unanswered", "%s %s: neither answered, nor held, nor did the RPC end (responses %v)", c.Class, c.Text, rs)
	}
	if ended && actor.Err() == nil {
		v.Fail("C12/rpc-ended-ok", "%s %s: the RPC ended with OK status", c.Class, c.Text)
	}
	if constructed && !rejected {
		v.Fail("C12/invalid-accepted:"+strings.TrimPrefix(c.Class, "constructed:"), "%s %s must be rejected; results %v held=%v", c.Class, c.Text, own, heldNow)
	}
	// a mutant may be valid, but one that is malformed by the model's static rules (the rules
	// C01-C03 hold every operation to: zero/missing key or group, empty group, zero member
	// index, label out of range, unknown group network instance, nil entry) must be rejected
	// whatever else it carries - never programmed and never held
	if !constructed && !rejected && reachesRIB && op.GetOp() != spb.AFTOperation_DELETE {
		if val, why := model.New("DEFAULT", hgen.NIs[1:], true).StaticAdd(ni, op, false); val == model.MustFail {
			v.Class("mutant-statically-invalid")
			v.Fail("C12/invalid-accepted:static:"+strings.ReplaceAll(why, " ", "-"), "%s %s is malformed (%s) and must be rejected; results %v held=%v", c.Class, c.Text, why, own, heldNow)
		}
	} else if !constructed && !rejected && reachesRIB && op.GetOp() == spb.AFTOperation_DELETE {
		if _, static, _ := model.New("DEFAULT", hgen.NIs[1:], true).ExpectDelete(ni, op); static != "" {
			v.Class("mutant-statically-invalid")
			v.Fail("C12/invalid-accepted:static:delete:"+strings.ReplaceAll(static, " ", "-"), "%s %s is malformed (%s) and must be rejected; results %v", c.Class, c.Text, static, own)
		}
	} else if !constructed && rejected && reachesRIB && op.GetOp() != spb.AFTOperation_DELETE {
		if val, _ := model.New("DEFAULT", hgen.NIs[1:], true).StaticAdd(ni, op, false); val == model.MustFail {
			v.Class("mutant-statically-invalid")
		}
	}
	sameState := len(obs.Diff(before.st, after.st)) == 0 && fmt.Sprint(before.held) == fmt.Sprint(after.held) && before.counts == after.counts
	if rejected && !sameState {
		d := obs.Diff(before.st, after.st)
		v.Fail("C12/rejected-but-changed", "%s %s was rejected (ended=%v results=%v) but the server state changed: entries %v; held %v -> %v; counters %s -> %s", c.Class, c.Text, ended, own, d, before.held, after.held, before.counts, after.counts)
	}
	if !rejected {
		// accepted or held: confined change
		allowed := map[gen.EntryKey]bool{}
		if k, ok := model.KeyOf(ni, op); ok {
			allowed[k] = true
		}
		twinHeld := heldKeys(c.Pre, before.held)
		for k := range twinHeld {
			allowed[k] = true
		}
		for _, l := range obs.Diff(before.st, after.st) {
			okc := false
			for k := range allowed {
				if strings.Contains(l, " "+k.String()+" ") || strings.Contains(l, " "+k.String()+":") || strings.Contains(l, "of "+k.String()+" ") {
					okc = true
				}
			}
			if !okc {
				v.Fail("C12/change-not-confined", "%s %s was accepted=%v held=%v but changed an unrelated entry: %s", c.Class, c.Text, accepted, heldNow, l)
			}
		}
		for hid := range after.held {
			if _, ok := before.held[hid]; !ok && hid != id {
				v.Fail("C12/held-set-grew", "%s %s: held set gained id %d", c.Class, c.Text, hid)
			}
		}
		// counters == referrers of the new contents
		m2 := model.New("DEFAULT", hgen.NIs[1:], true)
		for k, p := range after.st {
			m2.Ent[k] = p
		}
		obs.CheckCounters(m2, r, v, "C12/counter-vs-referrers", fmt.Sprintf("after accepted %s %s", c.Class, c.Text))
		for _, n := range hgen.NIs {
			if _, err, hg := s.Get(&spb.GetRequest{NetworkInstance: &spb.GetRequest_Name{Name: n}, Aft: spb.AFTType_ALL}, 0); err != nil || hg != nil {
				l2.HangFinding(v, "C12", hg)
				if err != nil {
					v.Fail("C12/get-broken", "after accepted %s %s Get(%s, ALL) fails: %v", c.Class, c.Text, n, err)
				}
			}
		}
	}
	// 3. the idle session saw nothing and is still usable
	irs, iend, hg := idle.Barrier()
	if hg != nil {
		l2.HangFinding(v, "C12", hg)
		return v
	}
	if iend || len(irs) != 0 {
		v.Fail("C12/other-session-affected", "%s %s: the idle session ended=%v (%v) / received %v", c.Class, c.Text, iend, idle.Err(), irs)
		return v
	}
	hi := gen.ID128{Hi: 0, Lo: 2}
	probe := &gen.Op{ID: 777777, NI: "DEFAULT", Kind: gen.NH, Act: gen.ADD, Key: "4", IP: "203.0.113.7", Elec: &hi}
	idle.Send(&spb.ModifyRequest{ElectionId: hi.Proto()})
	idle.Send(&spb.ModifyRequest{Operation: []*spb.AFTOperation{probe.Proto()}})
	irs, iend, hg = idle.Barrier()
	if hg != nil {
		l2.HangFinding(v, "C12", hg)
		return v
	}
	okProbe := false
	for _, m := range irs {
		for _, x := range m.GetResult() {
			if x.GetId() == 777777 && x.GetStatus() == spb.AFTResult_RIB_PROGRAMMED {
				okProbe = true
			}
		}
	}
	if iend || !okProbe {
		v.Fail("C12/server-not-usable-afterwards", "%s %s: afterwards another session cannot win the election and program an entry: ended=%v (%v) responses %v", c.Class, c.Text, iend, idle.Err(), irs)
	}
	v.NonTrivial = reachesRIB
	if reachesRIB {
		v.Class("reached-rib")
	}
	if accepted {
		v.Class("mutant-accepted")
	}
	if rejected {
		v.Class("rejected")
	}
	return v
}

// heldKeys returns the keys of the operations of the preload that are held.
func heldKeys(pre hgen.History, held map[uint64]string) map[gen.EntryKey]bool {
	out := map[gen.EntryKey]bool{}
	for _, st := range pre.Steps {
		if st.Op == nil {
			continue
		}
		if _, ok := held[st.Op.ID]; ok {
			if k, ok := model.KeyOf(st.Op.NI, st.Op.Proto()); ok {
				out[k] = true
			}
		}
	}
	return out
}

func runGetFlush(c Case, s *drive.Srv, v *ev.Verdict) *ev.Verdict {
	r := s.S.VerifRIB()
	before, err := takeSnap(r)
	if err != nil {
		v.Fail("C12/contents-unreadable", "%v", err)
		return v
	}
	msg, ok := getFlushCases()[c.Class]
	if !ok {
		panic("unknown class " + c.Class)
	}
	if strings.HasPrefix(c.Class, "get:") {
		req, _ := msg.(*spb.GetRequest)
		_, _, hg := s.Get(req, 0)
		if hg != nil {
			l2.HangFinding(v, "C12", hg)
			return v
		}
	} else {
		req, _ := msg.(*spb.FlushRequest)
		resp, err, hg := s.Flush(req)
		if hg != nil {
			l2.HangFinding(v, "C12", hg)
			return v
		}
		if err == nil && resp != nil {
			// a flush that the server accepted is not malformed for it; nothing to assert here (C08)
			v.Class("flush-accepted")
			return v
		}
	}
	after, err := takeSnap(r)
	if err != nil {
		v.Fail("C12/contents-unreadable", "%v", err)
		return v
	}
	if d := obs.Diff(before.st, after.st); len(d) > 0 || fmt.Sprint(before.held) != fmt.Sprint(after.held) || before.counts != after.counts {
		v.Fail("C12/rejected-but-changed", "%s %s changed the server state: %v", c.Class, c.Text, d)
	}
	v.NonTrivial = true
	return v
}

func TestReplay(t *testing.T) {
	setup()
	for _, f := range ev.ReplayFiles() {
		var c Case
		if err := ev.LoadCase(f, &c); err != nil {
			t.Fatalf("%s: %v", f, err)
		}
		for i := 0; i < 5; i++ {
			v := runCase(c)
			if fresh := ev.C().Record(ev.JSON(c), v); len(fresh) > 0 {
				t.Errorf("%s: %v", f, fresh)
				break
			}
		}
	}
}

// constructed returns the invalid operation classes, built on valid bases.
func constructed() map[string]*spb.AFTOperation {
	e := elec.Proto()
	base := func(o *gen.Op) *spb.AFTOperation {
		o.ID = 5000
		o.Elec = &elec
		return o.Proto()
	}
	out := map[string]*spb.AFTOperation{}
	D := "DEFAULT"
	out["nil-key-message-v4"] = &spb.AFTOperation{Id: 5000, NetworkInstance: D, Op: spb.AFTOperation_ADD, ElectionId: e, Entry: &spb.AFTOperation_Ipv4{}}
	out["nil-key-message-v6"] = &spb.AFTOperation{Id: 5000, NetworkInstance: D, Op: spb.AFTOperation_ADD, ElectionId: e, Entry: &spb.AFTOperation_Ipv6{}}
	out["nil-key-message-mpls"] = &spb.AFTOperation{Id: 5000, NetworkInstance: D, Op: spb.AFTOperation_ADD, ElectionId: e, Entry: &spb.AFTOperation_Mpls{}}
	out["nil-key-message-nhg"] = &spb.AFTOperation{Id: 5000, NetworkInstance: D, Op: spb.AFTOperation_ADD, ElectionId: e, Entry: &spb.AFTOperation_NextHopGroup{}}
	out["nil-key-message-nh"] = &spb.AFTOperation{Id: 5000, NetworkInstance: D, Op: spb.AFTOperation_ADD, ElectionId: e, Entry: &spb.AFTOperation_NextHop{}}
	out["nil-key-message-nh-delete"] = &spb.AFTOperation{Id: 5000, NetworkInstance: D, Op: spb.AFTOperation_DELETE, ElectionId: e, Entry: &spb.AFTOperation_NextHop{}}
	out["nil-key-message-mpls-delete"] = &spb.AFTOperation{Id: 5000, NetworkInstance: D, Op: spb.AFTOperation_DELETE, ElectionId: e, Entry: &spb.AFTOperation_Mpls{}}
	out["no-entry"] = &spb.AFTOperation{Id: 5000, NetworkInstance: D, Op: spb.AFTOperation_ADD, ElectionId: e}
	out["no-entry-delete"] = &spb.AFTOperation{Id: 5000, NetworkInstance: D, Op: spb.AFTOperation_DELETE, ElectionId: e}
	for _, k := range []string{gen.V4, gen.V6, gen.MPLS, gen.NHG, gen.NH} {
		key := map[string]string{gen.V4: "1.0.0.0/8", gen.V6: "2001:db8::/32", gen.MPLS: "100", gen.NHG: "1", gen.NH: "1"}[k]
		out["nil-payload-"+k] = base(&gen.Op{NI: D, Kind: k, Act: gen.ADD, Key: key, NoPayload: true})
	}
	out["zero-nhg-id"] = base(&gen.Op{NI: D, Kind: gen.NHG, Act: gen.ADD, Key: "0", Hops: []gen.Hop{{Index: 1}}})
	out["zero-nh-index"] = base(&gen.Op{NI: D, Kind: gen.NH, Act: gen.ADD, Key: "0", IP: "192.0.2.1"})
	out["zero-nhg-id-delete"] = base(&gen.Op{NI: D, Kind: gen.NHG, Act: gen.DELETE, Key: "0", NoPayload: true})
	out["zero-nh-index-delete"] = base(&gen.Op{NI: D, Kind: gen.NH, Act: gen.DELETE, Key: "0", NoPayload: true})
	out["zero-group-v4"] = base(&gen.Op{NI: D, Kind: gen.V4, Act: gen.ADD, Key: "1.0.0.0/8", Meta: []byte{1}})
	out["zero-group-v6"] = base(&gen.Op{NI: D, Kind: gen.V6, Act: gen.ADD, Key: "2001:db8::/32", Meta: []byte{1}})
	out["zero-group-mpls"] = base(&gen.Op{NI: D, Kind: gen.MPLS, Act: gen.ADD, Key: "100", Meta: []byte{1}})
	// the same defects on operations that are otherwise fully populated: every other field
	// valid, in particular a next-hop-group network instance that exists (own and other)
	for _, gni := range []string{D, "VRF-A"} {
		for _, act := range []string{gen.ADD, gen.REPLACE} {
			sfx := "-gni-" + gni + "-" + act
			out["zero-group-v4"+sfx] = base(&gen.Op{NI: D, Kind: gen.V4, Act: act, Key: "1.0.0.0/8", GroupNI: gni, Meta: []byte{1}})
			out["zero-group-v6"+sfx] = base(&gen.Op{NI: D, Kind: gen.V6, Act: act, Key: "2001:db8::/32", GroupNI: gni})
			out["zero-group-mpls"+sfx] = base(&gen.Op{NI: D, Kind: gen.MPLS, Act: act, Key: "100", GroupNI: gni, Meta: []byte{2}})
			out["zero-group-v4-in-vrf"+sfx] = base(&gen.Op{NI: "VRF-A", Kind: gen.V4, Act: act, Key: "1.0.0.0/8", GroupNI: gni})
		}
	}
	// leaves that only the schema constrains (length, pattern, range) on otherwise valid,
	// fully populated operations
	for _, act := range []string{gen.ADD, gen.REPLACE} {
		for _, m := range [][]byte{[]byte("9 bytes!!"), []byte("sixteen bytes!!!")} {
			sfx := fmt.Sprintf("-%d-bytes-%s", len(m), act)
			out["metadata-too-long-v4"+sfx] = base(&gen.Op{NI: D, Kind: gen.V4, Act: act, Key: "1.0.0.0/8", Group: 1, Meta: m})
			out["metadata-too-long-v6"+sfx] = base(&gen.Op{NI: "VRF-A", Kind: gen.V6, Act: act, Key: "2001:db8::/32", Group: 1, GroupNI: D, Meta: m})
			out["metadata-too-long-mpls"+sfx] = base(&gen.Op{NI: D, Kind: gen.MPLS, Act: act, Key: "100", Group: 2, Meta: m})
		}
		out["junk-ip-address-nh-"+act] = base(&gen.Op{NI: D, Kind: gen.NH, Act: act, Key: "1", IP: "192.0.2.300", MAC: "00:00:5e:00:53:01"})
		out["junk-mac-address-nh-"+act] = base(&gen.Op{NI: D, Kind: gen.NH, Act: act, Key: "2", IP: "192.0.2.1", MAC: "00:00:5e:00:53"})
		out["pushed-label-out-of-range-nh-"+act] = base(&gen.Op{NI: D, Kind: gen.NH, Act: act, Key: "1", IP: "192.0.2.1", Pushed: []uint64{100, 1048576}})
	}
	// the same member defect in wide groups (sizes around powers of two): distinct members,
	// the zero index first, last or in the middle
	for _, n := range []int{8, 63, 64, 65, 128, 257} {
		for _, pos := range []int{0, n / 2, n - 1} {
			var hops []gen.Hop
			for i := 0; i < n; i++ {
				idx := uint64(i + 1)
				if i == pos {
					idx = 0
				}
				hops = append(hops, gen.Hop{Index: idx})
			}
			out[fmt.Sprintf("zero-member-index-wide-%d-at-%d", n, pos)] = base(&gen.Op{NI: D, Kind: gen.NHG, Act: gen.ADD, Key: "1", Hops: hops})
		}
	}
	// names that are no network instance of the server but differ from one only in a way a
	// normaliser would remove (surrounding blanks, letter case, a trailing NUL or newline)
	for i, nm := range []string{"DEFAULT ", " DEFAULT", "default", "VRF-A ", "\tVRF-A", "VRF-A\n", "DEFAULT\x00", "VRF-a"} {
		out[fmt.Sprintf("near-miss-ni-%d-nh", i)] = base(&gen.Op{NI: nm, Kind: gen.NH, Act: gen.ADD, Key: "1", IP: "192.0.2.1"})
		out[fmt.Sprintf("near-miss-ni-%d-nh-delete", i)] = base(&gen.Op{NI: nm, Kind: gen.NH, Act: gen.DELETE, Key: "1", NoPayload: true})
		out[fmt.Sprintf("near-miss-group-ni-%d-v4", i)] = base(&gen.Op{NI: D, Kind: gen.V4, Act: gen.ADD, Key: "1.0.0.0/8", Group: 1, GroupNI: nm})
	}
	out["empty-group-with-color"] = base(&gen.Op{NI: D, Kind: gen.NHG, Act: gen.ADD, Key: "1", Backup: gen.U(2), Color: gen.U(3)})
	out["zero-member-index-only"] = base(&gen.Op{NI: D, Kind: gen.NHG, Act: gen.ADD, Key: "1", Hops: []gen.Hop{{Index: 0, Weight: gen.U(2)}}})
	out["zero-member-index-replace"] = base(&gen.Op{NI: D, Kind: gen.NHG, Act: gen.REPLACE, Key: "1", Hops: []gen.Hop{{Index: 0}, {Index: 1}}})
	out["zero-nh-index-rich"] = base(&gen.Op{NI: "VRF-A", Kind: gen.NH, Act: gen.ADD, Key: "0", IP: "192.0.2.1", MAC: "00:00:5e:00:53:01", Intf: "eth0"})
	out["unknown-group-ni-v6"] = base(&gen.Op{NI: D, Kind: gen.V6, Act: gen.ADD, Key: "2001:db8::/32", Group: 1, GroupNI: "NO-SUCH-NI"})
	out["unknown-group-ni-v4-replace"] = base(&gen.Op{NI: D, Kind: gen.V4, Act: gen.REPLACE, Key: "1.0.0.0/8", Group: 1, GroupNI: "NO-SUCH-NI"})
	out["empty-group"] = base(&gen.Op{NI: D, Kind: gen.NHG, Act: gen.ADD, Key: "1", Backup: gen.U(2)})
	out["zero-member-index"] = base(&gen.Op{NI: D, Kind: gen.NHG, Act: gen.ADD, Key: "1", Hops: []gen.Hop{{Index: 1}, {Index: 0}}})
	out["invalid-prefix-v4-mask"] = base(&gen.Op{NI: D, Kind: gen.V4, Act: gen.ADD, Key: "1.1.1.1/33", Group: 1})
	out["invalid-prefix-v4-junk"] = base(&gen.Op{NI: D, Kind: gen.V4, Act: gen.ADD, Key: "x", Group: 1})
	out["invalid-prefix-v4-empty"] = base(&gen.Op{NI: D, Kind: gen.V4, Act: gen.ADD, Key: "", Group: 1})
	out["invalid-prefix-v6-mask"] = base(&gen.Op{NI: D, Kind: gen.V6, Act: gen.ADD, Key: "::/129", Group: 1})
	out["invalid-prefix-v6-is-v4"] = base(&gen.Op{NI: D, Kind: gen.V6, Act: gen.ADD, Key: "1.0.0.0/8", Group: 1})
	out["label-15"] = base(&gen.Op{NI: D, Kind: gen.MPLS, Act: gen.ADD, Key: "15", Group: 1})
	out["label-1048576"] = base(&gen.Op{NI: D, Kind: gen.MPLS, Act: gen.ADD, Key: "1048576", Group: 1})
	out["label-aliasing-add"] = base(&gen.Op{NI: D, Kind: gen.MPLS, Act: gen.ADD, Key: "4294967396", Group: 1})
	out["label-aliasing-replace"] = base(&gen.Op{NI: D, Kind: gen.MPLS, Act: gen.REPLACE, Key: "4294967396", Group: 1})
	out["label-aliasing-delete"] = base(&gen.Op{NI: D, Kind: gen.MPLS, Act: gen.DELETE, Key: "4294967396", NoPayload: true})
	out["label-enum-key"] = &spb.AFTOperation{Id: 5000, NetworkInstance: D, Op: spb.AFTOperation_DELETE, ElectionId: e, Entry: &spb.AFTOperation_Mpls{Mpls: &aftpb.Afts_LabelEntryKey{Label: &aftpb.Afts_LabelEntryKey_LabelOpenconfigmplstypesmplslabelenum{LabelOpenconfigmplstypesmplslabelenum: 1}}}}
	out["empty-ni"] = base(&gen.Op{NI: "", Kind: gen.NH, Act: gen.ADD, Key: "1", IP: "192.0.2.1"})
	out["unknown-ni"] = base(&gen.Op{NI: "NO-SUCH-NI", Kind: gen.NH, Act: gen.ADD, Key: "1", IP: "192.0.2.1"})
	out["unknown-ni-delete"] = base(&gen.Op{NI: "NO-SUCH-NI", Kind: gen.NH, Act: gen.DELETE, Key: "1", NoPayload: true})
	out["unknown-group-ni-v4"] = base(&gen.Op{NI: D, Kind: gen.V4, Act: gen.ADD, Key: "1.0.0.0/8", Group: 1, GroupNI: "NO-SUCH-NI"})
	out["unknown-group-ni-mpls"] = base(&gen.Op{NI: D, Kind: gen.MPLS, Act: gen.ADD, Key: "100", Group: 1, GroupNI: "NO-SUCH-NI"})
	t0 := base(&gen.Op{NI: D, Kind: gen.NH, Act: gen.ADD, Key: "1", IP: "192.0.2.1"})
	t0.Op = spb.AFTOperation_INVALID
	out["op-type-0"] = t0
	t99 := base(&gen.Op{NI: D, Kind: gen.NH, Act: gen.ADD, Key: "1", IP: "192.0.2.1"})
	t99.Op = spb.AFTOperation_Operation(99)
	out["op-type-99"] = t99
	return out
}

func getFlushCases() map[string]proto.Message {
	out := map[string]proto.Message{}
	out["get:nil-request"] = (*spb.GetRequest)(nil)
	out["get:no-network-instance"] = &spb.GetRequest{Aft: spb.AFTType_ALL}
	out["get:empty-name"] = &spb.GetRequest{NetworkInstance: &spb.GetRequest_Name{Name: ""}, Aft: spb.AFTType_ALL}
	out["get:unknown-name"] = &spb.GetRequest{NetworkInstance: &spb.GetRequest_Name{Name: "NO-SUCH-NI"}, Aft: spb.AFTType_ALL}
	out["get:invalid-utf8-name"] = &spb.GetRequest{NetworkInstance: &spb.GetRequest_Name{Name: "\xff\xfe"}, Aft: spb.AFTType_IPV4}
	for _, a := range []int32{0, 7, 8, 99, -1} {
		out[fmt.Sprintf("get:aft-%d", a)] = &spb.GetRequest{NetworkInstance: &spb.GetRequest_All{All: &spb.Empty{}}, Aft: spb.AFTType(a)}
		out[fmt.Sprintf("get:aft-%d-named", a)] = &spb.GetRequest{NetworkInstance: &spb.GetRequest_Name{Name: "DEFAULT"}, Aft: spb.AFTType(a)}
	}
	for i, nm := range []string{"DEFAULT ", " DEFAULT", "default", "VRF-A ", "VRF-A\n"} {
		out[fmt.Sprintf("get:near-miss-name-%d", i)] = &spb.GetRequest{NetworkInstance: &spb.GetRequest_Name{Name: nm}, Aft: spb.AFTType_ALL}
		out[fmt.Sprintf("flush:near-miss-name-%d", i)] = &spb.FlushRequest{Election: &spb.FlushRequest_Override{Override: &spb.Empty{}}, NetworkInstance: &spb.FlushRequest_Name{Name: nm}}
	}
	out["get:nil-all"] = &spb.GetRequest{NetworkInstance: &spb.GetRequest_All{}, Aft: spb.AFTType_ALL}
	out["flush:nil-request"] = (*spb.FlushRequest)(nil)
	out["flush:empty"] = &spb.FlushRequest{}
	out["flush:nil-id"] = &spb.FlushRequest{Election: &spb.FlushRequest_Id{}, NetworkInstance: &spb.FlushRequest_All{}}
	out["flush:nil-override-empty-name"] = &spb.FlushRequest{Election: &spb.FlushRequest_Override{}, NetworkInstance: &spb.FlushRequest_Name{Name: ""}}
	out["flush:invalid-utf8-name"] = &spb.FlushRequest{Election: &spb.FlushRequest_Override{Override: &spb.Empty{}}, NetworkInstance: &spb.FlushRequest_Name{Name: "\xff"}}
	out["flush:zero-id"] = &spb.FlushRequest{Election: &spb.FlushRequest_Id{Id: &spb.Uint128{}}, NetworkInstance: &spb.FlushRequest_All{All: &spb.Empty{}}}
	return out
}

func drawPre(rt *rapid.T) hgen.History {
	cfg := hgen.DefaultCfg()
	cfg.FlushPct = 0
	cfg.MinLen, cfg.MaxLen = 0, 14
	h := hgen.DrawHistory(rt, cfg)
	h.FwdRefs = true
	return h
}

func TestCampaign(t *testing.T) {
	setup()
	col := ev.C()
	t.Run("constructed-invalid-classes", func(t *testing.T) {
		cls := constructed()
		names := make([]string, 0, len(cls))
		for n := range cls {
			names = append(names, n)
		}
		sort.Strings(names)
		rapid.Check(t, func(rt *rapid.T) {
			n := names[rapid.IntRange(0, len(names)-1).Draw(rt, "class")]
			c := Case{Pre: drawPre(rt), Class: "constructed:" + n, Text: render(cls[n])}
			v := runCase(c)
			col.Check(rt, ev.JSON(c), v)
		})
	})
	t.Run("mutated-valid-operations", func(t *testing.T) {
		rapid.Check(t, func(rt *rapid.T) {
			pre := drawPre(rt)
			// a valid full-field parent, aimed at the preloaded contents
			belief := model.New("DEFAULT", hgen.NIs[1:], true)
			for _, st := range pre.Steps {
				if st.Op != nil {
					belief.BeliefApply(st.Op.NI, st.Op.Proto())
				}
			}
			cfg := hgen.DefaultCfg()
			cfg.Rich = 80
			cfg.PopTop = true
			cfg.Backups = 40
			parent := hgen.DrawOp(rt, belief, cfg, 5000)
			parent.Elec = &elec
			op := parent.Proto()
			nm := rapid.IntRange(1, 3).Draw(rt, "nmut")
			var applied []string
			var muts []Mut
			for i := 0; i < nm; i++ {
				k := rapid.IntRange(0, len(mut.Names)-1).Draw(rt, "mutator")
				rc := &recChooser{t: rt}
				if mut.Apply(op, k, rc) {
					applied = append(applied, mut.Names[k])
					muts = append(muts, Mut{K: k, Draws: rc.draws})
				}
			}
			if len(applied) == 0 {
				applied = []string{"none"}
			}
			c := Case{Pre: pre, Class: "mutated:" + strings.Join(applied, "+"), Parent: parent, Muts: muts, Text: render(op)}
			v := runCase(c)
			col.Check(rt, ev.JSON(c), v)
		})
	})
	t.Run("malformed-get-flush", func(t *testing.T) {
		gf := getFlushCases()
		names := make([]string, 0, len(gf))
		for n := range gf {
			names = append(names, n)
		}
		sort.Strings(names)
		rapid.Check(t, func(rt *rapid.T) {
			n := names[rapid.IntRange(0, len(names)-1).Draw(rt, "class")]
			c := Case{Pre: drawPre(rt), Class: n, Text: render(gf[n])}
			v := runCase(c)
			col.Check(rt, ev.JSON(c), v)
		})
	})
	col.MinimizeAll(minimize)
}

func minimize(sig string, cs []byte) []byte {
	var c Case
	if err := json.Unmarshal(cs, &c); err != nil {
		return nil
	}
	fails := func(h hgen.History) bool {
		cc := c
		cc.Pre = h
		for i := 0; i < 2; i++ {
			if runCase(cc).HasSig(sig) {
				return true
			}
		}
		return false
	}
	fails = ev.Bounded(fails)
	if !fails(c.Pre) {
		return nil
	}
	if fails(hgen.History{FwdRefs: true}) {
		c.Pre = hgen.History{FwdRefs: true}
	} else {
		c.Pre = hgen.Minimize(c.Pre, fails)
	}
	return ev.JSON(c)
}
