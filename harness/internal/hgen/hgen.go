// Package hgen draws operation histories with rapid. The generator runs the
// reference model alongside (as a belief state) so that it can aim at
// installed keys, held operations and referenced groups; construction, not
// rejection.
package hgen

import (
	"strconv"

	"pgregory.net/rapid"

	"verifh/internal/gen"
	"verifh/internal/model"
)

// Universe of keys: deliberately small so that histories collide.
var (
	NIs = []string{"DEFAULT", "VRF-A", "VRF-B"}
	// (some values are valid but not canonically spelled - host bits set, upper-case digits,
	// non-minimal zero compression - and each universe holds one pair of different spellings of
	// the same prefix: the RIB keys entries by the string it was given, so these are distinct keys)
	V4s      = []string{"1.0.0.0/8", "2.2.0.0/16", "10.1.1.0/24", "3.3.3.3/32", "10.1.1.9/24"}
	V6s      = []string{"2001:db8::/32", "2001:db8:1::/48", "::/0", "2001:DB8:CAFE::/48", "2001:db8:0:1::/64", "2001:db8:cafe::/48", "2001:db8:0:1::1/64"}
	Labels   = []uint64{100, 101, 1048575}
	IDs      = []uint64{1, 2, 3, 4}
	IPs      = []string{"192.0.2.1", "198.51.100.7", "2001:db8::1"}
	MACs     = []string{"00:00:5e:00:53:01", "02:aa:bb:cc:dd:ee"}
	Intfs    = []string{"eth0", "Ethernet1/2"}
	MetaVals = [][]byte{{1}, {0xde, 0xad, 0xbe, 0xef}, []byte("8-bytes!")}
)

// ClockSteps are the clock events drawn (the values of clock.Steps; not imported, to keep
// this package free of the gribigo packages).
var ClockSteps = []int64{1, 2, -1_000_000_000, -2_000_000_000, -3600_000_000_000, -5_000, 1_000_000_000, 86400_000_000_000}

// Step is one step of a history: an operation or a flush.
type Step struct {
	Op    *gen.Op  `json:"op,omitempty"`
	Flush []string `json:"flush,omitempty"`
	// Clock != 0: before the step the wall clock the RIB/server reads is stepped, frozen or
	// released (package clock: 1 = freeze, 2 = unfreeze, otherwise nanoseconds)
	Clock int64 `json:"clock,omitempty"`
}

// History is a generated case for the RIB-level properties.
type History struct {
	FwdRefs bool   `json:"fwdrefs"`
	Steps   []Step `json:"steps"`
}

// Cfg tunes the history generator.
type Cfg struct {
	MinLen, MaxLen int
	FlushPct       int  // probability (percent) of a flush step
	PartialFlush   bool // allow flushing a single NI
	Rich           int  // percent of payloads drawn with all optional fields
	PopTop         bool // allow pop-top-label
	DupHops        int  // percent of groups listing an index twice
	AliasLabels    bool // include labels outside the uint32 range in DELETEs
	Backups        int  // percent of groups with a backup group
	Kinds          []string
	NoReplace      bool
	ClockPct       int // percent of steps before which the wall clock is stepped/frozen
}

// DefaultCfg is the C01-style configuration.
func DefaultCfg() Cfg {
	return Cfg{MinLen: 5, MaxLen: 30, FlushPct: 3, PartialFlush: true, Rich: 15, DupHops: 0, Backups: 15, ClockPct: 3}
}

func pct(t *rapid.T, p int, label string) bool {
	if p <= 0 {
		return false
	}
	if p >= 100 {
		return true
	}
	return rapid.IntRange(0, 99).Draw(t, label) < p
}

func pick[T any](t *rapid.T, xs []T, label string) T {
	return xs[rapid.IntRange(0, len(xs)-1).Draw(t, label)]
}

// weighted picks an index with the given integer weights.
func weighted(t *rapid.T, w []int, label string) int {
	sum := 0
	for _, x := range w {
		sum += x
	}
	r := rapid.IntRange(0, sum-1).Draw(t, label)
	for i, x := range w {
		if r < x {
			return i
		}
		r -= x
	}
	return len(w) - 1
}

func installedKeys(m *model.RIB, ni, kind string) []string {
	var out []string
	for _, k := range m.Keys() {
		if k.NI == ni && k.Kind == kind {
			out = append(out, k.Key)
		}
	}
	return out
}

func universe(kind string) []string {
	switch kind {
	case gen.V4:
		return V4s
	case gen.V6:
		return V6s
	case gen.MPLS:
		out := []string{}
		for _, l := range Labels {
			out = append(out, strconv.FormatUint(l, 10))
		}
		return out
	}
	out := []string{}
	for _, l := range IDs {
		out = append(out, strconv.FormatUint(l, 10))
	}
	return out
}

// DrawNHPayload fills the next-hop payload fields of o.
func DrawNHPayload(t *rapid.T, o *gen.Op, rich bool, popTop bool) {
	p := 25
	if rich {
		p = 85
	}
	if pct(t, p, "ip?") {
		o.IP = pick(t, IPs, "ip")
	}
	if pct(t, p, "mac?") {
		o.MAC = pick(t, MACs, "mac")
	}
	if pct(t, p, "intf?") {
		o.Intf = pick(t, Intfs, "intf")
		if pct(t, 50, "subintf?") {
			o.Subintf = gen.U(uint64(rapid.IntRange(0, 3).Draw(t, "subintf")))
		}
	}
	if pct(t, p/2, "ipinip?") {
		o.IPinIPSrc = pick(t, IPs[:2], "ipipsrc")
		o.IPinIPDst = pick(t, IPs[:2], "ipipdst")
	}
	if pct(t, p/2, "encaph?") {
		o.EncapH = pick(t, []int32{gen.EncapIPv4, gen.EncapMPLS, gen.EncapUDPV6}, "encaph")
	}
	if pct(t, p/2, "decap?") {
		o.Decap = pick(t, []int32{gen.EncapIPv4, gen.EncapMPLS, gen.EncapUDPV6}, "decap")
	}
	if pct(t, p/2, "encaps?") {
		n := rapid.IntRange(1, 2).Draw(t, "nencaps")
		for i := 1; i <= n; i++ {
			e := gen.Encap{Index: uint64(i)}
			if pct(t, 50, "mplsencap?") {
				e.Type = "mpls"
				nl := rapid.IntRange(1, 3).Draw(t, "nlabels")
				for j := 0; j < nl; j++ {
					e.Labels = append(e.Labels, pick(t, []uint64{16, 100, 100, 1048575, 20000}, "label"))
				}
			} else {
				e.Type = "udpv6"
				if pct(t, 60, "dscp?") {
					e.DSCP = gen.U(uint64(rapid.IntRange(0, 63).Draw(t, "dscp")))
				}
				if pct(t, 60, "dst?") {
					e.DstIP = "2001:db8::2"
				}
				if pct(t, 60, "dport?") {
					e.DstPort = gen.U(uint64(pick(t, []int{0, 6635, 65535}, "dport")))
				}
				if pct(t, 60, "ttl?") {
					e.TTL = gen.U(uint64(pick(t, []int{0, 1, 64, 255}, "ttl")))
				}
				if pct(t, 60, "src?") {
					e.SrcIP = "2001:db8::3"
				}
				if pct(t, 60, "sport?") {
					e.SrcPort = gen.U(uint64(pick(t, []int{0, 49152, 65535}, "sport")))
				}
			}
			o.Encaps = append(o.Encaps, e)
		}
	}
	if pct(t, p/2, "pushed?") {
		n := rapid.IntRange(1, 3).Draw(t, "npushed")
		for j := 0; j < n; j++ {
			o.Pushed = append(o.Pushed, pick(t, []uint64{16, 100, 100, 1048575, 20000}, "pushed"))
		}
	}
	if popTop && pct(t, p/2, "poptop?") {
		o.PopTop = true
	}
	if pct(t, p/2, "nhni?") {
		o.NHNI = pick(t, NIs, "nhni")
	}
}

// missingDep returns an operation key (ni, kind, key) that a held operation waits for.
func missingDeps(m *model.RIB) []gen.EntryKey {
	var out []gen.EntryKey
	seen := map[gen.EntryKey]bool{}
	for _, id := range m.HeldIDs() {
		h := m.Held[id]
		for _, d := range m.MissingRefs(h.NI, model.Payload(h.Op)) {
			if !seen[d] {
				seen[d] = true
				out = append(out, d)
			}
		}
	}
	return out
}

// DrawOp draws one operation aimed with the belief model m.
func DrawOp(t *rapid.T, m *model.RIB, cfg Cfg, id uint64) *gen.Op {
	kinds := cfg.Kinds
	if len(kinds) == 0 {
		kinds = gen.Kinds
	}
	allowed := map[string]bool{}
	for _, k := range kinds {
		allowed[k] = true
	}
	o := &gen.Op{ID: id}
	aw := []int{55, 15, 30}
	if cfg.NoReplace {
		aw = []int{65, 0, 35}
	}
	keys := m.Keys()
	deps := missingDeps(m)
	intent := weighted(t, []int{35, 15, 25, 15, 10}, "intent")
	held := m.HeldIDs()
	if intent == 4 && len(held) == 0 {
		intent = 3
	}
	if intent == 1 && len(deps) == 0 {
		intent = 0
	}
	var waitFor *gen.EntryKey // intent 4: the new operation refers to this missing entry
	if intent == 2 && len(keys) == 0 {
		intent = 0
	}
	switch intent {
	case 0: // build upwards from what is installed
		o.NI = NIs[weighted(t, []int{55, 30, 15}, "ni")]
		o.Act = gen.ADD
		nhs := installedKeys(m, o.NI, gen.NH)
		nhgs := installedKeys(m, o.NI, gen.NHG)
		switch {
		case len(nhgs) > 0 && pct(t, 60, "build-top"):
			o.Kind = []string{gen.V4, gen.V6, gen.MPLS}[weighted(t, []int{60, 15, 25}, "topkind")]
		case len(nhs) > 0 && pct(t, 65, "build-nhg"):
			o.Kind = gen.NHG
		default:
			o.Kind = gen.NH
		}
		if !allowed[o.Kind] {
			o.Kind = pick(t, kinds, "kind")
		}
		o.Key = pick(t, universe(o.Kind), "key")
	case 1: // install something a held operation waits for
		d := pick(t, deps, "dep")
		o.NI, o.Kind, o.Key, o.Act = d.NI, d.Kind, d.Key, gen.ADD
	case 2: // act on an installed entry
		k := pick(t, keys, "instentry")
		o.NI, o.Kind, o.Key = k.NI, k.Kind, k.Key
		o.Act = []string{gen.ADD, gen.REPLACE, gen.DELETE}[weighted(t, []int{30, 30, 40}, "act")]
		if cfg.NoReplace && o.Act == gen.REPLACE {
			o.Act = gen.ADD
		}
	case 4: // around a held operation: pull its own key from under it, or queue up behind the same missing entry
		h := m.Held[held[rapid.IntRange(0, len(held)-1).Draw(t, "heldop")]]
		miss := m.MissingRefs(h.NI, model.Payload(h.Op))
		hk, hasKey := model.KeyOf(h.NI, h.Op)
		if (len(miss) == 0 || pct(t, 40, "own-key")) && hasKey && allowed[hk.Kind] {
			o.NI, o.Kind, o.Key = hk.NI, hk.Kind, hk.Key
			o.Act = gen.ADD
			if _, inst := m.Ent[hk]; inst && pct(t, 75, "pull") {
				o.Act = gen.DELETE
			}
		} else if len(miss) > 0 {
			d := miss[rapid.IntRange(0, len(miss)-1).Draw(t, "missing")]
			waitFor = &d
			o.NI, o.Act = d.NI, gen.ADD
			if d.Kind == gen.NHG {
				o.Kind = []string{gen.V4, gen.V6, gen.MPLS}[weighted(t, []int{60, 15, 25}, "topkind")]
			} else {
				o.Kind = gen.NHG
			}
			if !allowed[o.Kind] {
				o.Kind = pick(t, kinds, "kind")
				waitFor = nil
			}
			o.Key = pick(t, universe(o.Kind), "key")
		} else {
			o.Kind = pick(t, kinds, "kind")
			o.NI = NIs[weighted(t, []int{50, 30, 20}, "ni")]
			o.Act = gen.ADD
			o.Key = pick(t, universe(o.Kind), "key")
		}
	default:
		if len(kinds) == 5 {
			o.Kind = gen.Kinds[weighted(t, []int{25, 8, 12, 28, 27}, "kind")]
		} else {
			o.Kind = pick(t, kinds, "kind")
		}
		o.NI = NIs[weighted(t, []int{50, 30, 20}, "ni")]
		o.Act = []string{gen.ADD, gen.REPLACE, gen.DELETE}[weighted(t, aw, "act")]
		o.Key = pick(t, universe(o.Kind), "key")
	}
	ni, kind, act := o.NI, o.Kind, o.Act

	if act == gen.DELETE {
		if cfg.AliasLabels && kind == gen.MPLS && pct(t, 25, "alias") {
			base := o.KeyNum()
			o.Key = strconv.FormatUint(pick(t, []uint64{1<<32 + base, 1<<32 + base, 1<<33 + base, 1<<32 + 16, 15, 1048576}, "aliaslabel"), 10)
		}
		if pct(t, 50, "delnopl") {
			o.NoPayload = true
			return o
		}
	}
	rich := pct(t, cfg.Rich, "rich")
	switch kind {
	case gen.V4, gen.V6, gen.MPLS:
		// pick the group NI first, then a group that is (usually) installed there
		if pct(t, 25, "groupni?") {
			o.GroupNI = pick(t, NIs, "groupni")
		}
		gni := o.GroupNI
		if gni == "" {
			gni = ni
		}
		ig := installedKeys(m, gni, gen.NHG)
		if len(ig) > 0 && pct(t, 75, "aim-group") {
			o.Group, _ = strconv.ParseUint(pick(t, ig, "instgroup"), 10, 64)
		} else {
			o.Group = pick(t, IDs, "group")
		}
		if waitFor != nil && waitFor.Kind == gen.NHG {
			o.GroupNI = ""
			o.Group, _ = strconv.ParseUint(waitFor.Key, 10, 64)
		}
		if rich || pct(t, 15, "meta?") {
			o.Meta = pick(t, MetaVals, "meta")
		}
		if kind == gen.MPLS && (rich || pct(t, 15, "popped?")) {
			n := rapid.IntRange(1, 3).Draw(t, "npopped")
			for j := 0; j < n; j++ {
				o.Popped = append(o.Popped, pick(t, []uint64{16, 100, 100, 1048575}, "popped"))
			}
		}
	case gen.NHG:
		n := rapid.IntRange(1, 3).Draw(t, "nhops")
		in := installedKeys(m, ni, gen.NH)
		used := map[uint64]bool{}
		for j := 0; j < n; j++ {
			var idx uint64
			if len(in) > 0 && pct(t, 75, "aim-nh") {
				idx, _ = strconv.ParseUint(pick(t, in, "instnh"), 10, 64)
			} else {
				idx = pick(t, IDs, "nh")
			}
			if used[idx] {
				continue
			}
			used[idx] = true
			h := gen.Hop{Index: idx}
			if rich || pct(t, 40, "weight?") {
				h.Weight = gen.U(pick(t, []uint64{0, 1, 2, 64, 1 << 40}, "weight"))
			}
			o.Hops = append(o.Hops, h)
		}
		if waitFor != nil && waitFor.Kind == gen.NH {
			if idx, _ := strconv.ParseUint(waitFor.Key, 10, 64); !used[idx] {
				o.Hops = append(o.Hops, gen.Hop{Index: idx})
			}
		}
		if pct(t, cfg.DupHops, "duphop?") {
			o.Hops = append(o.Hops, o.Hops[0])
		}
		if pct(t, cfg.Backups, "backup?") {
			o.Backup = gen.U(pick(t, IDs, "backup"))
		}
		if rich && pct(t, 50, "color?") {
			o.Color = gen.U(uint64(rapid.IntRange(0, 5).Draw(t, "color")))
		}
	case gen.NH:
		DrawNHPayload(t, o, rich, cfg.PopTop)
	}
	return o
}

// DrawHistory draws a whole history.
func DrawHistory(t *rapid.T, cfg Cfg) History {
	h := History{FwdRefs: rapid.IntRange(0, 3).Draw(t, "fwdrefs") != 0}
	m := model.New("DEFAULT", NIs[1:], h.FwdRefs)
	n := rapid.IntRange(cfg.MinLen, cfg.MaxLen).Draw(t, "len")
	id := uint64(0)
	for i := 0; i < n; i++ {
		if pct(t, cfg.FlushPct, "flush?") {
			var nis []string
			if cfg.PartialFlush && pct(t, 60, "partial") {
				nis = []string{pick(t, NIs, "flushni")}
			} else {
				nis = append(nis, NIs...)
			}
			h.Steps = append(h.Steps, Step{Flush: nis})
			m.Flush(nis)
			continue
		}
		id++
		o := DrawOp(t, m, cfg, id)
		stp := Step{Op: o}
		if pct(t, cfg.ClockPct, "clock?") {
			stp.Clock = pick(t, ClockSteps, "clock")
		}
		h.Steps = append(h.Steps, stp)
		m.BeliefApply(o.NI, o.Proto())
	}
	return h
}

// WithoutEarly returns h without the steps before index k that mention network instance ni
// (as the operation's instance, its group instance or its next-hop instance; a flush loses ni
// from its list), and the index in the result that corresponds to k. Used by the runners that
// create ni at runtime at that point.
func WithoutEarly(h History, ni string, k int) (History, int) {
	out := History{FwdRefs: h.FwdRefs}
	at := 0
	for i, st := range h.Steps {
		if i == k {
			at = len(out.Steps)
		}
		if i < k {
			if st.Op != nil {
				if st.Op.NI == ni || st.Op.GroupNI == ni || st.Op.NHNI == ni || st.Op.Raw != "" {
					continue
				}
			} else {
				var fl []string
				for _, n := range st.Flush {
					if n != ni {
						fl = append(fl, n)
					}
				}
				if len(fl) == 0 {
					continue
				}
				st.Flush = fl
			}
		}
		out.Steps = append(out.Steps, st)
	}
	if k >= len(h.Steps) {
		at = len(out.Steps)
	}
	return out, at
}
