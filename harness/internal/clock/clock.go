// Package clock gives the harness ownership of the wall clock that gribigo's rib and server
// packages read (their unixTS variable, through the VerifSetClock hook of the verif build).
// The clock advances by one microsecond per reading - so it is strictly increasing while
// nothing else happens, as a healthy clock is - and a case can step it at chosen points:
// forwards, backwards (an NTP correction, a VM migration) or not at all for a while (a
// frozen clock: a coarse timer, many readings within one tick). Wall-clock time is not
// monotonic and no listed property is allowed to depend on it.
package clock

import (
	"sync/atomic"

	"github.com/openconfig/gribigo/rib"
	"github.com/openconfig/gribigo/server"
)

// Start is the reading of a freshly installed clock (2024-01-01T00:00:00Z in ns).
const Start int64 = 1704067200_000000000

var (
	now    atomic.Int64
	tick   atomic.Int64
	placed atomic.Bool
)

func read() int64 { return now.Add(tick.Load()) }

// Install makes both packages read the harness clock and resets it.
func Install() {
	now.Store(Start)
	tick.Store(1000)
	if !placed.Swap(true) {
		rib.VerifSetClock(read)
		server.VerifSetClock(read)
	}
}

// Step moves the clock by d nanoseconds (negative: backwards).
func Step(d int64) { now.Add(d) }

// Freeze stops (true) or resumes (false) the per-reading advance.
func Freeze(on bool) {
	if on {
		tick.Store(0)
	} else {
		tick.Store(1000)
	}
}

// Now reads the clock without advancing it.
func Now() int64 { return now.Load() }

// Apply interprets one entry of a case's clock script: 0 = nothing, 1 = freeze, 2 = unfreeze,
// anything else = step by that many nanoseconds.
func Apply(x int64) {
	switch x {
	case 0:
	case 1:
		Freeze(true)
	case 2:
		Freeze(false)
	default:
		Step(x)
	}
}

// Steps are the clock events the generators draw from.
var Steps = []int64{1, 2, -1_000_000_000, -2_000_000_000, -3600_000_000_000, -5_000, 1_000_000_000, 86400_000_000_000}
