package sess

import (
	"fmt"
	"runtime"
	"sync/atomic"
	"time"

	"pgregory.net/rapid"

	spb "github.com/openconfig/gribi/v1/proto/service"
	"github.com/openconfig/gribigo/constants"
	"github.com/openconfig/gribigo/server"
	"github.com/openconfig/ygot/ygot"

	"verifh/internal/drive"
	"verifh/internal/ev"
	"verifh/internal/gen"
	"verifh/internal/hgen"
	"verifh/internal/l2"
)

func ifNHOp(id uint64, act string, key int, elec *gen.ID128) *gen.Op {
	o := &gen.Op{ID: id, NI: "DEFAULT", Kind: gen.NH, Act: act, Key: fmt.Sprint(key), Elec: elec}
	if act == gen.DELETE {
		o.NoPayload = true
	} else {
		o.IP = fmt.Sprintf("192.0.2.%d", id%250+1)
	}
	return o
}

// InFlight: a schedule the message-granularity scripts cannot express. The primary (session
// 0, id Init) sends one request of NOps next-hop ADDs; the server is stopped, through the
// public post-change hook, inside the StallAt-th of them. While that operation is in flight
// the other sessions announce the ids Ann (in this order; each announcement is followed until
// its response arrived or the session's handler is parked on a lock - goroutine state). Then
// the operation is released. Whatever the server did meanwhile, once everything is quiet the
// election state must be the one the announcements produce in their order, and exactly the
// session that is then primary must have its correctly stamped operation accepted.
type InFlight struct {
	Init    gen.ID128 `json:"init"`
	NOps    int       `json:"nops"`
	StallAt int       `json:"stallat"`
	Ann     []Ann     `json:"ann"`
}

type Ann struct {
	S  int       `json:"s"` // 1..3
	ID gen.ID128 `json:"id"`
	// Gone: not an announcement - at this point of the schedule the client of a further
	// session, which has only negotiated its parameters, goes away (its context is cancelled);
	// it is followed until its RPC has ended or its handler is parked on a lock
	Gone bool `json:"gone,omitempty"`
}

// RunInFlight executes the schedule; P is the property prefix of the signatures.
func RunInFlight(f *InFlight, P string) *ev.Verdict {
	v := &ev.Verdict{}
	var armed atomic.Bool
	var adds int32
	stalled := make(chan struct{})
	release := make(chan struct{})
	hook := func(op constants.OpType, _ int64, _ string, _ ygot.ValidatedGoStruct) {
		if !armed.Load() {
			return
		}
		if int(atomic.AddInt32(&adds, 1)) == f.StallAt {
			close(stalled)
			<-release
		}
	}
	s := drive.NewSrv(true, hgen.NIs[1:], server.WithPostChangeRIBHook(hook))
	nsess := 1
	ngone := 0
	for _, a := range f.Ann {
		if a.Gone {
			ngone++
			continue
		}
		if a.S+1 > nsess {
			nsess = a.S + 1
		}
	}
	var ys []*drive.Session // sessions whose clients go away during the schedule
	for i := 0; i < ngone; i++ {
		y := s.Open()
		y.Send(drive.StdParams(false))
		if rs, ended, hg := y.Barrier(); hg != nil || ended || len(rs) != 1 {
			l2.HangFinding(v, P, hg)
			if hg == nil {
				v.Fail(P+"/setup", "bystander %d: parameters not accepted: %v %v", i, y.Err(), rs)
			}
			return v
		}
		ys = append(ys, y)
	}
	goneNext := 0
	xs := make([]*drive.Session, nsess)
	last := make([]*gen.ID128, nsess)
	fail := func(sig, format string, a ...any) { v.Fail(P+"/"+sig, format, a...) }
	defer func() {
		select {
		case <-release:
		default:
			close(release)
		}
		for _, x := range xs {
			if x != nil {
				x.Close()
			}
		}
		for _, y := range ys {
			if !y.Ended() {
				y.Cancel()
			}
		}
	}()
	for i := range xs {
		xs[i] = s.Open()
		xs[i].Send(drive.StdParams(false))
		if rs, ended, hg := xs[i].Barrier(); hg != nil || ended || len(rs) != 1 {
			l2.HangFinding(v, P, hg)
			if hg == nil {
				fail("setup", "session %d: parameters not accepted: %v %v", i, xs[i].Err(), rs)
			}
			return v
		}
	}
	xs[0].Send(&spb.ModifyRequest{ElectionId: f.Init.Proto()})
	if rs, ended, hg := xs[0].Barrier(); hg != nil || ended || len(rs) != 1 {
		l2.HangFinding(v, P, hg)
		if hg == nil {
			fail("setup", "primary: election not answered: %v %v", xs[0].Err(), rs)
		}
		return v
	}
	init := f.Init
	last[0] = &init
	cur, primary := f.Init, 0

	// the request whose StallAt-th operation stays in flight
	req := &spb.ModifyRequest{}
	for i := 1; i <= f.NOps; i++ {
		req.Operation = append(req.Operation, ifNHOp(uint64(i), gen.ADD, i, &init).Proto())
	}
	armed.Store(true)
	if _, hg := xs[0].Send(req); hg != nil {
		l2.HangFinding(v, P, hg)
		return v
	}
	select {
	case <-stalled:
	case <-time.After(drive.Watchdog):
		v.Inconclusive = "the post-change hook was not reached"
		return v
	}
	armed.Store(false)

	// announcements while the operation is in flight
	waiting := 0
	parkedSess := map[int]bool{}
	var sentAnn []Ann
	for ai, a := range f.Ann {
		if a.Gone {
			y := ys[goneNext]
			goneNext++
			y.Cancel()
			deadline := time.Now().Add(drive.Watchdog)
			for !y.Ended() {
				if where := y.ParkedOnLock(); where != "" {
					v.Class("disconnect-waits:" + where)
					break
				}
				if time.Now().After(deadline) {
					v.Inconclusive = fmt.Sprintf("disconnect %d: the RPC neither ended nor is its handler parked on a lock", ai)
					return v
				}
				runtime.Gosched()
			}
			v.Class("client-goes-away-while-an-operation-is-in-flight")
			continue
		}
		x := xs[a.S]
		if x.Ended() || parkedSess[a.S] {
			// a session whose announcement waits cannot be sent anything more before the release
			continue
		}
		have := len(x.Responses())
		if _, hg := x.Send(&spb.ModifyRequest{ElectionId: a.ID.Proto()}); hg != nil {
			l2.HangFinding(v, P, hg)
			return v
		}
		id := a.ID
		last[a.S] = &id
		sentAnn = append(sentAnn, a)
		if a.ID.Cmp(cur) >= 0 {
			cur, primary = a.ID, a.S
		}
		deadline := time.Now().Add(drive.Watchdog)
		for {
			if len(x.Responses()) > have || x.Ended() {
				break
			}
			if where := x.ParkedOnLock(); where != "" {
				waiting++
				parkedSess[a.S] = true
				v.Class("announcement-waits:" + where)
				break
			}
			if time.Now().After(deadline) {
				v.Inconclusive = fmt.Sprintf("announcement %d neither answered nor parked on a lock", ai)
				return v
			}
			runtime.Gosched()
		}
	}
	close(release)

	// quiescence: the RPCs of the clients that went away have ended, every other session answers a barrier
	for i, y := range ys {
		if _, _, hg := y.WaitEnd(); hg != nil {
			l2.HangFinding(v, P, hg)
			return v
		}
		_ = i
	}
	for i, x := range xs {
		if x.Ended() {
			fail("session-ended", "session %d ended with %v", i, x.Err())
			return v
		}
		rs, ended, hg := x.Barrier()
		if hg != nil {
			l2.HangFinding(v, P, hg)
			return v
		}
		if ended {
			fail("session-ended", "session %d ended with %v", i, x.Err())
			return v
		}
		if i == 0 {
			seen := map[uint64]int{}
			for _, m := range rs {
				for _, r := range m.GetResult() {
					seen[r.GetId()]++
				}
			}
			for id, n := range seen {
				if n > 1 {
					fail("answered-twice", "operation %d of the in-flight request got %d results", id, n)
				}
			}
			// operations processed before the hand-over were legitimately accepted
			for i := 1; i <= f.StallAt; i++ {
				if seen[uint64(i)] != 1 {
					fail("in-flight-op-unanswered", "operation %d (processed before any announcement was delivered) has %d results", i, seen[uint64(i)])
				}
			}
		}
	}
	// election responses: never below the id they answer, never above the maximum announced
	for i, x := range xs {
		if i == 0 {
			continue
		}
		for _, m := range x.Responses() {
			e := m.GetElectionId()
			if e == nil {
				continue
			}
			got := gen.FromProto128(e)
			if got.Cmp(cur) > 0 {
				fail("election-response-id", "session %d received election id %s, above everything announced (maximum %s; announcements %v)", i, got, cur, f.Ann)
			}
		}
		if last[i] != nil {
			rs := x.Responses()
			for k := len(rs) - 1; k >= 0; k-- {
				if e := rs[k].GetElectionId(); e != nil {
					if gen.FromProto128(e).Cmp(*last[i]) < 0 {
						fail("election-response-id", "session %d: the response to its last announcement %s carries the lower id %s (announcements %v)", i, last[i], gen.FromProto128(e), f.Ann)
					}
					break
				}
			}
		}
	}
	gotID, gotMaster := s.S.VerifElection()
	if gotID == nil || gen.FromProto128(gotID).Cmp(cur) != 0 {
		fail("election-id", "after the announcements %v (made while operation %d of %d of the primary was in flight) the learnt election id is %v, the maximum announced is %s", f.Ann, f.StallAt, f.NOps, gotID, cur)
	}
	who := -1
	for i, x := range xs {
		if x.CID == gotMaster {
			who = i
		}
	}
	if waiting > 0 {
		// announcements that had to wait are served in an order of the server's choosing: the
		// primary must then be one of the sessions that announced the final maximum
		ok := false
		for _, a := range sentAnn {
			if a.ID.Cmp(cur) == 0 && a.S == who {
				ok = true
			}
		}
		if f.Init.Cmp(cur) == 0 && who == 0 {
			ok = true
		}
		if !ok {
			fail("primary", "after the announcements %v (some of which waited for the in-flight operation) the primary is session %d, which did not announce the maximum %s", f.Ann, who, cur)
		} else {
			primary = who
		}
	} else if gotMaster != xs[primary].CID {
		fail("primary", "after the announcements %v (made while operation %d of %d of the primary was in flight) the primary is session %d, the most recent announcer of the maximum is session %d", f.Ann, f.StallAt, f.NOps, who, primary)
	}
	if len(v.Findings) > 0 {
		return v
	}
	// behavioural probe: each session sends an operation stamped with its own last id
	acc, rej := 0, 0
	for i, x := range xs {
		if last[i] == nil {
			continue
		}
		o := ifNHOp(uint64(1000+i), gen.ADD, 100+i, last[i])
		x.Send(&spb.ModifyRequest{Operation: []*spb.AFTOperation{o.Proto()}})
		rs, ended, hg := x.Barrier()
		if hg != nil {
			l2.HangFinding(v, P, hg)
			return v
		}
		ok := false
		for _, m := range rs {
			for _, r := range m.GetResult() {
				if r.GetId() == o.ID && r.GetStatus() == spb.AFTResult_RIB_PROGRAMMED {
					ok = true
				}
			}
		}
		want := i == primary && last[i].Cmp(cur) == 0
		switch {
		case ok && !want:
			fail("non-primary-accepted", "after the announcements %v (in flight: op %d of %d): session %d (last id %s) is not the primary (session %d, id %s) but its operation was programmed", f.Ann, f.StallAt, f.NOps, i, last[i], primary, cur)
		case !ok && want:
			fail("primary-rejected", "after the announcements %v (in flight: op %d of %d): session %d is the primary with id %s but its operation was not programmed (ended=%v %v)", f.Ann, f.StallAt, f.NOps, i, cur, ended, rs)
		}
		if ok {
			acc++
		} else {
			rej++
		}
	}
	v.Class("in-flight-schedule")
	if primary != 0 {
		v.Class("handover-while-an-operation-is-in-flight")
	}
	v.NonTrivial = len(f.Ann) >= 2 && acc > 0 && rej > 0
	return v
}

// DrawInFlight draws a schedule.
func DrawInFlight(rt *rapid.T) *InFlight {
	f := &InFlight{Init: gen.ID128{Hi: uint64(rapid.IntRange(0, 1).Draw(rt, "hi")), Lo: uint64(rapid.IntRange(1, 5).Draw(rt, "lo"))}}
	f.NOps = rapid.IntRange(1, 4).Draw(rt, "nops")
	f.StallAt = rapid.IntRange(1, f.NOps).Draw(rt, "stallat")
	for n := rapid.IntRange(1, 5).Draw(rt, "nann"); n > 0; n-- {
		id := gen.ID128{Hi: uint64(rapid.IntRange(0, 2).Draw(rt, "ahi")), Lo: uint64(rapid.IntRange(1, 8).Draw(rt, "alo"))}
		f.Ann = append(f.Ann, Ann{S: rapid.IntRange(1, 3).Draw(rt, "s"), ID: id})
		if rapid.IntRange(0, 4).Draw(rt, "gone?") == 0 {
			f.Ann = append(f.Ann, Ann{Gone: true})
		}
	}
	return f
}

var _ = ev.JSON
