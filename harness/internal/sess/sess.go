// Package sess runs multi-session Modify scripts (connect / negotiate /
// announce / operate / disconnect, at message granularity, harness-chosen
// interleaving) against the real server over in-process streams and checks
// them against the election/session model. It serves C04, C05, C06 and C09.
package sess

import (
	"fmt"
	"google.golang.org/protobuf/encoding/protowire"
	"pgregory.net/rapid"
	"sort"
	"strings"

	"google.golang.org/grpc/codes"
	"google.golang.org/grpc/status"

	spb "github.com/openconfig/gribi/v1/proto/service"

	"verifh/internal/clock"
	"verifh/internal/drive"
	"verifh/internal/ev"
	"verifh/internal/gen"
	"verifh/internal/hgen"
	"verifh/internal/l2"
	"verifh/internal/model"
	"verifh/internal/obs"
)

// ParamSpec is a SessionParameters message.
type ParamSpec struct {
	Red     int32 `json:"red"`     // 0 ALL_PRIMARY, 1 SINGLE_PRIMARY
	Persist int32 `json:"persist"` // 0 DELETE, 1 PRESERVE
	Ack     int32 `json:"ack"`     // 0 RIB_ACK, 1 RIB_AND_FIB_ACK
}

func (p ParamSpec) Proto() *spb.SessionParameters {
	return &spb.SessionParameters{
		Redundancy:  spb.SessionParameters_ClientRedundancy(p.Red),
		Persistence: spb.SessionParameters_AFTPersistence(p.Persist),
		AckType:     spb.SessionParameters_AFTResultStatusType(p.Ack),
	}
}

func (p ParamSpec) Supported() bool { return p.Red == 1 && p.Persist == 1 }

func (p ParamSpec) String() string {
	return fmt.Sprintf("params(%s,%s,%s)", spb.SessionParameters_ClientRedundancy(p.Red), spb.SessionParameters_AFTPersistence(p.Persist), spb.SessionParameters_AFTResultStatusType(p.Ack))
}

// Step is one client action.
type Step struct {
	S   int        `json:"s"`
	K   string     `json:"k"` // params | elec | ops | multi | empty | halfclose | cancel | fail
	P   *ParamSpec `json:"p,omitempty"`
	ID  *gen.ID128 `json:"id,omitempty"`
	Ops []*gen.Op  `json:"ops,omitempty"`
	// Multi names the populated fields of a multi-field message: any two or three of p,e,o.
	Multi string `json:"multi,omitempty"`
	// Rep > 0 repeats the step Rep more times (long streams: the same election id
	// announced again and again is legal); keeps long cases small and shrinkable.
	Rep int `json:"rep,omitempty"`
	// Unk > 0 (elec): the election id message additionally carries an unknown field (number
	// 15, varint Unk) - as sent by a client built against a later revision of the protocol;
	// the number announced is the same
	Unk int `json:"unk,omitempty"`
	// Clock != 0: before the step the wall clock the server reads is stepped, frozen or
	// released (see package clock: 1 = freeze, 2 = unfreeze, otherwise nanoseconds)
	Clock int64 `json:"clock,omitempty"`
}

func (s Step) String() string {
	switch s.K {
	case "params":
		return fmt.Sprintf("s%d %s", s.S, s.P)
	case "elec":
		return fmt.Sprintf("s%d elec%s", s.S, s.ID)
	case "ops":
		var o []string
		for _, x := range s.Ops {
			e := "noelec"
			if x.Elec != nil {
				e = x.Elec.String()
			}
			o = append(o, x.String()+"@"+e)
		}
		return fmt.Sprintf("s%d ops[%s]", s.S, strings.Join(o, "; "))
	case "multi":
		return fmt.Sprintf("s%d multi(%s)", s.S, s.Multi)
	}
	return fmt.Sprintf("s%d %s", s.S, s.K)
}

// Script is a generated case.
type Script struct {
	FwdRefs bool   `json:"fwdrefs"`
	Steps   []Step `json:"steps"`
	// Prelude: before the steps, this many short-lived sessions come and go one after the
	// other on the same server (each negotiates SINGLE_PRIMARY/PRESERVE and closes its
	// stream, every PreludeBad-th one - if set - ends by repeating its parameters instead):
	// a long-lived server has seen many sessions, which must leave nothing behind.
	Prelude    int `json:"prelude,omitempty"`
	PreludeBad int `json:"preludebad,omitempty"`
	// Inject: the server starts with this election id already learnt and no primary
	// (server.NewFake + InjectElectionID): announcements below it must not win
	Inject *gen.ID128 `json:"inject,omitempty"`
}

// Checks selects the oracle clauses a property asserts.
type Checks struct {
	P        string // signature prefix
	Election bool   // C05: election responses, primary identity
	Gate     bool   // C04: acceptance iff primary and correctly stamped; rejected ops leave no trace
	Proto    bool   // C09: termination statuses, no side effects, footprint
	Acct     bool   // C06: exactly-once accounting per stream
	Probe    bool   // after every election step, probe which session's ops are accepted
}

type sessModel struct {
	x          *drive.Session
	opened     bool
	ended      bool
	gotMsg     bool
	negotiated *ParamSpec
	last       *gen.ID128
	// accounting (C06)
	sent          map[uint64]*gen.Op // op ids sent on this stream
	results       map[uint64][]spb.AFTResult_Status
	answered      map[uint64]bool
	lostPrimaryAt int
}

// Stats summarises a run for non-triviality rules.
type Stats struct {
	Announced      map[int]bool
	Accepted       int
	Rejected       int
	Violations     int // protocol violations that ended an RPC
	ViolWith2Open  int
	ViolNotFirst   int
	OrderSensitive bool // two ids ordered differently by (hi,lo) than by lo alone
	Tie            bool
	Decrease       bool
	Handover       int
	HandoverHeld   int
	HeldResolved   int
	HeldFailed     int
	BadNI          int
	Elections      int
	D16Excluded    int
}

type world struct {
	c     Checks
	v     *ev.Verdict
	s     *drive.Srv
	m     *model.RIB
	fold  obs.State
	sess  []*sessModel
	cur   *gen.ID128
	prim  int // index of the primary session, -1 none
	st    *Stats
	ids   []gen.ID128
	owner map[uint64]int // held op id -> session that sent it
	step  int
}

func cp(i gen.ID128) *gen.ID128 { return &i }

func (w *world) fail(sig, f string, a ...any) { w.v.Fail(w.c.P+"/"+sig, f, a...) }

func (w *world) live() int {
	n := 0
	for _, s := range w.sess {
		if s.opened && !s.ended {
			n++
		}
	}
	return n
}

// want is an acceptable termination status.
type want struct {
	code      codes.Code
	reason    spb.ModifyRPCErrorDetails_Reason
	anyReason bool
}

func statusMatches(err error, ws []want) (bool, string) {
	st, ok := status.FromError(err)
	if !ok || err == nil {
		return false, fmt.Sprintf("%v", err)
	}
	var reasons []spb.ModifyRPCErrorDetails_Reason
	hasDetails := false
	for _, d := range st.Details() {
		if md, ok := d.(*spb.ModifyRPCErrorDetails); ok {
			hasDetails = true
			reasons = append(reasons, md.GetReason())
		}
	}
	for _, w := range ws {
		if st.Code() != w.code {
			continue
		}
		if w.anyReason {
			return true, ""
		}
		for _, r := range reasons {
			if r == w.reason {
				return true, ""
			}
		}
		_ = hasDetails
	}
	return false, fmt.Sprintf("code %s reasons %v", st.Code(), reasons)
}

func wantStr(ws []want) string {
	var s []string
	for _, w := range ws {
		if w.anyReason {
			s = append(s, w.code.String())
		} else {
			s = append(s, w.code.String()+"/"+w.reason.String())
		}
	}
	return strings.Join(s, " or ")
}

// snapshot of the server-side state that violations must not alter.
type snap struct {
	st     obs.State
	held   map[uint64]string
	elec   string
	master string
	counts string
}

func (w *world) snapshot() (*snap, bool) {
	got, ok := l2.Observe(w.s, w.v, w.c.P, fmt.Sprintf("step %d", w.step))
	if !ok {
		return nil, false
	}
	id, master := w.s.S.VerifElection()
	e := "none"
	if id != nil {
		e = gen.FromProto128(id).String()
	}
	return &snap{st: got, held: w.s.S.VerifRIB().VerifPending(), elec: e, master: master, counts: fmt.Sprint(w.s.S.VerifRIB().VerifRefCounts())}, true
}

func (w *world) sameSnap(a, b *snap, what string) {
	if d := obs.Diff(a.st, b.st); len(d) > 0 {
		w.fail("side-effect:rib", "%s changed the installed entries: %s", what, strings.Join(d, "; "))
	}
	if fmt.Sprint(a.held) != fmt.Sprint(b.held) {
		w.fail("side-effect:held", "%s changed the held operations: %v -> %v", what, a.held, b.held)
	}
	if a.elec != b.elec || a.master != b.master {
		w.fail("side-effect:election", "%s changed the election state: id %s -> %s, primary %q -> %q", what, a.elec, b.elec, a.master, b.master)
	}
	if a.counts != b.counts {
		w.fail("side-effect:counters", "%s changed the reference counters: %s -> %s", what, a.counts, b.counts)
	}
}

// checkElectionState compares hooks with the model.
func (w *world) checkElectionState(when string) {
	id, master := w.s.S.VerifElection()
	switch {
	case w.cur == nil && id != nil:
		w.fail("election-state:id", "%s: server learnt election id %v, model none", when, gen.FromProto128(id))
	case w.cur != nil && (id == nil || gen.FromProto128(id).Cmp(*w.cur) != 0):
		g := "none"
		if id != nil {
			g = gen.FromProto128(id).String()
		}
		w.fail("election-state:id", "%s: highest learnt election id is %s, want the running maximum %s", when, g, w.cur)
	}
	wantMaster := ""
	if w.prim >= 0 {
		wantMaster = w.sess[w.prim].x.CID
	}
	if master != wantMaster {
		who := "nobody"
		for i, s := range w.sess {
			if s.opened && s.x.CID == master {
				who = fmt.Sprintf("session %d", i)
			}
		}
		w.fail("election-state:primary", "%s: the server's primary is %s, the model's is session %d (announcements so far %v)", when, who, w.prim, w.ids)
	}
}

func (w *world) sessionCount(when string) {
	if got, want := w.s.S.VerifSessions(), w.live(); got != want {
		w.fail("footprint", "%s: server keeps state for %d sessions, %d are open", when, got, want)
	}
}

// Run executes the script.
func Run(sc Script, c Checks) (*ev.Verdict, *Stats) {
	v := &ev.Verdict{}
	st := &Stats{Announced: map[int]bool{}}
	w := &world{c: c, v: v, st: st, prim: -1, fold: obs.State{}, owner: map[uint64]int{}}
	clock.Install()
	if sc.Inject != nil && !sc.Inject.IsZero() {
		w.s = drive.NewSrvInjected(sc.FwdRefs, hgen.NIs[1:], sc.Inject.Proto())
		w.cur = cp(*sc.Inject)
		w.ids = append(w.ids, *sc.Inject)
		v.Class("election-id-injected-before-the-first-session")
	} else {
		w.s = drive.NewSrv(sc.FwdRefs, hgen.NIs[1:])
	}
	w.m = model.New("DEFAULT", hgen.NIs[1:], sc.FwdRefs)
	defer func() {
		for _, s := range w.sess {
			if s.opened && !s.ended {
				if hg := s.x.Close(); hg != nil && len(v.Findings) == 0 {
					l2.HangFinding(v, c.P, hg)
				}
			}
		}
	}()
	for i := 0; i < sc.Prelude; i++ {
		x := w.s.Open()
		x.Send(drive.StdParams(false))
		if rs, ended, hg := x.WaitOneOrEnd(); hg != nil || ended || len(rs) != 1 {
			l2.HangFinding(v, c.P, hg)
			if hg == nil {
				w.fail("prelude", "short-lived session %d of %d: parameters not accepted: ended=%v (%v) %v", i+1, sc.Prelude, ended, x.Err(), rs)
			}
			return v, st
		}
		if sc.PreludeBad > 0 && (i+1)%sc.PreludeBad == 0 {
			x.Send(drive.StdParams(false))
			if _, ended, hg := x.WaitOneOrEnd(); hg != nil || !ended {
				l2.HangFinding(v, c.P, hg)
				if hg == nil {
					w.fail("prelude", "short-lived session %d of %d: repeated parameters did not end the RPC", i+1, sc.Prelude)
				}
				return v, st
			}
		} else if hg := x.Close(); hg != nil {
			l2.HangFinding(v, c.P, hg)
			return v, st
		}
		if n := w.s.S.VerifSessions(); n != 0 {
			w.fail("footprint", "after short-lived session %d of %d the server keeps state for %d sessions, none is open", i+1, sc.Prelude, n)
			return v, st
		}
	}
	if sc.Prelude > 0 {
		v.Class("many-short-lived-sessions-first")
	}
	var steps []Step
	for _, stp := range sc.Steps {
		n := stp.Rep
		stp.Rep = 0
		for ; n >= 0; n-- {
			steps = append(steps, stp)
		}
	}
	for i, stp := range steps {
		w.step = i
		if stp.Clock != 0 {
			clock.Apply(stp.Clock)
			v.Class("clock-stepped-or-frozen")
		}
		for len(w.sess) <= stp.S {
			w.sess = append(w.sess, &sessModel{sent: map[uint64]*gen.Op{}, results: map[uint64][]spb.AFTResult_Status{}, answered: map[uint64]bool{}})
		}
		sm := w.sess[stp.S]
		if sm.ended {
			continue // actions on a finished session are dropped (the generator avoids them)
		}
		if !sm.opened {
			sm.x = w.s.Open()
			sm.opened = true
			if sm.x.CID == "" {
				w.fail("open", "step %d: session %d was not registered by the server", i, stp.S)
				return v, st
			}
		}
		if !w.doStep(i, stp, sm) {
			return v, st
		}
		if len(v.Findings) > 0 {
			return v, st
		}
	}
	if c.Acct {
		w.finalAccounting()
	}
	return v, st
}

// send delivers a request and collects what the session answers: for a
// negotiated session up to a barrier, otherwise one response or termination.
func (w *world) send(sm *sessModel, req *spb.ModifyRequest, wasNegotiated bool) (resps []*spb.ModifyResponse, ended bool, ok bool) {
	if _, hg := sm.x.Send(req); hg != nil {
		l2.HangFinding(w.v, w.c.P, hg)
		return nil, false, false
	}
	if wasNegotiated {
		r, e, hg := sm.x.Barrier()
		if hg != nil {
			l2.HangFinding(w.v, w.c.P, hg)
			return nil, false, false
		}
		if e {
			r = append(r, sm.x.Late()...)
		}
		return r, e, true
	}
	r, e, hg := sm.x.WaitOneOrEnd()
	if hg != nil {
		l2.HangFinding(w.v, w.c.P, hg)
		return nil, false, false
	}
	return r, e, true
}

func (w *world) othersSilent(actor *sessModel, when string) bool {
	for j, o := range w.sess {
		if o == actor || !o.opened || o.ended || o.negotiated == nil {
			continue
		}
		r, e, hg := o.x.Barrier()
		if hg != nil {
			l2.HangFinding(w.v, w.c.P, hg)
			return false
		}
		if e {
			w.fail("other-session-ended", "%s: session %d, which did nothing, ended with %v", when, j, o.x.Err())
			o.ended = true
			continue
		}
		if len(r) > 0 {
			// The only message a session may receive without having sent anything is the
			// failure of operations of its own that the server gave up (a previous primary's
			// held operations at a hand-over): every result must be FAILED, for an id that was
			// sent on that very stream and has no verdict yet. It enters the accounting like
			// any other result.
			own := true
			for _, m := range r {
				if m.GetElectionId() != nil || m.GetSessionParamsResult() != nil || len(m.GetResult()) == 0 {
					own = false
				}
				for _, x := range m.GetResult() {
					if _, sent := o.sent[x.GetId()]; !sent || x.GetStatus() != spb.AFTResult_FAILED || len(o.results[x.GetId()]) > 0 {
						own = false
					}
				}
			}
			if !own {
				w.fail("message-on-other-stream", "%s: session %d, which sent nothing, received %v", when, j, r)
				continue
			}
			for _, m := range r {
				w.account(o, j, m, when)
			}
			w.v.Class("unsolicited-failure-of-own-unanswered-operations")
		}
	}
	return true
}

func (w *world) endSession(idx int, sm *sessModel) {
	sm.ended = true
}

func (w *world) doStep(i int, stp Step, sm *sessModel) bool {
	when := fmt.Sprintf("step %d (%s)", i, stp)
	c := w.c
	wasNeg := sm.negotiated != nil
	first := !sm.gotMsg
	switch stp.K {
	case "halfclose", "cancel", "fail":
		var hg *drive.Hang
		switch stp.K {
		case "halfclose":
			_, hg = sm.x.HalfClose()
		case "cancel":
			sm.x.Cancel()
		default:
			_, hg = sm.x.Fail(status.Error(codes.Unavailable, "transport is closing"))
		}
		if hg != nil {
			l2.HangFinding(w.v, c.P, hg)
			return false
		}
		_, _, hg = sm.x.WaitEnd()
		if hg != nil {
			l2.HangFinding(w.v, c.P, hg)
			return false
		}
		err := sm.x.Err()
		if stp.K == "halfclose" && err != nil && c.Proto {
			w.fail("halfclose-status", "%s: clean half-close ended the RPC with %v", when, err)
		}
		w.endSession(stp.S, sm)
		if c.Proto || c.Election {
			w.checkElectionState(when)
			w.sessionCount(when)
		}
		return w.othersSilent(sm, when)
	}

	var before *snap
	if c.Proto || c.Gate {
		var ok bool
		if before, ok = w.snapshot(); !ok {
			return false
		}
	}
	otherLive := w.live() - 1

	switch stp.K {
	case "params", "multi", "empty":
		req := &spb.ModifyRequest{}
		var ws []want
		accept := false
		tolerate := false
		switch stp.K {
		case "params":
			req.Params = stp.P.Proto()
			p := *stp.P
			switch {
			case sm.gotMsg:
				ws = append(ws, want{code: codes.FailedPrecondition, reason: spb.ModifyRPCErrorDetails_MODIFY_NOT_ALLOWED})
			}
			if p.Red == 0 && p.Persist == 1 {
				ws = append(ws, want{code: codes.FailedPrecondition, reason: spb.ModifyRPCErrorDetails_UNSUPPORTED_PARAMS}, want{code: codes.Unimplemented, reason: spb.ModifyRPCErrorDetails_UNSUPPORTED_PARAMS})
			} else if !p.Supported() {
				ws = append(ws, want{code: codes.Unimplemented, reason: spb.ModifyRPCErrorDetails_UNSUPPORTED_PARAMS})
			}
			// consistency with the other live sessions
			for _, o := range w.sess {
				if o == sm || !o.opened || o.ended {
					continue
				}
				if o.negotiated == nil {
					// an un-negotiated peer has the specification's default parameters; the
					// property does not decide whether that conflicts: both outcomes accepted
					tolerate = true
					continue
				}
				if *o.negotiated != p {
					ws = append(ws, want{code: codes.FailedPrecondition, reason: spb.ModifyRPCErrorDetails_PARAMS_DIFFER_FROM_OTHER_CLIENTS})
				}
			}
			accept = len(ws) == 0
			if tolerate {
				ws = append(ws, want{code: codes.FailedPrecondition, reason: spb.ModifyRPCErrorDetails_PARAMS_DIFFER_FROM_OTHER_CLIENTS})
			}
		case "multi":
			if strings.Contains(stp.Multi, "p") {
				req.Params = (ParamSpec{1, 1, 0}).Proto()
			}
			if strings.Contains(stp.Multi, "e") {
				req.ElectionId = (gen.ID128{Hi: 0, Lo: 77}).Proto()
			}
			if strings.Contains(stp.Multi, "o") {
				o := &gen.Op{ID: 900000 + uint64(i), NI: "DEFAULT", Kind: gen.NH, Act: gen.ADD, Key: "3", IP: "192.0.2.33", Elec: w.cur}
				req.Operation = []*spb.AFTOperation{o.Proto()}
			}
			ws = []want{{code: codes.InvalidArgument, anyReason: true}}
		case "empty":
			// not listed by the property: only "no side effects" is asserted
			ws = nil
		}
		resps, ended, ok := w.send(sm, req, wasNeg)
		if !ok {
			return false
		}
		sm.gotMsg = true
		switch {
		case stp.K == "empty":
			if ended {
				w.endSession(stp.S, sm)
			}
		case ended:
			w.endSession(stp.S, sm)
			w.st.Violations++
			if otherLive >= 1 {
				w.st.ViolWith2Open++
			}
			if !first {
				w.st.ViolNotFirst++
			}
			if c.Proto {
				if accept && !tolerate {
					w.fail("valid-params-rejected", "%s: supported, consistent parameters as first message but the RPC ended with %v", when, sm.x.Err())
				} else if ok, got := statusMatches(sm.x.Err(), ws); !ok {
					w.fail("wrong-status:"+stp.K, "%s: want %s, got %s (%v)", when, wantStr(ws), got, sm.x.Err())
				}
				if len(resps) > 0 {
					w.fail("response-before-error", "%s: the violating message was answered with %v before the RPC ended", when, resps)
				}
			}
		default:
			// not ended
			if !accept && !tolerate && c.Proto {
				w.fail("violation-accepted:"+stp.K, "%s: want the RPC to end with %s, but it continues; responses %v", when, wantStr(ws), resps)
				return false
			}
			if stp.K == "params" {
				if len(resps) != 1 || resps[0].GetSessionParamsResult() == nil || resps[0].GetSessionParamsResult().GetStatus() != spb.SessionParametersResult_OK {
					if c.Proto {
						w.fail("params-response", "%s: want exactly one SessionParametersResult OK, got %v", when, resps)
					}
				}
				p := *stp.P
				sm.negotiated = &p
			}
		}
	case "elec":
		req := &spb.ModifyRequest{ElectionId: stp.ID.Proto()}
		if stp.Unk > 0 {
			req.ElectionId.ProtoReflect().SetUnknown(protowire.AppendVarint(protowire.AppendTag(nil, 15, protowire.VarintType), uint64(stp.Unk)))
		}
		var ws []want
		if sm.negotiated == nil {
			ws = append(ws, want{code: codes.FailedPrecondition, reason: spb.ModifyRPCErrorDetails_ELECTION_ID_IN_ALL_PRIMARY})
		}
		if stp.ID.IsZero() {
			ws = append(ws, want{code: codes.InvalidArgument, anyReason: true})
		}
		resps, ended, ok := w.send(sm, req, wasNeg)
		if !ok {
			return false
		}
		sm.gotMsg = true
		if len(ws) > 0 {
			if !ended {
				if c.Proto || c.Election {
					w.fail("violation-accepted:elec", "%s: want the RPC to end with %s, but it continues; responses %v", when, wantStr(ws), resps)
				}
				return false
			}
			w.endSession(stp.S, sm)
			w.st.Violations++
			if otherLive >= 1 {
				w.st.ViolWith2Open++
			}
			if !first {
				w.st.ViolNotFirst++
			}
			if c.Proto || c.Election {
				if ok, got := statusMatches(sm.x.Err(), ws); !ok {
					w.fail("wrong-status:elec", "%s: want %s, got %s (%v)", when, wantStr(ws), got, sm.x.Err())
				}
			}
			break
		}
		if ended {
			w.endSession(stp.S, sm)
			w.fail("valid-election-rejected", "%s: a non-zero election id on a SINGLE_PRIMARY session ended the RPC with %v", when, sm.x.Err())
			return false
		}
		// model update
		id := *stp.ID
		w.st.Elections++
		w.st.Announced[stp.S] = true
		for _, old := range w.ids {
			byPair := id.Cmp(old)
			byLow := 0
			switch {
			case id.Lo < old.Lo:
				byLow = -1
			case id.Lo > old.Lo:
				byLow = 1
			}
			if byPair != byLow && byPair != 0 {
				w.st.OrderSensitive = true
			}
			if byPair == 0 {
				w.st.Tie = true
			}
		}
		if w.cur != nil && id.Cmp(*w.cur) < 0 {
			w.st.Decrease = true
		}
		w.ids = append(w.ids, id)
		sm.last = cp(id)
		if w.cur == nil || id.Cmp(*w.cur) >= 0 {
			if w.prim != stp.S && w.prim >= 0 {
				w.st.Handover++
				if len(w.m.Held) > 0 {
					w.st.HandoverHeld++
				}
			}
			if w.prim != stp.S {
				// fail-over: the server stops processing the previous primary's
				// pending operations and must never answer them to the new primary
				w.m.Held = map[uint64]*model.Held{}
				w.owner = map[uint64]int{}
				if w.prim >= 0 {
					// operations of the previous primary that are still
					// unanswered may stay so: its session lost the primary role
					old := w.sess[w.prim]
					for oid := range old.sent {
						if len(old.results[oid]) == 0 {
							old.answered[oid] = true
						}
					}
				}
			}
			w.cur = cp(id)
			w.prim = stp.S
		}
		if c.Election {
			if len(resps) != 1 || resps[0].GetElectionId() == nil || len(resps[0].GetResult()) != 0 || resps[0].GetSessionParamsResult() != nil {
				w.fail("election-response-shape", "%s: want exactly one response carrying only election_id, got %v", when, resps)
			} else if got := gen.FromProto128(resps[0].GetElectionId()); got.Cmp(*w.cur) != 0 {
				w.fail("election-response-id", "%s: response carries election id %s, the maximum announced so far is %s (announcements %v)", when, got, w.cur, w.ids)
			}
		}
	case "ops":
		if !w.doOps(i, stp, sm, when, before) {
			return false
		}
	}

	if len(w.v.Findings) > 0 {
		return false
	}
	if c.Election || c.Proto {
		w.checkElectionState(when)
	}
	if c.Proto {
		w.sessionCount(when)
	}
	if (c.Proto || c.Gate) && stp.K != "ops" {
		// none of these messages may touch the RIB / held ops / counters; the
		// election state may only change through a valid announcement
		after, ok := w.snapshot()
		if !ok {
			return false
		}
		if stp.K == "elec" && !sm.ended {
			after.elec, after.master = before.elec, before.master
			if len(w.m.Held) == 0 && len(after.held) == 0 {
				// a fail-over discards the previous primary's held operations
				before.held = after.held
			}
		}
		w.sameSnap(before, after, when)
	}
	if c.Proto || c.Acct {
		if !w.othersSilent(sm, when) {
			return false
		}
	}
	if c.Probe && stp.K == "elec" && len(w.v.Findings) == 0 {
		return w.probeAll(when)
	}
	return true
}

// probeAll sends, on every live session that has announced, a correctly
// stamped idempotent DELETE of a never-installed next-hop: it is acknowledged
// iff that session is the primary and its id is the current one.
func (w *world) probeAll(when string) bool {
	for j, o := range w.sess {
		if !o.opened || o.ended || o.negotiated == nil || o.last == nil {
			continue
		}
		pid := uint64(800000 + w.step*16 + j)
		op := &gen.Op{ID: pid, NI: "DEFAULT", Kind: gen.NH, Act: gen.DELETE, Key: "99", NoPayload: true, Elec: o.last}
		resps, ended, ok := w.send(o, &spb.ModifyRequest{Operation: []*spb.AFTOperation{op.Proto()}}, true)
		if !ok {
			return false
		}
		wantAcc := j == w.prim && w.cur != nil && o.last.Cmp(*w.cur) == 0
		acc := false
		for _, r := range resps {
			for _, x := range r.GetResult() {
				if x.GetId() == pid && x.GetStatus() == spb.AFTResult_RIB_PROGRAMMED {
					acc = true
				}
			}
		}
		if ended {
			o.ended = true
		}
		if acc != wantAcc {
			w.fail("probe-acceptance", "%s: a correctly stamped operation of session %d (last announced %s) accepted=%v; model: primary is session %d with id %v (announcements %v)", when, j, o.last, acc, w.prim, w.cur, w.ids)
			return false
		}
		if ended && wantAcc {
			w.fail("probe-ended-primary", "%s: the primary's correctly stamped operation ended its RPC with %v", when, o.x.Err())
			return false
		}
	}
	return true
}

// doOps handles an "ops" step.
func (w *world) doOps(i int, stp Step, sm *sessModel, when string, before *snap) bool {
	c := w.c
	req := &spb.ModifyRequest{}
	for _, o := range stp.Ops {
		req.Operation = append(req.Operation, o.Proto())
		sm.sent[o.ID] = o
	}
	wasNeg := sm.negotiated != nil
	resps, ended, ok := w.send(sm, req, wasNeg)
	if !ok {
		return false
	}
	sm.gotMsg = true
	if !wasNeg || !sm.negotiated.Supported() {
		// operation from a session that has not negotiated SINGLE_PRIMARY
		w.st.Violations++
		if w.live()-1 >= 1 {
			w.st.ViolWith2Open++
		}
		if !ended {
			if c.Proto {
				w.fail("violation-accepted:ops-unnegotiated", "%s: operation on a session without negotiated SINGLE_PRIMARY/PRESERVE must end the RPC, responses %v", when, resps)
			}
			return false
		}
		w.endSession(stp.S, sm)
		if c.Proto {
			ws := []want{{code: codes.Unimplemented, reason: spb.ModifyRPCErrorDetails_UNSUPPORTED_PARAMS}}
			if ok, got := statusMatches(sm.x.Err(), ws); !ok {
				w.fail("wrong-status:ops-unnegotiated", "%s: want %s, got %s (%v)", when, wantStr(ws), got, sm.x.Err())
			}
			after, ok := w.snapshot()
			if !ok {
				return false
			}
			w.sameSnap(before, after, when)
		}
		return true
	}
	fib := sm.negotiated.Ack == 1
	// walk the operations in order against the responses (one response per
	// processed operation, FIFO)
	ri := 0
	for oi, o := range stp.Ops {
		p := req.Operation[oi]
		owhen := fmt.Sprintf("%s op %d", when, o.ID)
		badNI := o.NI == "" || !w.m.NIs[o.NI]
		accept := !badNI && stp.S == w.prim && o.Elec != nil && sm.last != nil && w.cur != nil && o.Elec.Cmp(*sm.last) == 0 && o.Elec.Cmp(*w.cur) == 0
		fatalOK := !badNI && (o.Elec == nil) // operation without election id: must end the RPC
		if ri >= len(resps) {
			// no response for this operation
			if !ended {
				w.fail("op-unanswered", "%s: no response although the RPC is open (responses %v)", owhen, resps)
				return false
			}
			// RPC ended at or before this operation
			if accept && c.Gate {
				w.fail("accepted-op-ended-rpc", "%s: the primary's correctly stamped operation ended the RPC with %v", owhen, sm.x.Err())
			}
			if fatalOK && c.Proto {
				ws := []want{{code: codes.FailedPrecondition, anyReason: true}}
				if ok, got := statusMatches(sm.x.Err(), ws); !ok {
					w.fail("wrong-status:ops-noelec", "%s: operation without election id: want %s, got %s (%v)", owhen, wantStr(ws), got, sm.x.Err())
				}
			}
			w.st.Rejected++
			if fatalOK {
				w.st.Violations++
				if oi > 0 || sm.gotMsg {
					w.st.ViolNotFirst++
				}
				if w.live()-1 >= 1 {
					w.st.ViolWith2Open++
				}
			}
			w.endSession(stp.S, sm)
			break
		}
		r := resps[ri]
		ri++
		out, fibIDs, other := l2.Split(r)
		w.account(sm, stp.S, r, owhen)
		if other > 0 {
			w.fail("unknown-result-status", "%s: response %v carries a result status that is none of FAILED/RIB_PROGRAMMED/FIB_PROGRAMMED", owhen, r)
		}
		if badNI {
			w.st.BadNI++
			if ri < len(resps) {
				// the same id answered again in the next response?
				if o2, _, _ := l2.Split(resps[ri]); len(o2.Fails) == 1 && o2.Fails[0] == o.ID && len(o2.OKs) == 0 {
					if c.Acct || c.Proto || c.Gate {
						w.fail("bad-ni-answered-twice", "%s: operation for network instance %q was answered FAILED twice: %v and %v", owhen, o.NI, r, resps[ri])
					}
					return false
				}
			}
			if len(out.OKs) != 0 || len(out.Fails) != 1 || out.Fails[0] != o.ID {
				if c.Acct || c.Gate || c.Proto {
					w.fail("bad-ni-answer", "%s: operation for unknown/empty network instance %q must be answered FAILED exactly once, got %v", owhen, o.NI, r)
				}
			}
			continue
		}
		if fatalOK {
			if c.Proto {
				w.fail("violation-accepted:ops-noelec", "%s: operation without election id was answered in-band (%v) instead of ending the RPC", owhen, r)
			}
			return false
		}
		if !accept {
			w.st.Rejected++
			if len(out.OKs) != 0 || len(fibIDs) != 0 {
				if c.Gate {
					w.fail("gate-bypassed", "%s: operation must be rejected (session %d, primary %d, stamped %v, session's last %v, current %v) but got %v", owhen, stp.S, w.prim, o.Elec, sm.last, w.cur, r)
				}
				return false
			}
			if len(out.Fails) != 1 || out.Fails[0] != o.ID {
				if c.Gate || c.Acct {
					w.fail("reject-shape", "%s: rejected operation must be answered with exactly one FAILED for its id, got %v", owhen, r)
				}
			}
			continue
		}
		if t := p.GetOp(); t != spb.AFTOperation_ADD && t != spb.AFTOperation_REPLACE && t != spb.AFTOperation_DELETE {
			// an operation of no defined type from the primary, correctly stamped: it passes the
			// election gate and is then refused in-band; nothing changes
			w.st.Rejected++
			if len(out.OKs) != 0 || len(fibIDs) != 0 || len(out.Fails) != 1 || out.Fails[0] != o.ID {
				if c.Gate || c.Acct || c.Proto {
					w.fail("undefined-op-type-answer", "%s: operation of undefined type %v must be answered FAILED exactly once, got %v", owhen, t, r)
				}
				return false
			}
			continue
		}
		w.st.Accepted++
		// accepted: RIB relation model
		heldBefore := map[uint64]bool{}
		for id := range w.m.Held {
			heldBefore[id] = true
		}
		if p.GetOp() == spb.AFTOperation_DELETE {
			w.m.StepDelete(o.NI, p, out, w.v, c.P)
		} else {
			w.m.StepAdd(o.NI, p, out, true, w.v, c.P)
		}
		for id := range w.m.Held {
			if !heldBefore[id] {
				w.owner[id] = stp.S
			}
		}
		for _, id := range out.OKs {
			if id != o.ID && heldBefore[id] {
				w.st.HeldResolved++
			}
		}
		for _, id := range out.Fails {
			if id != o.ID && heldBefore[id] {
				w.st.HeldFailed++
			}
		}
		if fib && c.Acct {
			// every RIB ack of this response must be followed by exactly one FIB ack
			if fmt.Sprint(sortU(out.OKs)) != fmt.Sprint(sortU(fibIDs)) {
				w.fail("fib-acks", "%s: FIB acknowledgement was negotiated; RIB_PROGRAMMED ids %v but FIB_PROGRAMMED ids %v", owhen, out.OKs, fibIDs)
			}
		}
		if !fib && len(fibIDs) > 0 && c.Acct {
			w.fail("fib-ack-not-negotiated", "%s: FIB_PROGRAMMED sent on a RIB_ACK session: %v", owhen, r)
		}
		if len(w.v.Findings) > 0 {
			return false
		}
	}
	if ri < len(resps) {
		w.fail("extra-responses", "%s: %d responses for %d operations: %v", when, len(resps), len(stp.Ops), resps)
		return false
	}
	if ended && !sm.ended {
		w.endSession(stp.S, sm)
	}
	// state check: installed == model (rejected and unanswered ops leave no trace)
	if c.Gate || c.Proto || c.Acct {
		got, ok := l2.Observe(w.s, w.v, c.P, when)
		if !ok {
			return false
		}
		obs.CheckInstalled(w.m, got, w.v, c.P+"/installed-vs-model", when)
		obs.CheckHeld(w.m, w.s.S.VerifRIB(), w.v, c.P+"/held-vs-model", when)
		obs.CheckCounters(w.m, w.s.S.VerifRIB(), w.v, c.P+"/counter-vs-referrers", when)
	}
	return len(w.v.Findings) == 0
}

func sortU(x []uint64) []uint64 {
	y := append([]uint64(nil), x...)
	sort.Slice(y, func(i, j int) bool { return y[i] < y[j] })
	return y
}

// account books the results of one response for the exactly-once rules.
func (w *world) account(sm *sessModel, idx int, r *spb.ModifyResponse, when string) {
	for _, x := range r.GetResult() {
		id := x.GetId()
		if id >= 1<<62 {
			continue // barrier
		}
		if _, ok := sm.sent[id]; !ok {
			if w.c.Acct {
				owner, held := w.owner[id]
				sig := "foreign-result"
				if held && owner != idx {
					sig = "foreign-result:held-op-of-other-session"
				}
				w.fail(sig, "%s: session %d received a result for operation id %d which it never sent (%v); held-op owner: session %d", when, idx, id, x.GetStatus(), owner)
			}
			continue
		}
		seq := append(sm.results[id], x.GetStatus())
		sm.results[id] = seq
		if w.c.Acct {
			if why := badSeq(seq, sm.negotiated != nil && sm.negotiated.Ack == 1); why != "" {
				w.fail("result-sequence:"+why, "%s: operation %d on session %d received the result sequence %v", when, id, idx, seq)
			}
		}
	}
}

func badSeq(seq []spb.AFTResult_Status, fib bool) string {
	F, R, B := spb.AFTResult_FAILED, spb.AFTResult_RIB_PROGRAMMED, spb.AFTResult_FIB_PROGRAMMED
	switch len(seq) {
	case 1:
		if seq[0] == B {
			return "fib-before-rib"
		}
		return ""
	case 2:
		if seq[0] == R && seq[1] == B {
			if !fib {
				return "fib-not-negotiated"
			}
			return ""
		}
		if seq[0] == seq[1] {
			return "verdict-twice"
		}
		if (seq[0] == F) != (seq[1] == F) {
			return "failure-and-success"
		}
		return "bad-order"
	}
	return "too-many-results"
}

// finalAccounting: at the end of the script every operation sent on a live
// primary session must have a terminal result unless it is legitimately held,
// the stream ended, or its session lost the primary role.
func (w *world) finalAccounting() {
	for idx, sm := range w.sess {
		if !sm.opened {
			continue
		}
		fib := sm.negotiated != nil && sm.negotiated.Ack == 1
		for id := range sm.sent {
			seq := sm.results[id]
			if len(seq) == 0 {
				_, held := w.m.Held[id]
				if held || sm.ended || idx != w.prim || sm.answered[id] {
					continue
				}
				w.fail("never-answered", "operation %d on session %d (still primary, stream open, not held in the model) never received a result", id, idx)
				continue
			}
			if fib && len(seq) == 1 && seq[0] == spb.AFTResult_RIB_PROGRAMMED && !sm.ended {
				w.fail("fib-ack-missing", "operation %d on FIB-ack session %d received RIB_PROGRAMMED but never FIB_PROGRAMMED", id, idx)
			}
		}
	}
}

// Minimize removes steps (and operations within steps) while fails still holds.
func Minimize(sc Script, fails func(Script) bool) Script {
	if !fails(sc) {
		return sc
	}
	cur := sc
	for i := 0; i < len(cur.Steps); {
		cand := cur // (keeps the script-level fields: prelude, injected id)
		cand.Steps = nil
		cand.Steps = append(cand.Steps, cur.Steps[:i]...)
		cand.Steps = append(cand.Steps, cur.Steps[i+1:]...)
		if len(cand.Steps) > 0 && fails(cand) {
			cur = cand
		} else {
			i++
		}
	}
	for i := range cur.Steps {
		for len(cur.Steps[i].Ops) > 1 {
			shrunk := false
			for j := range cur.Steps[i].Ops {
				cand := cur
				cand.Steps = append([]Step(nil), cur.Steps...)
				st := cand.Steps[i]
				st.Ops = append(append([]*gen.Op(nil), cur.Steps[i].Ops[:j]...), cur.Steps[i].Ops[j+1:]...)
				cand.Steps[i] = st
				if fails(cand) {
					cur = cand
					shrunk = true
					break
				}
			}
			if !shrunk {
				break
			}
		}
	}
	return cur
}

// DrawClock adds clock events (package clock) before some steps of the script: with
// probability pct percent per step.
func DrawClock(rt *rapid.T, sc *Script, pct int) {
	for i := range sc.Steps {
		if rapid.IntRange(0, 99).Draw(rt, "clock?") < pct {
			sc.Steps[i].Clock = clock.Steps[rapid.IntRange(0, len(clock.Steps)-1).Draw(rt, "clock")]
		}
	}
}
