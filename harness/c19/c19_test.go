package c19

import (
	"fmt"
	spb "github.com/openconfig/gribi/v1/proto/service"
	"sort"
	"strings"
	"testing"
	"time"

	"pgregory.net/rapid"

	"github.com/openconfig/gribigo/client"
	"github.com/openconfig/gribigo/compliance"
	"github.com/openconfig/gribigo/fluent"

	"verifh/internal/captb"
	"verifh/internal/ev"
	"verifh/internal/faults"
)

func TestMain(m *testing.M) {
	client.BusyLoopDelay = time.Millisecond
	ev.Main(m, "C19", "exploration")
}

// Case is either one pass of the whole suite over a shared conformant server
// in a drawn order and configuration, or one (fault, test) pair.
type Case struct {
	Kind     string   `json:"kind"`            // conformant | faulty
	Order    []string `json:"order,omitempty"` // ShortNames in execution order (conformant)
	ElecBase uint64   `json:"elecbase,omitempty"`
	VRF      string   `json:"vrf,omitempty"`
	Fault    string   `json:"fault,omitempty"`
	Test     string   `json:"test,omitempty"`
	// Variant (conformant): "" = the reference server as it is; "reports-entry-status" = its Get
	// responses additionally carry the optional rib_status / fib_status of every entry,
	// truthfully: RIB programmed; FIB programmed only if the latest session negotiated FIB acks
	Variant string `json:"variant,omitempty"`
}

func setup() {
	c := ev.C()
	c.Rule = "conformant half: the whole compliance.TestSuite run over real gRPC (bufconn) on ONE long-lived reference server (a second, forward-reference-disabled server for the tests that require it) in a rapid-drawn permutation, with the starting election id drawn from {1,2,255,2^31,2^32+7,2^53,2^62} and a drawn VRF name; package globals are reset at the top of every pass; every test must pass on a fatal/error-capturing testing.TB (skips are recorded). Faulty half: a catalogue of single-requirement faulty servers (the reference server behind a request/response-rewriting proxy, or started with the opposite option); each (fault, designated test) pair runs on a fresh faulty server and must FAIL there, and the same test must PASS on a fresh unwrapped server in the same run. Designation follows declared intent only (the registry's Requires* flags and test names). Non-trivial = a pass whose order differs from the file order with a non-default configuration, or a (fault, test) pair; distinct by FNV-64 of the case JSON. Later additions: acknowledgement-status rewriting faults (deprecated OK, UNSET); a second conformant server whose Get reports the optional entry status fields truthfully (one conformant pass in three)."
	c.Assumptions = []string{
		"client.BusyLoopDelay is 1ms (exported tunable)",
		"the reference server's default network instance is always DEFAULT, so only the VRF name varies",
		"fault catalogue and designation table are committed in harness/c19/catalogue.go",
	}
}

func suiteIndex() map[string]*compliance.TestSpec {
	m := map[string]*compliance.TestSpec{}
	for _, t := range compliance.TestSuite {
		m[t.In.ShortName] = t
	}
	return m
}

type outcome struct {
	fatal, errs []string
	skipped     bool
	panicked    any
	timedOut    bool
}

func (o outcome) failed() bool { return len(o.fatal) > 0 || len(o.errs) > 0 || o.panicked != nil }

// runTest runs one compliance test against the proxy.
func runTest(tt *compliance.TestSpec, p *faults.Proxy) outcome {
	c := fluent.NewClient()
	c.Connection().WithStub(p.Stub())
	sc := fluent.NewClient()
	sc.Connection().WithStub(p.Stub())
	tb := captb.New(tt.In.ShortName)
	var out outcome
	done := make(chan struct{})
	go func() {
		defer close(done)
		out.panicked = tb.Run(func(t testing.TB) { tt.In.Fn(c, t, compliance.SecondClient(sc)) })
	}()
	select {
	case <-done:
	case <-time.After(150 * time.Second):
		out.timedOut = true
		return out
	}
	stop := captb.New("stop")
	stop.Run(func(t testing.TB) { c.Stop(t); sc.Stop(t) })
	out.fatal, out.errs, out.skipped = tb.Fatals, tb.Errors, tb.DidSkip
	return out
}

func short(ss []string) string {
	s := strings.Join(ss, " | ")
	if len(s) > 500 {
		s = s[:500] + "…"
	}
	return s
}

func runConformant(c Case) *ev.Verdict {
	v := &ev.Verdict{}
	idx := suiteIndex()
	compliance.SetElectionID(c.ElecBase)
	compliance.SetDefaultNetworkInstanceName("DEFAULT")
	compliance.SetNonDefaultVRFName(c.VRF)
	var vf *faults.Fault
	if c.Variant == "reports-entry-status" {
		vf = &faults.Fault{Get: func(p *faults.Proxy, _ *spb.GetRequest, resps []*spb.GetResponse) []*spb.GetResponse {
			fib := spb.AFTEntry_NOT_PROGRAMMED
			if p.LastAckType() == spb.SessionParameters_RIB_AND_FIB_ACK {
				fib = spb.AFTEntry_PROGRAMMED
			}
			for _, r := range resps {
				for _, e := range r.GetEntry() {
					e.RibStatus, e.FibStatus = spb.AFTEntry_PROGRAMMED, fib
				}
			}
			return resps
		}}
		v.Class("conformant-variant:" + c.Variant)
	}
	main := faults.New(vf, []string{c.VRF}, true)
	nofwd := faults.New(vf, []string{c.VRF}, false)
	defer main.Stop()
	defer nofwd.Stop()
	skips := 0
	for i, name := range c.Order {
		tt := idx[name]
		if tt == nil {
			continue
		}
		p := main
		if tt.In.RequiresDisallowedForwardReferences {
			p = nofwd
		}
		o := runTest(tt, p)
		switch {
		case o.timedOut:
			v.Inconclusive = fmt.Sprintf("test %q did not return within 150s", name)
			return v
		case o.panicked != nil:
			v.Fail("C19/conformant-test-panics:"+name, "position %d: test %q panicked on the conformant server: %v", i, name, o.panicked)
		case o.failed():
			prev := "first"
			if i > 0 {
				prev = c.Order[i-1]
			}
			v.Fail("C19/conformant-test-fails:"+name, "position %d (after %q, election base %d, vrf %q): test %q fails on the conformant server: fatal %s errors %s", i, prev, c.ElecBase, c.VRF, name, short(o.fatal), short(o.errs))
		}
		if o.skipped {
			skips++
			v.Class("skips:" + name)
		}
		if len(v.Findings) > 0 {
			return v
		}
	}
	inOrder := true
	for i, t := range compliance.TestSuite {
		if i >= len(c.Order) || c.Order[i] != t.In.ShortName {
			inOrder = false
		}
	}
	v.NonTrivial = !inOrder && (c.ElecBase != 1 || c.VRF != "NON-DEFAULT-VRF")
	v.Class("conformant-pass")
	return v
}

func runOnce(c Case) *ev.Verdict {
	if c.Kind == "faulty" {
		return runFaulty(c)
	}
	return runConformant(c)
}

// runCase runs the case and, when it fails, confirms the failure before it is
// reported. The property quantifies over orders, election bases and names, not
// over how fast the server answers: the harness drives the suite with
// client.BusyLoopDelay = 1ms, which widens a window that exists in the suite
// itself (fluent Await returns nil when nothing is pending, so a test that
// injects a raw request and then awaits the server's error can see "converged"
// if the server needs longer than one polling interval). A failure counts only
// if it shows again, with the same signature, in at least 2 of 3 re-executions
// of the same case (truncated to the failing test for a suite pass) at the
// library's default polling interval. Failures that do not reproduce are
// counted in the evidence (unconfirmed_failures) and logged.
func runCase(c Case) *ev.Verdict {
	v := runOnce(c)
	if len(v.Findings) == 0 {
		return v
	}
	rc := c
	if c.Kind != "faulty" {
		// position of the failing test: everything behind it is irrelevant
		for _, f := range v.Findings {
			for i, n := range c.Order {
				if strings.HasSuffix(f.Sig, ":"+n) {
					rc.Order = append([]string(nil), c.Order[:i+1]...)
				}
			}
		}
	}
	old := client.BusyLoopDelay
	client.BusyLoopDelay = 100 * time.Millisecond
	defer func() { client.BusyLoopDelay = old }()
	again := 0
	for k := 0; k < 3; k++ {
		v2 := runOnce(rc)
		if v2.Inconclusive != "" {
			return v2
		}
		for _, f := range v.Findings {
			if v2.HasSig(f.Sig) {
				again++
				break
			}
		}
	}
	if again >= 2 {
		return v
	}
	if col := ev.C(); col != nil {
		col.AddExtraInt("unconfirmed_failures", 1)
	}
	fmt.Printf("UNCONFIRMED (reproduced in %d of 3 re-executions at the default polling interval, not reported): %s: %s\n", again, v.Findings[0].Sig, v.Findings[0].Msg)
	out := &ev.Verdict{NonTrivial: v.NonTrivial, Classes: append(v.Classes, "unconfirmed-failure")}
	return out
}

func TestReplay(t *testing.T) {
	setup()
	for _, f := range ev.ReplayFiles() {
		var c Case
		if err := ev.LoadCase(f, &c); err != nil {
			t.Fatalf("%s: %v", f, err)
		}
		v := runCase(c)
		if fresh := ev.C().Record(ev.JSON(c), v); len(fresh) > 0 {
			t.Errorf("%s: %v", f, fresh)
		}
	}
}

var bases = []uint64{1, 2, 255, 1 << 31, 1<<32 + 7, 1 << 53, 1 << 62}
var vrfs = []string{"NON-DEFAULT-VRF", "VRF-A", "vrf_b-2", "TE"}

func TestCampaign(t *testing.T) {
	setup()
	col := ev.C()
	t.Run("conformant-permutations", func(t *testing.T) {
		var names []string
		for _, tt := range compliance.TestSuite {
			names = append(names, tt.In.ShortName)
		}
		rapid.Check(t, func(rt *rapid.T) {
			c := Case{Kind: "conformant", ElecBase: bases[rapid.IntRange(0, len(bases)-1).Draw(rt, "base")], VRF: vrfs[rapid.IntRange(0, len(vrfs)-1).Draw(rt, "vrf")]}
			c.Order = rapid.Permutation(names).Draw(rt, "order")
			if rapid.IntRange(0, 2).Draw(rt, "variant?") == 0 {
				c.Variant = "reports-entry-status"
			}
			v := runCase(c)
			col.Check(rt, ev.JSON(c), v)
		})
	})
	t.Run("faulty-servers", func(t *testing.T) { campaignFaulty(t) })
	_ = sort.Strings
}
