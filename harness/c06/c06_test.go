package c06

import (
	"encoding/json"
	"fmt"
	"sort"
	"testing"

	"pgregory.net/rapid"

	"verifh/internal/ev"
	"verifh/internal/gen"
	"verifh/internal/hgen"
	"verifh/internal/model"
	"verifh/internal/sess"
)

func TestMain(m *testing.M) { ev.Main(m, "C06", "exploration") }

type Case struct {
	Script sess.Script `json:"script"`
	// InFlight (inflight_test.go): a hand-over while a cascade of held operations is being installed
	InFlight *InFlight `json:"inflight,omitempty"`
}

func setup() {
	c := ev.C()
	c.Rule = "multi-session Modify histories over in-process streams: 1-3 SINGLE_PRIMARY sessions (RIB-ack or FIB-ack), batches of 1-8 model-aimed operations over all five tables (held operations that later resolve or fail, empty and unknown network instance names, operations from non-primary sessions, wrong stamps), hand-over of the primary role between sessions while operations are held, operation ids counted per session from 1 so they overlap across sessions; plus dependency graphs in disturbed arrival orders sent by one elected session (held chains, dependencies deleted while waited for, doomed held REPLACEs). plus hand-overs in flight: the cascade that installs 1-6 held operations is stopped (public post-change hook) at a drawn installation, another session takes over (higher id or tie, optionally programming an entry), the cascade is released. Oracle over the whole history per stream, collected up to a barrier after every request: no result for an id that was not sent on that stream; per id the result sequence is one of [FAILED], [RIB_PROGRAMMED], [RIB_PROGRAMMED,FIB_PROGRAMMED] (FIB only if negotiated, never first, never a verdict twice, never failure and success); an operation without result must be held in the model, or its stream ended, or its session lost the primary role; with FIB ack every RIB ack is followed by its FIB ack; plus the RIB relation model and held-set hook after every request. Non-trivial = a held operation resolved or failed later, or a hand-over happened with >=1 operation held, or a request contained an empty/unknown network instance; distinct by FNV-64 of the case JSON. Later additions: held-backlog scope (255-4097 held operations, unrelated installs, single releases); non-first operation ids 0 and 2^61+1; clock steps."
	c.Assumptions = []string{"on fail-over the previous primary's held operations are dropped (gribi.proto: the server SHOULD stop processing them and MUST NOT answer them to the acquiring primary)"}
}

func runCase(c Case) *ev.Verdict {
	if c.InFlight != nil {
		return runInFlight(c)
	}
	v, st := sess.Run(c.Script, sess.Checks{P: "C06", Acct: true, Gate: true})
	if st.HeldResolved > 0 {
		v.Class("held-resolved")
	}
	if st.HeldFailed > 0 {
		v.Class("held-failed")
	}
	if st.HandoverHeld > 0 {
		v.Class("handover-with-held-ops")
	}
	if st.Handover > 0 {
		v.Class("handover")
	}
	if st.BadNI > 0 {
		v.Class("empty-or-unknown-ni")
	}
	if st.Rejected > 0 {
		v.Class("rejected-op")
	}
	v.NonTrivial = st.HeldResolved > 0 || st.HeldFailed > 0 || st.HandoverHeld > 0 || st.BadNI > 0
	return v
}

func TestReplay(t *testing.T) {
	setup()
	for _, f := range ev.ReplayFiles() {
		var c Case
		if err := ev.LoadCase(f, &c); err != nil {
			t.Fatalf("%s: %v", f, err)
		}
		for i := 0; i < 10; i++ {
			v := runCase(c)
			if fresh := ev.C().Record(ev.JSON(c), v); len(fresh) > 0 {
				t.Errorf("%s: %v", f, fresh)
				break
			}
		}
	}
}

func drawScript(rt *rapid.T) sess.Script {
	sc := sess.Script{FwdRefs: rapid.IntRange(0, 4).Draw(rt, "fwd") != 0}
	ns := rapid.IntRange(1, 3).Draw(rt, "sessions")
	fib := int32(rapid.IntRange(0, 1).Draw(rt, "fib"))
	cfg := hgen.DefaultCfg()
	cfg.FlushPct = 0
	belief := model.New("DEFAULT", hgen.NIs[1:], sc.FwdRefs)
	opid := map[int]uint64{}
	last := map[int]*gen.ID128{}
	started := map[int]bool{}
	var cur *gen.ID128
	prim := -1
	next := uint64(1)
	n := rapid.IntRange(3, 18).Draw(rt, "len")
	for i := 0; i < n; i++ {
		s := rapid.IntRange(0, ns-1).Draw(rt, "s")
		if !started[s] {
			started[s] = true
			sc.Steps = append(sc.Steps, sess.Step{S: s, K: "params", P: &sess.ParamSpec{Red: 1, Persist: 1, Ack: fib}})
		}
		k := rapid.IntRange(0, 19).Draw(rt, "kind")
		switch {
		case last[s] == nil || k < 3:
			// announce: usually take over with a higher id, sometimes equal or lower
			var id gen.ID128
			switch m := rapid.IntRange(0, 9).Draw(rt, "idkind"); {
			case cur == nil:
				id = gen.ID128{Hi: 0, Lo: next}
			case m < 7:
				next++
				id = gen.ID128{Hi: cur.Hi, Lo: cur.Lo + 1}
			case m == 7:
				id = *cur
			default:
				id = gen.ID128{Hi: 0, Lo: 1}
			}
			sc.Steps = append(sc.Steps, sess.Step{S: s, K: "elec", ID: &id})
			idc := id
			last[s] = &idc
			if cur == nil || id.Cmp(*cur) >= 0 {
				if prim != s {
					belief.Held = map[uint64]*model.Held{}
				}
				cur, prim = &idc, s
			}
		case k == 3 && ns > 1:
			sc.Steps = append(sc.Steps, sess.Step{S: s, K: []string{"halfclose", "cancel"}[rapid.IntRange(0, 1).Draw(rt, "how")]})
			delete(started, s)
			delete(last, s)
			delete(opid, s)
		default:
			nops := rapid.IntRange(1, 8).Draw(rt, "nops")
			var ops []*gen.Op
			for j := 0; j < nops; j++ {
				opid[s]++
				o := hgen.DrawOp(rt, belief, cfg, opid[s])
				stamp := *last[s]
				if rapid.IntRange(0, 14).Draw(rt, "wrongstamp") == 0 {
					stamp = gen.ID128{Hi: 7, Lo: 7}
				}
				o.Elec = &stamp
				switch rapid.IntRange(0, 24).Draw(rt, "badni") {
				case 0:
					o.NI = ""
				case 1:
					o.NI = "NO-SUCH-NI"
				}
				ops = append(ops, o)
				if s == prim && o.Elec.Cmp(*cur) == 0 && o.NI != "" && o.NI != "NO-SUCH-NI" {
					belief.BeliefApply(o.NI, o.Proto())
				}
			}
			sc.Steps = append(sc.Steps, sess.Step{S: s, K: "ops", Ops: ops})
		}
	}
	// operation ids are opaque to the protocol: in one script in three, one id of a session that
	// is not its first is replaced by 0 and another one by 2^61+1 (consistently within the script)
	if rapid.IntRange(0, 2).Draw(rt, "extreme-ids?") == 0 {
		bySess := map[int][]uint64{}
		for _, st := range sc.Steps {
			for _, o := range st.Ops {
				bySess[st.S] = append(bySess[st.S], o.ID)
			}
		}
		for sidx, ids := range bySess {
			_ = sidx
			if len(ids) < 3 {
				continue
			}
		}
		var cands []int
		for sidx, ids := range bySess {
			if len(ids) >= 3 {
				cands = append(cands, sidx)
			}
		}
		sort.Ints(cands)
		if len(cands) > 0 {
			sidx := cands[rapid.IntRange(0, len(cands)-1).Draw(rt, "extreme-session")]
			ids := bySess[sidx]
			a := ids[rapid.IntRange(1, len(ids)-1).Draw(rt, "zero-id-at")]
			b := ids[rapid.IntRange(0, len(ids)-1).Draw(rt, "max-id-at")]
			for si, st := range sc.Steps {
				if st.S != sidx {
					continue
				}
				for oi, o := range st.Ops {
					c := *o
					switch {
					case o.ID == a:
						c.ID = 0
					case o.ID == b:
						c.ID = 1<<61 + 1 // (ids from 2^62 are reserved for the harness's barriers)
					default:
						continue
					}
					sc.Steps[si].Ops[oi] = &c
				}
			}
		}
	}
	sess.DrawClock(rt, &sc, 5)
	return sc
}

// drawMassScript draws a script in which many operations (8-48 top-level
// entries over two groups) are held for missing next-hops and are then released
// by single operations, so that one ModifyResponse carries dozens of results
// (twice as many with FIB acknowledgement); optionally the primary role changes
// hands while they are held, and everything is deleted again at the end.
func drawMassScript(rt *rapid.T) sess.Script {
	sc := sess.Script{FwdRefs: true}
	fib := int32(0)
	if rapid.IntRange(0, 3).Draw(rt, "fib") != 0 {
		fib = 1
	}
	id1 := gen.ID128{Lo: 5}
	sc.Steps = append(sc.Steps, sess.Step{S: 0, K: "params", P: &sess.ParamSpec{Red: 1, Persist: 1, Ack: fib}}, sess.Step{S: 0, K: "elec", ID: &id1})
	sizes := []int{8, 13, 20, 33, 48, 63, 64, 65, 66, 100, 127, 128, 129}
	if ev.Thorough() {
		sizes = append(sizes, 255, 256, 257, 511, 512, 513)
	}
	n := sizes[rapid.IntRange(0, len(sizes)-1).Draw(rt, "held")]
	opid := uint64(0)
	mk := func(o *gen.Op) *gen.Op {
		opid++
		o.ID = opid
		st := id1
		o.Elec = &st
		return o
	}
	var ops []*gen.Op
	ops = append(ops, mk(&gen.Op{NI: "DEFAULT", Kind: gen.NHG, Act: gen.ADD, Key: "1", Hops: []gen.Hop{{Index: 1}, {Index: 2, Weight: gen.U(3)}}}))
	ops = append(ops, mk(&gen.Op{NI: "DEFAULT", Kind: gen.NHG, Act: gen.ADD, Key: "2", Hops: []gen.Hop{{Index: 2}}}))
	var tops []*gen.Op
	for i := 0; i < n; i++ {
		ni := hgen.NIs[rapid.IntRange(0, 2).Draw(rt, "ni")]
		g := uint64(rapid.IntRange(1, 2).Draw(rt, "group"))
		var o *gen.Op
		switch rapid.IntRange(0, 3).Draw(rt, "kind") {
		case 0:
			o = &gen.Op{NI: ni, Kind: gen.V6, Act: gen.ADD, Key: fmt.Sprintf("2001:db8:%x::/48", i+1), Group: g, GroupNI: "DEFAULT"}
		case 1:
			o = &gen.Op{NI: ni, Kind: gen.MPLS, Act: gen.ADD, Key: fmt.Sprint(1000 + i), Group: g, GroupNI: "DEFAULT"}
		default:
			o = &gen.Op{NI: ni, Kind: gen.V4, Act: gen.ADD, Key: fmt.Sprintf("10.%d.%d.0/24", i/200, i%200), Group: g, GroupNI: "DEFAULT"}
		}
		if rapid.IntRange(0, 9).Draw(rt, "replace?") == 0 {
			o.Act = gen.REPLACE // a held REPLACE of an absent key: must be FAILED when it is retried
		}
		tops = append(tops, o)
		ops = append(ops, mk(o))
	}
	// shuffle the held operations and pack them into requests of 1..20
	ops = rapid.Permutation(ops).Draw(rt, "order")
	for len(ops) > 0 {
		k := rapid.IntRange(1, 20).Draw(rt, "batch")
		if k > len(ops) {
			k = len(ops)
		}
		sc.Steps = append(sc.Steps, sess.Step{S: 0, K: "ops", Ops: ops[:k]})
		ops = ops[k:]
	}
	// release: next-hop 2 (releases group 2 and its entries), then next-hop 1 (group 1 and the rest)
	rel := []*gen.Op{mk(&gen.Op{NI: "DEFAULT", Kind: gen.NH, Act: gen.ADD, Key: "2", IP: "192.0.2.2"}), mk(&gen.Op{NI: "DEFAULT", Kind: gen.NH, Act: gen.ADD, Key: "1", IP: "192.0.2.1"})}
	if rapid.Bool().Draw(rt, "one-request") {
		sc.Steps = append(sc.Steps, sess.Step{S: 0, K: "ops", Ops: rel})
	} else {
		sc.Steps = append(sc.Steps, sess.Step{S: 0, K: "ops", Ops: rel[:1]}, sess.Step{S: 0, K: "ops", Ops: rel[1:]})
	}
	// delete everything again, top-level entries first, in large requests
	var dels []*gen.Op
	for _, o := range tops {
		dels = append(dels, mk(&gen.Op{NI: o.NI, Kind: o.Kind, Act: gen.DELETE, Key: o.Key, NoPayload: true}))
	}
	dels = append(dels, mk(&gen.Op{NI: "DEFAULT", Kind: gen.NHG, Act: gen.DELETE, Key: "1", NoPayload: true}), mk(&gen.Op{NI: "DEFAULT", Kind: gen.NHG, Act: gen.DELETE, Key: "2", NoPayload: true}),
		mk(&gen.Op{NI: "DEFAULT", Kind: gen.NH, Act: gen.DELETE, Key: "1", NoPayload: true}), mk(&gen.Op{NI: "DEFAULT", Kind: gen.NH, Act: gen.DELETE, Key: "2", NoPayload: true}))
	for len(dels) > 0 {
		k := rapid.IntRange(4, 30).Draw(rt, "delbatch")
		if k > len(dels) {
			k = len(dels)
		}
		sc.Steps = append(sc.Steps, sess.Step{S: 0, K: "ops", Ops: dels[:k]})
		dels = dels[k:]
	}
	return sc
}

// drawBacklogScript: a backlog of n operations (n around powers of two up to 4097), each held
// for its own missing group, builds up; then unrelated entries are installed (every install
// makes the server look at the whole backlog again) and a few of the backlog are released one
// by one. Nothing is ever released in bulk, so the cost stays linear in n per step.
func drawBacklogScript(rt *rapid.T) sess.Script {
	sc := sess.Script{FwdRefs: true}
	fib := int32(rapid.IntRange(0, 1).Draw(rt, "fib"))
	id1 := gen.ID128{Lo: 5}
	sc.Steps = append(sc.Steps, sess.Step{S: 0, K: "params", P: &sess.ParamSpec{Red: 1, Persist: 1, Ack: fib}}, sess.Step{S: 0, K: "elec", ID: &id1})
	sizes := []int{255, 256, 257, 511, 512, 513, 1023, 1024, 1025, 2047, 2048, 2049, 4095, 4096, 4097}
	n := sizes[rapid.IntRange(0, len(sizes)-1).Draw(rt, "backlog")]
	opid := uint64(0)
	mk := func(o *gen.Op) *gen.Op {
		opid++
		o.ID = opid
		st := id1
		o.Elec = &st
		return o
	}
	sc.Steps = append(sc.Steps, sess.Step{S: 0, K: "ops", Ops: []*gen.Op{mk(&gen.Op{NI: "DEFAULT", Kind: gen.NH, Act: gen.ADD, Key: "1", IP: "192.0.2.1"})}})
	var ops []*gen.Op
	for i := 0; i < n; i++ {
		ops = append(ops, mk(&gen.Op{NI: hgen.NIs[i%3], Kind: gen.V4, Act: gen.ADD, Key: fmt.Sprintf("10.%d.%d.0/24", i/250, i%250), Group: uint64(1000 + i), GroupNI: "DEFAULT"}))
	}
	per := rapid.IntRange(200, 1100).Draw(rt, "fill-batch")
	for len(ops) > 0 {
		k := min(per, len(ops))
		sc.Steps = append(sc.Steps, sess.Step{S: 0, K: "ops", Ops: ops[:k]})
		ops = ops[k:]
	}
	for j := rapid.IntRange(1, 3).Draw(rt, "events"); j > 0; j-- {
		if rapid.Bool().Draw(rt, "unrelated") {
			sc.Steps = append(sc.Steps, sess.Step{S: 0, K: "ops", Ops: []*gen.Op{mk(&gen.Op{NI: "DEFAULT", Kind: gen.NH, Act: gen.ADD, Key: fmt.Sprint(2 + j), IP: "192.0.2.9"})}})
		} else {
			g := uint64(1000 + rapid.IntRange(0, n-1).Draw(rt, "release"))
			sc.Steps = append(sc.Steps, sess.Step{S: 0, K: "ops", Ops: []*gen.Op{mk(&gen.Op{NI: "DEFAULT", Kind: gen.NHG, Act: gen.ADD, Key: fmt.Sprint(g), Hops: []gen.Hop{{Index: 1}}})}})
		}
	}
	return sc
}

func TestCampaign(t *testing.T) {
	setup()
	col := ev.C()
	t.Run("random", func(t *testing.T) {
		rapid.Check(t, func(rt *rapid.T) {
			c := Case{Script: drawScript(rt)}
			v := runCase(c)
			col.Check(rt, ev.JSON(c), v)
		})
	})
	t.Run("mass-resolution", func(t *testing.T) {
		rapid.Check(t, func(rt *rapid.T) {
			// one case in four is a mass script (they are 10-50 times as expensive), the rest are ordinary ones
			mass := rapid.IntRange(0, 3).Draw(rt, "mass?") == 2
			var c Case
			if rapid.IntRange(0, 79).Draw(rt, "backlog?") == 33 {
				c = Case{Script: drawBacklogScript(rt)}
				v := runCase(c)
				v.Class("held-backlog")
				col.Check(rt, ev.JSON(c), v)
				return
			}
			if mass {
				c = Case{Script: drawMassScript(rt)}
			} else {
				c = Case{Script: drawScript(rt)}
			}
			v := runCase(c)
			if mass {
				v.Class("mass-resolution")
			}
			col.Check(rt, ev.JSON(c), v)
		})
	})
	t.Run("handover-during-a-cascade", func(t *testing.T) {
		rapid.Check(t, func(rt *rapid.T) {
			if rapid.IntRange(0, 1).Draw(rt, "run?") != 0 {
				return
			}
			c := drawInFlight(rt)
			v := runCase(c)
			col.Check(rt, ev.JSON(c), v)
		})
	})
	t.Run("dependency-graphs", func(t *testing.T) {
		// one elected session sends the operations of a dependency graph in a disturbed order
		// (held chains, dependencies deleted while waited for, doomed held REPLACEs), packed into
		// requests of 1-6: every operation must get exactly one verdict unless the model holds it
		rapid.Check(t, func(rt *rapid.T) {
			if rapid.IntRange(0, 1).Draw(rt, "run?") != 0 {
				return
			}
			h := hgen.DrawGraph(rt)
			fib := int32(rapid.IntRange(0, 1).Draw(rt, "fib"))
			id := gen.ID128{Lo: 3}
			sc := sess.Script{FwdRefs: h.FwdRefs}
			sc.Steps = append(sc.Steps, sess.Step{S: 0, K: "params", P: &sess.ParamSpec{Red: 1, Persist: 1, Ack: fib}}, sess.Step{S: 0, K: "elec", ID: &id})
			var ops []*gen.Op
			flush := func() {
				if len(ops) > 0 {
					sc.Steps = append(sc.Steps, sess.Step{S: 0, K: "ops", Ops: ops})
					ops = nil
				}
			}
			size := rapid.IntRange(1, 6).Draw(rt, "batch")
			for _, st := range h.Steps {
				if st.Op == nil {
					continue
				}
				o := *st.Op
				stamp := id
				o.Elec = &stamp
				ops = append(ops, &o)
				if len(ops) >= size {
					flush()
					size = rapid.IntRange(1, 6).Draw(rt, "batch")
				}
			}
			flush()
			c := Case{Script: sc}
			v := runCase(c)
			v.Class("dependency-graph")
			col.Check(rt, ev.JSON(c), v)
		})
	})
	col.MinimizeAll(minimize)
}

func minimize(sig string, cs []byte) []byte {
	var c Case
	if err := json.Unmarshal(cs, &c); err != nil {
		return nil
	}
	if c.InFlight != nil {
		return cs
	}
	return ev.JSON(Case{Script: sess.Minimize(c.Script, ev.Bounded(func(s sess.Script) bool {
		for i := 0; i < 3; i++ {
			if runCase(Case{Script: s}).HasSig(sig) {
				return true
			}
		}
		return false
	}))})
}
