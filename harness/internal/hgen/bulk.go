package hgen

import (
	"fmt"

	"pgregory.net/rapid"

	"verifh/internal/gen"
)

// BulkCfg bounds DrawBulk.
type BulkCfg struct {
	MaxNH, MaxNHG, MaxTop, MaxHops int
	Churn                          int // number of replace/delete operations after the build-up
	// BuildOnly: only the build-up (no churn, flush or delete-everything epilogue).
	BuildOnly bool
}

// DefaultBulk is sized so that one history stays in the tens of milliseconds.
func DefaultBulk() BulkCfg {
	return BulkCfg{MaxNH: 72, MaxNHG: 40, MaxTop: 130, MaxHops: 16, Churn: 40}
}

// scale draws a count in [lo, max]: a third of the time from the top fifth of the
// range (limits sit there), otherwise anywhere.
func scale(t *rapid.T, lo, max int, label string) int {
	if max <= lo {
		return lo
	}
	if pct(t, 33, label+"-top?") {
		l := max - max/5
		if l < lo {
			l = lo
		}
		return rapid.IntRange(l, max).Draw(t, label)
	}
	return rapid.IntRange(lo, max).Draw(t, label)
}

// DrawBulk draws a history at a scale the small colliding universe never
// reaches: dozens of next-hops, groups with many members, a hundred-odd
// prefixes / labels over three network instances with cross-instance
// references, id ranges that straddle 2^32 or sit at 2^63, long label stacks;
// then replaces, deletes (some of which must be refused), an optional flush and a
// delete-everything epilogue. It is constructed from its own dependency
// structure (no belief model needed): forward references appear when the
// build-up is shuffled.
func DrawBulk(t *rapid.T, cfg BulkCfg) History {
	h := History{FwdRefs: rapid.IntRange(0, 3).Draw(t, "fwdrefs") != 0}
	base := []uint64{0, 0, 1<<32 - 5, 1 << 63, 1<<64 - 200}[rapid.IntRange(0, 4).Draw(t, "idbase")]
	nNH := scale(t, 2, cfg.MaxNH, "nnh")
	nNHG := scale(t, 1, cfg.MaxNHG, "nnhg")
	nTop := scale(t, 10, cfg.MaxTop, "ntop")
	// sometimes nearly everything lives in one network instance (per-instance limits)
	niW := []int{70, 20, 10}
	if pct(t, 40, "concentrate") {
		niW = []int{96, 2, 2}
	}
	id := uint64(0)
	mk := func(o *gen.Op) Step {
		id++
		o.ID = id
		return Step{Op: o}
	}
	type ref struct {
		ni  string
		key uint64
	}
	var nhs, nhgs []ref
	var build []Step
	for i := 0; i < nNH; i++ {
		ni := NIs[weighted(t, niW, "nhni")]
		k := base + uint64(i) + 1
		nhs = append(nhs, ref{ni, k})
		o := &gen.Op{NI: ni, Kind: gen.NH, Act: gen.ADD, Key: fmt.Sprint(k), IP: fmt.Sprintf("192.0.2.%d", i%250+1)}
		if pct(t, 15, "rich-nh") {
			DrawNHPayload(t, o, true, true)
		}
		if pct(t, 5, "long-stack") {
			for j := 0; j < rapid.IntRange(8, 20).Draw(t, "stack"); j++ {
				o.Pushed = append(o.Pushed, uint64(16+j*1000))
			}
		}
		build = append(build, mk(o))
	}
	byNI := map[string][]uint64{}
	for _, n := range nhs {
		byNI[n.ni] = append(byNI[n.ni], n.key)
	}
	for i := 0; i < nNHG; i++ {
		ni := NIs[weighted(t, niW, "nhgni")]
		pool := byNI[ni]
		if len(pool) == 0 {
			ni, pool = nhs[0].ni, byNI[nhs[0].ni]
		}
		k := base + uint64(i) + 1
		o := &gen.Op{NI: ni, Kind: gen.NHG, Act: gen.ADD, Key: fmt.Sprint(k)}
		nh := rapid.IntRange(1, cfg.MaxHops).Draw(t, "nhops")
		if nh > len(pool) {
			nh = len(pool)
		}
		perm := rapid.Permutation(pool).Draw(t, "hops")
		for _, x := range perm[:nh] {
			hp := gen.Hop{Index: x}
			if pct(t, 50, "w?") {
				hp.Weight = gen.U(pick(t, []uint64{0, 1, 2, 64, 1 << 32, 1<<64 - 1}, "w"))
			}
			o.Hops = append(o.Hops, hp)
		}
		if pct(t, 15, "backup?") && i > 0 {
			o.Backup = gen.U(base + uint64(rapid.IntRange(1, i).Draw(t, "backup")))
		}
		nhgs = append(nhgs, ref{ni, k})
		build = append(build, mk(o))
	}
	type top struct {
		ni, kind, key string
	}
	var tops []top
	topOp := func(tp top, act string) *gen.Op {
		g := nhgs[rapid.IntRange(0, len(nhgs)-1).Draw(t, "group")]
		o := &gen.Op{NI: tp.ni, Kind: tp.kind, Act: act, Key: tp.key, Group: g.key}
		if g.ni != tp.ni || pct(t, 10, "explicit-own-ni") {
			o.GroupNI = g.ni
		}
		if pct(t, 10, "meta") {
			o.Meta = pick(t, MetaVals, "metav")
		}
		return o
	}
	for i := 0; i < nTop; i++ {
		tp := top{ni: NIs[weighted(t, []int{50, 30, 20}, "topni")]}
		switch weighted(t, []int{70, 15, 15}, "topkind") {
		case 0:
			tp.kind, tp.key = gen.V4, fmt.Sprintf("10.%d.%d.0/24", i/250, i%250)
			if pct(t, 10, "host") {
				tp.key = fmt.Sprintf("10.%d.%d.1/32", i/250, i%250)
			}
		case 1:
			tp.kind, tp.key = gen.V6, fmt.Sprintf("2001:db8:%x::/48", i+1)
		default:
			tp.kind, tp.key = gen.MPLS, fmt.Sprint(16+i*8191%1048000)
		}
		tops = append(tops, tp)
		build = append(build, mk(topOp(tp, gen.ADD)))
	}
	if h.FwdRefs && pct(t, 40, "shuffle") {
		build = rapid.Permutation(build).Draw(t, "build-order")
	} else if pct(t, 30, "swap-some") {
		// a few forward references only
		for k := rapid.IntRange(1, 6).Draw(t, "swaps"); k > 0; k-- {
			a, b := rapid.IntRange(0, len(build)-1).Draw(t, "a"), rapid.IntRange(0, len(build)-1).Draw(t, "b")
			build[a], build[b] = build[b], build[a]
		}
	}
	h.Steps = append(h.Steps, build...)
	if cfg.BuildOnly {
		return h
	}
	// churn
	nch := rapid.IntRange(0, cfg.Churn).Draw(t, "churn")
	flushAt := -1
	if pct(t, 30, "flush?") {
		flushAt = rapid.IntRange(0, nch).Draw(t, "flush-at")
	}
	for i := 0; i <= nch; i++ {
		if i == flushAt {
			if pct(t, 60, "partial") {
				h.Steps = append(h.Steps, Step{Flush: []string{pick(t, NIs, "flushni")}})
			} else {
				h.Steps = append(h.Steps, Step{Flush: append([]string(nil), NIs...)})
			}
		}
		if i == nch {
			break
		}
		switch weighted(t, []int{35, 15, 25, 15, 10}, "churn-kind") {
		case 0: // retarget / replace a top-level entry
			tp := tops[rapid.IntRange(0, len(tops)-1).Draw(t, "top")]
			h.Steps = append(h.Steps, mk(topOp(tp, []string{gen.ADD, gen.REPLACE}[rapid.IntRange(0, 1).Draw(t, "act")])))
		case 1: // replace a group's member set
			g := nhgs[rapid.IntRange(0, len(nhgs)-1).Draw(t, "g")]
			pool := byNI[g.ni]
			o := &gen.Op{NI: g.ni, Kind: gen.NHG, Act: gen.ADD, Key: fmt.Sprint(g.key)}
			nh := rapid.IntRange(1, 4).Draw(t, "nh")
			if nh > len(pool) {
				nh = len(pool)
			}
			for _, x := range rapid.Permutation(pool).Draw(t, "hops2")[:nh] {
				o.Hops = append(o.Hops, gen.Hop{Index: x})
			}
			h.Steps = append(h.Steps, mk(o))
		case 2: // delete a top-level entry
			tp := tops[rapid.IntRange(0, len(tops)-1).Draw(t, "deltop")]
			h.Steps = append(h.Steps, mk(&gen.Op{NI: tp.ni, Kind: tp.kind, Act: gen.DELETE, Key: tp.key, NoPayload: true}))
		case 3: // try to delete a group (refused while referenced)
			g := nhgs[rapid.IntRange(0, len(nhgs)-1).Draw(t, "delg")]
			h.Steps = append(h.Steps, mk(&gen.Op{NI: g.ni, Kind: gen.NHG, Act: gen.DELETE, Key: fmt.Sprint(g.key), NoPayload: true}))
		default: // try to delete a next-hop
			n := nhs[rapid.IntRange(0, len(nhs)-1).Draw(t, "delnh")]
			h.Steps = append(h.Steps, mk(&gen.Op{NI: n.ni, Kind: gen.NH, Act: gen.DELETE, Key: fmt.Sprint(n.key), NoPayload: true}))
		}
	}
	// epilogue: delete everything top-down (a second pass bottom-up first would only repeat refusals)
	if pct(t, 60, "epilogue") {
		for _, tp := range tops {
			h.Steps = append(h.Steps, mk(&gen.Op{NI: tp.ni, Kind: tp.kind, Act: gen.DELETE, Key: tp.key, NoPayload: true}))
		}
		for _, g := range nhgs {
			h.Steps = append(h.Steps, mk(&gen.Op{NI: g.ni, Kind: gen.NHG, Act: gen.DELETE, Key: fmt.Sprint(g.key), NoPayload: true}))
		}
		for _, n := range nhs {
			h.Steps = append(h.Steps, mk(&gen.Op{NI: n.ni, Kind: gen.NH, Act: gen.DELETE, Key: fmt.Sprint(n.key), NoPayload: true}))
		}
	}
	return h
}
