// Package faults wraps the reference gRIBI server in a proxy that can break
// exactly one protocol requirement at a time (C19). The proxy implements the
// GRIBI service and forwards to the real server in-process through wrapped
// streams; it is served over an in-memory gRPC connection (bufconn).
package faults

import (
	"context"
	"net"
	"sync"

	"google.golang.org/grpc"
	"google.golang.org/grpc/credentials/insecure"
	"google.golang.org/grpc/test/bufconn"

	spb "github.com/openconfig/gribi/v1/proto/service"
	"github.com/openconfig/gribigo/server"
)

// Sess is the per-Modify-stream context handed to fault callbacks.
type Sess struct {
	P        *Proxy
	Idx      int
	GotMsg   int
	Params   *spb.SessionParameters
	LastElec *spb.Uint128
	Ended    bool
	send     func(*spb.ModifyResponse) error
	mu       sync.Mutex
	// Pending maps operation ids seen on this stream to the operation.
	Ops map[uint64]*spb.AFTOperation
	// Local queues responses that the proxy answers itself.
	State map[string]any
	// reject, when set by a fault, is the status the RPC of this session ends with.
	reject error
}

// Reject makes this session's Modify RPC end with err (the message being handled is not
// passed on to the reference server).
func (s *Sess) Reject(err error) {
	s.mu.Lock()
	defer s.mu.Unlock()
	s.reject = err
}

// Reply sends a response to this session's client directly.
func (s *Sess) Reply(m *spb.ModifyResponse) {
	s.mu.Lock()
	defer s.mu.Unlock()
	_ = s.send(m)
}

// Fault describes one broken requirement. All callbacks are optional.
type Fault struct {
	Name string
	// SrvOpts are extra options for the wrapped reference server.
	SrvOpts func() []server.ServerOpt
	// Request may rewrite a request (return it), drop it (return nil) and/or answer locally via s.Reply.
	Request func(s *Sess, req *spb.ModifyRequest) *spb.ModifyRequest
	// Response may rewrite a response from the reference server (nil = drop).
	Response func(s *Sess, resp *spb.ModifyResponse) *spb.ModifyResponse
	// Get may rewrite the stream of Get responses.
	Get func(p *Proxy, req *spb.GetRequest, resps []*spb.GetResponse) []*spb.GetResponse
	// ModifyErr, when set, is the status every Modify RPC ends with at once.
	ModifyErr error
	// ModifyStatus may rewrite the status a Modify RPC of the reference server ends with.
	ModifyStatus func(err error) error
	// GetEndErr, when set, is the status every Get RPC ends with after its (possibly
	// rewritten) responses were streamed.
	GetEndErr error
	// Flush may handle a flush itself (handled=true) or rewrite the request.
	Flush func(p *Proxy, req *spb.FlushRequest) (out *spb.FlushRequest, resp *spb.FlushResponse, err error, handled bool)
}

// Proxy is the (possibly faulty) server under test.
type Proxy struct {
	spb.UnimplementedGRIBIServer
	Inner *server.Server
	F     *Fault

	mu    sync.Mutex
	sess  []*Sess
	lis   *bufconn.Listener
	gs    *grpc.Server
	conns []*grpc.ClientConn
}

// New starts a proxy in front of a fresh reference server.
func New(f *Fault, vrfs []string, fwdRefs bool) *Proxy {
	var opts []server.ServerOpt
	if len(vrfs) > 0 {
		opts = append(opts, server.WithVRFs(vrfs))
	}
	if !fwdRefs {
		opts = append(opts, server.WithNoRIBForwardReferences())
	}
	if f != nil && f.SrvOpts != nil {
		opts = append(opts, f.SrvOpts()...)
	}
	in, err := server.New(opts...)
	if err != nil {
		panic(err)
	}
	p := &Proxy{Inner: in, F: f, lis: bufconn.Listen(1 << 20), gs: grpc.NewServer()}
	spb.RegisterGRIBIServer(p.gs, p)
	go p.gs.Serve(p.lis)
	return p
}

// Stub returns a gRPC client stub connected to the proxy over bufconn.
func (p *Proxy) Stub() spb.GRIBIClient {
	conn, err := grpc.NewClient("passthrough:///bufnet",
		grpc.WithContextDialer(func(ctx context.Context, _ string) (net.Conn, error) { return p.lis.DialContext(ctx) }),
		grpc.WithTransportCredentials(insecure.NewCredentials()))
	if err != nil {
		panic(err)
	}
	p.mu.Lock()
	p.conns = append(p.conns, conn)
	p.mu.Unlock()
	return spb.NewGRIBIClient(conn)
}

// Stop shuts the proxy down.
func (p *Proxy) Stop() {
	p.mu.Lock()
	conns := p.conns
	p.conns = nil
	p.mu.Unlock()
	for _, c := range conns {
		c.Close()
	}
	p.gs.Stop()
	p.lis.Close()
}

// Sessions returns the sessions opened so far.
func (p *Proxy) Sessions() []*Sess {
	p.mu.Lock()
	defer p.mu.Unlock()
	return append([]*Sess(nil), p.sess...)
}

type modWrap struct {
	spb.GRIBI_ModifyServer
	s *Sess
}

func (m *modWrap) Recv() (*spb.ModifyRequest, error) {
	for {
		req, err := m.GRIBI_ModifyServer.Recv()
		if err != nil {
			return nil, err
		}
		s := m.s
		s.GotMsg++
		for _, o := range req.GetOperation() {
			s.Ops[o.GetId()] = o
		}
		out := req
		if f := s.P.F; f != nil && f.Request != nil {
			out = f.Request(s, req)
		}
		s.mu.Lock()
		rej := s.reject
		s.mu.Unlock()
		if rej != nil {
			return nil, rej
		}
		if out == nil {
			continue // dropped (answered locally or swallowed)
		}
		if out.GetParams() != nil {
			s.Params = out.GetParams()
		}
		if out.GetElectionId() != nil {
			s.LastElec = out.GetElectionId()
		}
		return out, nil
	}
}

func (m *modWrap) Send(r *spb.ModifyResponse) error {
	s := m.s
	if f := s.P.F; f != nil && f.Response != nil {
		r = f.Response(s, r)
		if r == nil {
			return nil
		}
	}
	s.mu.Lock()
	defer s.mu.Unlock()
	return m.GRIBI_ModifyServer.Send(r)
}

// Modify implements the gRIBI service.
func (p *Proxy) Modify(stream spb.GRIBI_ModifyServer) error {
	if p.F != nil && p.F.ModifyErr != nil {
		return p.F.ModifyErr
	}
	s := &Sess{P: p, Ops: map[uint64]*spb.AFTOperation{}, State: map[string]any{}}
	s.send = stream.Send
	p.mu.Lock()
	s.Idx = len(p.sess)
	p.sess = append(p.sess, s)
	p.mu.Unlock()
	err := p.Inner.Modify(&modWrap{GRIBI_ModifyServer: stream, s: s})
	p.mu.Lock()
	s.Ended = true
	p.mu.Unlock()
	s.mu.Lock()
	rej := s.reject
	s.mu.Unlock()
	if rej != nil {
		return rej
	}
	if err != nil && p.F != nil && p.F.ModifyStatus != nil {
		return p.F.ModifyStatus(err)
	}
	return err
}

// LastAckType returns the acknowledgement type negotiated by the most recently opened Modify
// session whose parameters were accepted (RIB_ACK if there is none).
func (p *Proxy) LastAckType() spb.SessionParameters_AFTResultStatusType {
	p.mu.Lock()
	defer p.mu.Unlock()
	for i := len(p.sess) - 1; i >= 0; i-- {
		if pr := p.sess[i].Params; pr != nil {
			return pr.GetAckType()
		}
	}
	return spb.SessionParameters_RIB_ACK
}

// LiveNegotiated returns the number of sessions other than s whose RPC is still running and
// whose parameters were accepted.
func (p *Proxy) LiveNegotiated(s *Sess) int {
	p.mu.Lock()
	defer p.mu.Unlock()
	n := 0
	for _, o := range p.sess {
		if o != s && !o.Ended && o.Params != nil {
			n++
		}
	}
	return n
}

// Live returns the sessions whose Modify RPC is still running.
func (p *Proxy) Live() []*Sess {
	p.mu.Lock()
	defer p.mu.Unlock()
	var out []*Sess
	for _, s := range p.sess {
		if !s.Ended {
			out = append(out, s)
		}
	}
	return out
}

type getWrap struct {
	spb.GRIBI_GetServer
	out []*spb.GetResponse
}

func (g *getWrap) Send(r *spb.GetResponse) error {
	g.out = append(g.out, r)
	return nil
}

// Get implements the gRIBI service.
func (p *Proxy) Get(req *spb.GetRequest, stream spb.GRIBI_GetServer) error {
	if p.F == nil || (p.F.Get == nil && p.F.GetEndErr == nil) {
		return p.Inner.Get(req, stream)
	}
	gw := &getWrap{GRIBI_GetServer: stream}
	if err := p.Inner.Get(req, gw); err != nil {
		return err
	}
	out := gw.out
	if p.F.Get != nil {
		out = p.F.Get(p, req, out)
	}
	for _, r := range out {
		if err := stream.Send(r); err != nil {
			return err
		}
	}
	return p.F.GetEndErr
}

// Flush implements the gRIBI service.
func (p *Proxy) Flush(ctx context.Context, req *spb.FlushRequest) (*spb.FlushResponse, error) {
	if p.F != nil && p.F.Flush != nil {
		out, resp, err, handled := p.F.Flush(p, req)
		if handled {
			return resp, err
		}
		if out != nil {
			req = out
		}
	}
	return p.Inner.Flush(ctx, req)
}
