package c06

import (
	"fmt"
	"runtime"
	"sync/atomic"
	"time"

	"pgregory.net/rapid"

	spb "github.com/openconfig/gribi/v1/proto/service"
	"github.com/openconfig/gribigo/constants"
	"github.com/openconfig/gribigo/server"
	"github.com/openconfig/ygot/ygot"

	"verifh/internal/drive"
	"verifh/internal/ev"
	"verifh/internal/gen"
	"verifh/internal/hgen"
	"verifh/internal/l2"
)

// InFlight: the primary (session 0) has NHeld operations held for a missing next-hop (a
// group and NHeld-1 prefixes on it); it then sends the next-hop, which releases them all in one
// cascade. The server is stopped, through the public post-change hook, at the StallAt-th
// installation of that cascade; meanwhile session 1 announces a higher id (the hand-over), and
// optionally sends an operation; then the cascade is released. Whatever happens to the held
// operations at a hand-over, every operation id may see at most one verdict on its own stream
// (RIB before FIB), and nothing may reach the stream of the other session.
type InFlight struct {
	FIB     bool `json:"fib"`
	NHeld   int  `json:"nheld"`
	StallAt int  `json:"stallat"`
	// TieID: the second session announces the same id (takes over by tie) instead of a higher one
	TieID bool `json:"tieid,omitempty"`
	// OpByNew: the new primary programs an entry while the cascade is still stopped
	OpByNew bool `json:"opbynew,omitempty"`
}

func runInFlight(c Case) *ev.Verdict {
	v := &ev.Verdict{}
	f := c.InFlight
	fail := func(sig, format string, a ...any) { v.Fail("C06/"+sig, format, a...) }
	var armed atomic.Bool
	var adds int32
	stalled := make(chan struct{})
	release := make(chan struct{})
	hook := func(op constants.OpType, _ int64, _ string, _ ygot.ValidatedGoStruct) {
		if !armed.Load() {
			return
		}
		if int(atomic.AddInt32(&adds, 1)) == f.StallAt {
			close(stalled)
			<-release
		}
	}
	s := drive.NewSrv(true, hgen.NIs[1:], server.WithPostChangeRIBHook(hook))
	xs := []*drive.Session{s.Open(), nil}
	defer func() {
		select {
		case <-release:
		default:
			close(release)
		}
		for _, x := range xs {
			if x != nil {
				x.Close()
			}
		}
	}()
	setup := func(x *drive.Session, n int) bool {
		x.Send(drive.StdParams(f.FIB))
		rs, ended, hg := x.Barrier()
		if hg != nil || ended || len(rs) != n {
			l2.HangFinding(v, "C06", hg)
			if hg == nil {
				fail("setup", "parameters not accepted: ended=%v %v %v", ended, x.Err(), rs)
			}
			return false
		}
		return true
	}
	if !setup(xs[0], 1) {
		return v
	}
	xs[1] = s.Open()
	if !setup(xs[1], 1) {
		return v
	}
	idA := gen.ID128{Lo: 5}
	xs[0].Send(&spb.ModifyRequest{ElectionId: idA.Proto()})
	sentA := map[uint64]string{}
	var held []*gen.Op
	held = append(held, &gen.Op{ID: 1, NI: "DEFAULT", Kind: gen.NHG, Act: gen.ADD, Key: "1", Hops: []gen.Hop{{Index: 1}}, Elec: &idA})
	for i := 2; i <= f.NHeld; i++ {
		held = append(held, &gen.Op{ID: uint64(i), NI: hgen.NIs[i%3], Kind: gen.V4, Act: gen.ADD, Key: fmt.Sprintf("10.0.%d.0/24", i), Group: 1, GroupNI: "DEFAULT", Elec: &idA})
	}
	req := &spb.ModifyRequest{}
	for _, o := range held {
		req.Operation = append(req.Operation, o.Proto())
		sentA[o.ID] = o.String()
	}
	xs[0].Send(req)
	rs, ended, hg := xs[0].Barrier()
	if hg != nil || ended {
		l2.HangFinding(v, "C06", hg)
		if hg == nil {
			fail("setup", "primary ended: %v", xs[0].Err())
		}
		return v
	}
	results := [2]map[uint64][]spb.AFTResult_Status{{}, {}}
	collect := func(si int, ms []*spb.ModifyResponse, sent map[uint64]string, when string) {
		for _, m := range ms {
			for _, r := range m.GetResult() {
				if _, ok := sent[r.GetId()]; !ok {
					fail("foreign-result", "%s: session %d received a result for operation id %d (%v) which it never sent", when, si, r.GetId(), r.GetStatus())
					continue
				}
				results[si][r.GetId()] = append(results[si][r.GetId()], r.GetStatus())
			}
		}
	}
	collect(0, rs, sentA, "while the operations are held")
	for id, seq := range results[0] {
		if len(seq) > 0 {
			fail("setup", "operation %d should be held, got %v", id, seq)
			return v
		}
	}
	// the releasing operation; the cascade stops inside
	rel := &gen.Op{ID: 100, NI: "DEFAULT", Kind: gen.NH, Act: gen.ADD, Key: "1", IP: "192.0.2.1", Elec: &idA}
	sentA[100] = rel.String()
	armed.Store(true)
	if _, hg := xs[0].Send(&spb.ModifyRequest{Operation: []*spb.AFTOperation{rel.Proto()}}); hg != nil {
		l2.HangFinding(v, "C06", hg)
		return v
	}
	select {
	case <-stalled:
	case <-time.After(drive.Watchdog):
		v.Inconclusive = "the post-change hook was not reached"
		return v
	}
	armed.Store(false)
	// the hand-over
	idB := gen.ID128{Lo: 6}
	if f.TieID {
		idB = idA
	}
	sentB := map[uint64]string{}
	have := len(xs[1].Responses())
	if _, hg := xs[1].Send(&spb.ModifyRequest{ElectionId: idB.Proto()}); hg != nil {
		l2.HangFinding(v, "C06", hg)
		return v
	}
	waited := false
	deadline := time.Now().Add(drive.Watchdog)
	for len(xs[1].Responses()) == have && !xs[1].Ended() {
		if xs[1].ParkedOnLock() != "" {
			waited = true
			v.Class("handover-waits-for-the-cascade")
			break
		}
		if time.Now().After(deadline) {
			v.Inconclusive = "the announcement was neither answered nor parked on a lock"
			return v
		}
		runtime.Gosched()
	}
	if f.OpByNew && !waited {
		o := &gen.Op{ID: 1, NI: "DEFAULT", Kind: gen.NH, Act: gen.ADD, Key: "9", IP: "192.0.2.9", Elec: &idB}
		sentB[1] = o.String()
		// the instance's lock may be held by the stopped cascade: do not wait for the answer
		if _, hg := xs[1].Send(&spb.ModifyRequest{Operation: []*spb.AFTOperation{o.Proto()}}); hg != nil {
			l2.HangFinding(v, "C06", hg)
			return v
		}
	}
	close(release)
	for si, x := range xs {
		ms, ended, hg := x.Barrier()
		if hg != nil {
			l2.HangFinding(v, "C06", hg)
			return v
		}
		if ended {
			fail("session-ended", "session %d ended with %v", si, x.Err())
			return v
		}
		sent := sentA
		if si == 1 {
			sent = sentB
		}
		collect(si, ms, sent, "after the hand-over during the cascade")
	}
	for si := range results {
		for id, seq := range results[si] {
			bad := ""
			F, R, B := spb.AFTResult_FAILED, spb.AFTResult_RIB_PROGRAMMED, spb.AFTResult_FIB_PROGRAMMED
			switch {
			case len(seq) == 0:
			case len(seq) == 1 && (seq[0] == F || seq[0] == R):
			case len(seq) == 2 && seq[0] == R && seq[1] == B && f.FIB:
			default:
				bad = fmt.Sprint(seq)
			}
			if bad != "" {
				fail("result-sequence:in-flight-handover", "hand-over to another session while the cascade releasing %d held operations was stopped at its installation %d: operation %d of session %d received the result sequence %s", f.NHeld, f.StallAt, id, si, bad)
			}
		}
	}
	// the operation that was being processed when the server stopped must have been answered
	if seq := results[0][100]; len(seq) == 0 {
		fail("op-unanswered", "the releasing operation (in flight at the hand-over, installed) was never answered")
	}
	v.Class("in-flight-handover")
	v.NonTrivial = true
	return v
}

func drawInFlight(rt *rapid.T) Case {
	f := &InFlight{FIB: rapid.Bool().Draw(rt, "fib"), NHeld: rapid.IntRange(1, 6).Draw(rt, "nheld")}
	f.StallAt = rapid.IntRange(1, 1+f.NHeld).Draw(rt, "stallat")
	f.TieID = rapid.IntRange(0, 3).Draw(rt, "tie") == 0
	f.OpByNew = rapid.Bool().Draw(rt, "opbynew")
	return Case{InFlight: f}
}

var _ = ev.JSON
