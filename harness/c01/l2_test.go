package c01

import (
	"testing"

	"verifh/internal/ev"
)

func runL2(c Case) *ev.Verdict { return &ev.Verdict{} }

func campaignL2(t *testing.T) {}
