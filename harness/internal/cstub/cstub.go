// Package cstub is a scripted gribi.GRIBIClient: the harness plays the server
// side of the Modify stream. It obeys the gRPC client-stream contract: after a
// failed Send the status is delivered by Recv; after CloseSend a well-behaved
// server ends the stream with io.EOF.
package cstub

import (
	"context"
	"errors"
	"io"
	"sync"
	"time"

	"google.golang.org/grpc"
	"google.golang.org/grpc/metadata"

	spb "github.com/openconfig/gribi/v1/proto/service"
)

// Watchdog bounds every wait of the harness on the client under test.
var Watchdog = 20 * time.Second

type recvItem struct {
	m   *spb.ModifyResponse
	err error
}

// Stream is one Modify stream as seen by the "server" (the harness).
type Stream struct {
	mu   sync.Mutex
	cond *sync.Cond

	Sent      []*spb.ModifyRequest // pointers exactly as the client handed them to Send
	sendCalls int
	// FailSendAt: the k-th Send call (1-based) and all later ones fail with SendErr.
	FailSendAt int
	SendErr    error
	// BlockSendAt: the k-th Send call blocks until Release (flow control).
	BlockSendAt int
	release     chan struct{}
	releaseErr  error
	sendFailed  bool

	closedSend bool
	in         chan recvItem
	recvCalls  int
	ended      bool
	ctx        context.Context
}

// Stub implements spb.GRIBIClient.
type Stub struct {
	mu      sync.Mutex
	streams []*Stream
	// Next configures the next stream that Modify opens.
	Next func(*Stream)
	// ModifyErr makes Modify itself fail.
	ModifyErr error
}

func (s *Stub) Modify(ctx context.Context, _ ...grpc.CallOption) (grpc.BidiStreamingClient[spb.ModifyRequest, spb.ModifyResponse], error) {
	if s.ModifyErr != nil {
		return nil, s.ModifyErr
	}
	st := &Stream{in: make(chan recvItem, 1024), ctx: ctx, release: make(chan struct{})}
	st.cond = sync.NewCond(&st.mu)
	s.mu.Lock()
	if s.Next != nil {
		s.Next(st)
	}
	s.streams = append(s.streams, st)
	s.mu.Unlock()
	return &cstream{st}, nil
}

func (s *Stub) Get(context.Context, *spb.GetRequest, ...grpc.CallOption) (grpc.ServerStreamingClient[spb.GetResponse], error) {
	return nil, errors.New("cstub: Get not scripted")
}

func (s *Stub) Flush(context.Context, *spb.FlushRequest, ...grpc.CallOption) (*spb.FlushResponse, error) {
	return nil, errors.New("cstub: Flush not scripted")
}

// Stream returns the i-th stream opened so far (nil if not yet).
func (s *Stub) Stream(i int) *Stream {
	s.mu.Lock()
	defer s.mu.Unlock()
	if i < len(s.streams) {
		return s.streams[i]
	}
	return nil
}

// Streams returns how many streams were opened.
func (s *Stub) Streams() int {
	s.mu.Lock()
	defer s.mu.Unlock()
	return len(s.streams)
}

type cstream struct{ s *Stream }

func (c *cstream) Header() (metadata.MD, error) { return nil, nil }
func (c *cstream) Trailer() metadata.MD         { return nil }
func (c *cstream) Context() context.Context     { return c.s.ctx }
func (c *cstream) SendMsg(any) error            { return errors.New("unused") }
func (c *cstream) RecvMsg(any) error            { return errors.New("unused") }

func (c *cstream) CloseSend() error {
	s := c.s
	s.mu.Lock()
	defer s.mu.Unlock()
	if !s.closedSend {
		s.closedSend = true
		// a well-behaved server ends the RPC once the client half-closed
		s.in <- recvItem{err: io.EOF}
		s.cond.Broadcast()
	}
	return nil
}

func (c *cstream) Send(m *spb.ModifyRequest) error {
	s := c.s
	s.mu.Lock()
	s.sendCalls++
	n := s.sendCalls
	if s.FailSendAt > 0 && n >= s.FailSendAt {
		first := !s.sendFailed
		s.sendFailed = true
		err := s.SendErr
		if first {
			// the RPC status is what Recv reports after a failed Send
			s.in <- recvItem{err: err}
		}
		s.cond.Broadcast()
		s.mu.Unlock()
		return io.EOF // grpc-go: Send returns io.EOF, the real status comes from Recv
	}
	if s.BlockSendAt > 0 && n == s.BlockSendAt {
		s.cond.Broadcast()
		s.mu.Unlock()
		select {
		case <-s.release:
		case <-s.ctx.Done():
			return s.ctx.Err()
		}
		s.mu.Lock()
		if s.releaseErr != nil {
			// the stalled Send fails: the RPC broke while the client was blocked by flow control
			first := !s.sendFailed
			s.sendFailed = true
			s.FailSendAt = 1
			s.SendErr = s.releaseErr
			if first {
				s.in <- recvItem{err: s.releaseErr}
			}
			s.cond.Broadcast()
			s.mu.Unlock()
			return io.EOF
		}
	}
	s.Sent = append(s.Sent, m)
	s.cond.Broadcast()
	s.mu.Unlock()
	return nil
}

func (c *cstream) Recv() (*spb.ModifyResponse, error) {
	s := c.s
	s.mu.Lock()
	s.recvCalls++
	s.cond.Broadcast()
	s.mu.Unlock()
	select {
	case it := <-s.in:
		if it.err != nil {
			s.mu.Lock()
			s.ended = true
			s.cond.Broadcast()
			s.mu.Unlock()
		}
		return it.m, it.err
	case <-s.ctx.Done():
		return nil, s.ctx.Err()
	}
}

// Respond queues a response for the client's Recv.
func (s *Stream) Respond(m *spb.ModifyResponse) { s.in <- recvItem{m: m} }

// Fail makes the client's Recv return err (the RPC status).
func (s *Stream) Fail(err error) { s.in <- recvItem{err: err} }

// Release unblocks a Send blocked by BlockSendAt.
func (s *Stream) Release() { close(s.release) }

// ReleaseWithError makes the blocked Send (and every later one) fail with the
// RPC status err.
func (s *Stream) ReleaseWithError(err error) {
	s.mu.Lock()
	s.releaseErr = err
	s.mu.Unlock()
	close(s.release)
}

// SendCalls returns how often Send was called.
func (s *Stream) SendCalls() int {
	s.mu.Lock()
	defer s.mu.Unlock()
	return s.sendCalls
}

func (s *Stream) wait(pred func() bool) bool {
	timer := time.AfterFunc(Watchdog, func() {
		s.mu.Lock()
		s.cond.Broadcast()
		s.mu.Unlock()
	})
	defer timer.Stop()
	deadline := time.Now().Add(Watchdog)
	s.mu.Lock()
	defer s.mu.Unlock()
	for !pred() {
		if time.Now().After(deadline) {
			return false
		}
		s.cond.Wait()
	}
	return true
}

// WaitSent waits until n requests have reached the server.
func (s *Stream) WaitSent(n int) bool { return s.wait(func() bool { return len(s.Sent) >= n }) }

// WaitSendCalls waits until Send has been called n times (successful or not).
func (s *Stream) WaitSendCalls(n int) bool { return s.wait(func() bool { return s.sendCalls >= n }) }

// WaitRecvCalls waits until the client's receiver has called Recv n times:
// when call k+1 has started, response k has been fully processed.
func (s *Stream) WaitRecvCalls(n int) bool { return s.wait(func() bool { return s.recvCalls >= n }) }

// RecvCalls returns how often Recv was called.
func (s *Stream) RecvCalls() int {
	s.mu.Lock()
	defer s.mu.Unlock()
	return s.recvCalls
}

// SentCopy returns the requests received so far.
func (s *Stream) SentCopy() []*spb.ModifyRequest {
	s.mu.Lock()
	defer s.mu.Unlock()
	return append([]*spb.ModifyRequest(nil), s.Sent...)
}

// ClosedSend reports whether the client half-closed the stream.
func (s *Stream) ClosedSend() bool {
	s.mu.Lock()
	defer s.mu.Unlock()
	return s.closedSend
}
