#!/bin/bash
# usage: tools/regress_seeds.sh [seed-dir-glob]   (default: all seeds)
# Re-runs, for every seeded change, the quick check of the property it breaks (and the checks
# its meta.json lists as catching it) against a scratch worktree of /repo HEAD + the change,
# and prints one line per seed: CAUGHT / MISSED / NOAPPLY. /repo is never modified.
cd "$(dirname "$0")/.."
for d in ${1:-seeded/S*/}; do
  [ -f "$d/meta.json" ] || continue
  id=$(basename "$d")
  st=$(python3 -c "import json;m=json.load(open('$d/meta.json'));print('obsolete' if str(m.get('status','')).startswith('obsolete') else '')")
  if [ -n "$st" ]; then echo "OBSOLETE $id"; continue; fi
  checks=$(python3 -c "import json;m=json.load(open('$d/meta.json'));c=[m['breaks_property']]+[x for x in m.get('caught_by_quick',[]) if x!=m['breaks_property']];print(' '.join(c[:2]))")
  out=$(tools/try_seed.sh "$d" $checks 2>&1)
  if echo "$out" | grep -q "patch does not apply"; then echo "NOAPPLY $id"; continue; fi
  res=""
  for c in $checks; do
    if echo "$out" | grep -q "^$c .* exit 1"; then res="$res $c:caught"; elif echo "$out" | grep -q "^$c .* exit 0"; then res="$res $c:missed"; else res="$res $c:inconclusive"; fi
  done
  echo "RESULT $id$res"
done
