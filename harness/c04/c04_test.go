package c04

import (
	"encoding/json"
	"fmt"
	"testing"

	"pgregory.net/rapid"

	"verifh/internal/ev"
	"verifh/internal/gen"
	"verifh/internal/sess"
)

func TestMain(m *testing.M) { ev.Main(m, "C04", "exploration") }

type Case struct {
	Script sess.Script `json:"script"`
	// InFlight (inflight_test.go): announcements made while an operation of the primary is in flight
	InFlight *InFlight `json:"inflight,omitempty"`
}

func setup() {
	c := ev.C()
	c.Rule = "interleavings (harness-chosen, message granularity) of connect / negotiate / announce / operate / disconnect for 2-3 SINGLE_PRIMARY sessions; announced ids and the id stamped on each operation are drawn independently from a 128-bit lattice (equal ids, ids differing only in the high or only in the low word, stale, future, none); operations are next-hop ADD/REPLACE/DELETE with distinctive payloads so acceptance is visible. Rapid scripts of <=25 steps plus every script of <=4 (quick) / <=5 (thorough) steps over a 2-session alphabet with ids {1,2}^2. Plus in-flight schedules: the primary's request is stopped (public post-change hook) inside one of its operations, 1-5 announcements by up to 3 other sessions are delivered meanwhile (each followed until answered or until its handler is parked on a lock), the operation is released; at quiescence the election id and primary must be those the announcements produce in their order and exactly the primary's correctly stamped probe operation must be programmed. Oracle: an operation is accepted iff its session is the model's primary and stamp == session's last announced id == highest id; otherwise it must be answered FAILED (or end the RPC) and Get, held set, counters, election id and primary (hooks) must be unchanged; accepted operations follow the RIB model. Non-trivial = >=2 sessions have announced and >=1 operation was rejected and >=1 accepted; distinct by FNV-64 of the case JSON. Later additions: clock steps/freezes before drawn steps; servers started with an injected election id (NewFake+InjectElectionID); in-flight schedules in which clients of idle sessions go away."
	c.Assumptions = []string{"operations never become held (next-hops only), so hand-over with held operations is left to C06"}
}

func runCase(c Case) *ev.Verdict {
	if c.InFlight != nil {
		return runInFlight(c)
	}
	v, st := sess.Run(c.Script, sess.Checks{P: "C04", Gate: true, Election: true})
	if len(st.Announced) >= 2 {
		v.Class("two-announcers")
	}
	if st.Accepted > 0 {
		v.Class("accepted")
	}
	if st.Rejected > 0 {
		v.Class("rejected")
	}
	if st.OrderSensitive {
		v.Class("high-vs-low-word-order")
	}
	if st.Handover > 0 {
		v.Class("handover")
	}
	v.NonTrivial = len(st.Announced) >= 2 && st.Accepted > 0 && st.Rejected > 0
	return v
}

func TestReplay(t *testing.T) {
	setup()
	for _, f := range ev.ReplayFiles() {
		var c Case
		if err := ev.LoadCase(f, &c); err != nil {
			t.Fatalf("%s: %v", f, err)
		}
		for i := 0; i < 3; i++ {
			v := runCase(c)
			if fresh := ev.C().Record(ev.JSON(c), v); len(fresh) > 0 {
				t.Errorf("%s: %v", f, fresh)
				break
			}
		}
	}
}

var halves = []uint64{0, 1, 2, 1 << 32, ^uint64(0)}

func nhOp(id uint64, act string, key int, elec *gen.ID128) *gen.Op {
	o := &gen.Op{ID: id, NI: "DEFAULT", Kind: gen.NH, Act: act, Key: fmt.Sprint(key), Elec: elec}
	if act == gen.DELETE {
		o.NoPayload = true
	} else {
		o.IP = fmt.Sprintf("192.0.2.%d", id%250+1)
	}
	return o
}

func drawScript(rt *rapid.T) sess.Script {
	sc := sess.Script{FwdRefs: true}
	ns := rapid.IntRange(2, 3).Draw(rt, "sessions")
	fib := int32(rapid.IntRange(0, 1).Draw(rt, "fib"))
	n := rapid.IntRange(4, 25).Draw(rt, "len")
	started := map[int]bool{}
	last := map[int]*gen.ID128{}
	var all []gen.ID128
	var cur *gen.ID128
	opid := uint64(0)
	for i := 0; i < n; i++ {
		s := rapid.IntRange(0, ns-1).Draw(rt, "s")
		if !started[s] {
			started[s] = true
			sc.Steps = append(sc.Steps, sess.Step{S: s, K: "params", P: &sess.ParamSpec{Red: 1, Persist: 1, Ack: fib}})
		}
		switch k := rapid.IntRange(0, 19).Draw(rt, "kind"); {
		case k == 0:
			sc.Steps = append(sc.Steps, sess.Step{S: s, K: []string{"halfclose", "cancel", "fail"}[rapid.IntRange(0, 2).Draw(rt, "how")]})
			delete(started, s)
			delete(last, s)
			ns++ // a later step may open a fresh session under a new index
			if ns > 6 {
				ns = 6
			}
		case k < 7:
			var id gen.ID128
			switch m := rapid.IntRange(0, 5).Draw(rt, "idkind"); {
			case m == 0 && len(all) > 0:
				id = all[rapid.IntRange(0, len(all)-1).Draw(rt, "repeat")]
			case m == 1 && cur != nil:
				id = gen.ID128{Hi: cur.Hi, Lo: cur.Lo + 1}
			case m == 2 && cur != nil:
				id = gen.ID128{Hi: cur.Hi + 1, Lo: 0}
			default:
				id = gen.ID128{Hi: halves[rapid.IntRange(0, len(halves)-1).Draw(rt, "hi")], Lo: halves[rapid.IntRange(0, len(halves)-1).Draw(rt, "lo")]}
			}
			if id.IsZero() {
				id.Lo = 1
			}
			sc.Steps = append(sc.Steps, sess.Step{S: s, K: "elec", ID: &id})
			idc := id
			last[s] = &idc
			all = append(all, id)
			if cur == nil || id.Cmp(*cur) >= 0 {
				cur = &idc
			}
		default:
			nops := rapid.IntRange(1, 4).Draw(rt, "nops")
			var ops []*gen.Op
			for j := 0; j < nops; j++ {
				opid++
				var stamp *gen.ID128
				switch m := rapid.IntRange(0, 9).Draw(rt, "stamp"); {
				case m < 5 && last[s] != nil:
					x := *last[s]
					stamp = &x
				case m < 7 && cur != nil:
					x := *cur
					stamp = &x
				case m == 7 && len(all) > 0:
					x := all[rapid.IntRange(0, len(all)-1).Draw(rt, "stale")]
					stamp = &x
				case m == 8:
					x := gen.ID128{Hi: ^uint64(0), Lo: ^uint64(0)}
					stamp = &x
				case m == 9 && rapid.IntRange(0, 3).Draw(rt, "nil?") == 0:
					stamp = nil
				default:
					x := gen.ID128{Hi: halves[rapid.IntRange(0, len(halves)-1).Draw(rt, "shi")], Lo: halves[rapid.IntRange(1, len(halves)-1).Draw(rt, "slo")]}
					stamp = &x
				}
				act := []string{gen.ADD, gen.ADD, gen.REPLACE, gen.DELETE}[rapid.IntRange(0, 3).Draw(rt, "act")]
				ops = append(ops, nhOp(opid, act, rapid.IntRange(1, 3).Draw(rt, "key"), stamp))
			}
			sc.Steps = append(sc.Steps, sess.Step{S: s, K: "ops", Ops: ops})
		}
	}
	sess.DrawClock(rt, &sc, 8)
	if rapid.IntRange(0, 7).Draw(rt, "inject?") == 0 {
		// the server already knows an election id when the first session arrives
		sc.Inject = &gen.ID128{Hi: halves[rapid.IntRange(0, len(halves)-1).Draw(rt, "inject-hi")], Lo: halves[rapid.IntRange(0, len(halves)-1).Draw(rt, "inject-lo")]}
	}
	return sc
}

// alphabet of the exhaustive scope: 2 sessions, ids {1,2}^2, ops stamped with each id.
func alphabet() []sess.Step {
	var out []sess.Step
	ids := []gen.ID128{{Hi: 1, Lo: 1}, {Hi: 1, Lo: 2}, {Hi: 2, Lo: 1}}
	for s := 0; s < 2; s++ {
		for _, id := range ids {
			id := id
			out = append(out, sess.Step{S: s, K: "elec", ID: &id})
			out = append(out, sess.Step{S: s, K: "ops", Ops: []*gen.Op{nhOp(0, gen.ADD, s+1, &id)}})
		}
		out = append(out, sess.Step{S: s, K: "halfclose"})
	}
	return out
}

func TestCampaign(t *testing.T) {
	setup()
	col := ev.C()
	t.Run("exhaustive-small-scope", func(t *testing.T) {
		maxLen := ev.Pick("C04_EXH_LEN", 4, 5)
		al := alphabet()
		sk, ns := ev.Shard()
		for n := 1; n <= maxLen; n++ {
			total := 1
			for i := 0; i < n; i++ {
				total *= len(al)
			}
			cnt, bad := 0, 0
			for idx := 0; idx < total; idx++ {
				if idx%ns != sk {
					continue
				}
				sc := sess.Script{FwdRefs: true}
				sc.Steps = append(sc.Steps, sess.Step{S: 0, K: "params", P: &sess.ParamSpec{Red: 1, Persist: 1}}, sess.Step{S: 1, K: "params", P: &sess.ParamSpec{Red: 1, Persist: 1}})
				x := idx
				for i := 0; i < n; i++ {
					st := al[x%len(al)]
					x /= len(al)
					if st.K == "ops" {
						o := *st.Ops[0]
						o.ID = uint64(i + 1)
						o.IP = fmt.Sprintf("192.0.2.%d", i+1)
						st.Ops = []*gen.Op{&o}
					}
					sc.Steps = append(sc.Steps, st)
				}
				c := Case{Script: sc}
				v := runCase(c)
				cnt++
				if fresh := col.Record(ev.JSON(c), v); len(fresh) > 0 {
					bad++
					if bad <= 3 {
						t.Errorf("%s: %v", ev.JSON(c), fresh)
					}
				}
			}
			col.Scope(fmt.Sprintf("all scripts of %d steps over 2 sessions x {announce, stamped op} x ids {(1,1),(1,2),(2,1)} + disconnect", n), cnt, true)
		}
	})
	t.Run("announcements-while-an-operation-is-in-flight", func(t *testing.T) {
		rapid.Check(t, func(rt *rapid.T) {
			if rapid.IntRange(0, 2).Draw(rt, "run?") != 0 {
				return
			}
			c := drawInFlight(rt)
			v := runCase(c)
			col.Check(rt, ev.JSON(c), v)
		})
	})
	t.Run("random", func(t *testing.T) {
		rapid.Check(t, func(rt *rapid.T) {
			c := Case{Script: drawScript(rt)}
			v := runCase(c)
			col.Check(rt, ev.JSON(c), v)
		})
	})
	col.MinimizeAll(minimize)
}

func minimize(sig string, cs []byte) []byte {
	var c Case
	if err := json.Unmarshal(cs, &c); err != nil {
		return nil
	}
	if c.InFlight != nil {
		// shrink the announcement list
		f := *c.InFlight
		fails := ev.Bounded(func(s sess.Script) bool { return false })
		_ = fails
		for i := 0; i < len(f.Ann); {
			g := f
			g.Ann = append(append([]Ann(nil), f.Ann[:i]...), f.Ann[i+1:]...)
			if runCase(Case{InFlight: &g}).HasSig(sig) {
				f = g
			} else {
				i++
			}
		}
		return ev.JSON(Case{InFlight: &f})
	}
	return ev.JSON(Case{Script: sess.Minimize(c.Script, ev.Bounded(func(s sess.Script) bool { return runCase(Case{Script: s}).HasSig(sig) }))})
}
