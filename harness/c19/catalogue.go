package c19

import (
	"fmt"
	"net"
	"sort"
	"strings"
	"testing"
	"time"

	gspb "google.golang.org/genproto/googleapis/rpc/status"
	"google.golang.org/grpc/codes"
	"google.golang.org/grpc/status"
	"google.golang.org/protobuf/proto"
	"google.golang.org/protobuf/types/known/anypb"

	aftpb "github.com/openconfig/gribi/v1/proto/gribi_aft"
	spb "github.com/openconfig/gribi/v1/proto/service"
	"github.com/openconfig/gribigo/compliance"

	"verifh/internal/ev"
	"verifh/internal/faults"
	"verifh/internal/model"
	"verifh/internal/obs"
)

// entry of the catalogue: one broken requirement and the tests written for it.
type catEntry struct {
	Name string
	// Designated selects the tests written for the requirement (declared
	// intent only: Requires* flags, or names that state the requirement).
	Designated func(t *compliance.TestSpec) bool
	// Fault builds the faulty server behaviour (nil = reference server with other options).
	Fault func() *faults.Fault
	// FwdRefs overrides the forward-reference option of the wrapped server (nil = as the test requires).
	FwdRefs *bool
	// Slow pairs make a client wait for the suite's one-minute timeout: thorough only.
	Slow bool
	// QuickOne names one designated test of a Slow entry that is run in the quick tier all the same.
	QuickOne string
	// Attempts: the designated test itself randomises (math/rand) the order of its operations, so it
	// may legitimately pass against the faulty server now and then; it must fail at least once in
	// Attempts runs (default and minimum 3).
	Attempts int
}

func names(ns ...string) func(*compliance.TestSpec) bool {
	return func(t *compliance.TestSpec) bool {
		for _, n := range ns {
			if strings.HasPrefix(t.In.ShortName, n) {
				return true
			}
		}
		return false
	}
}

func bp(b bool) *bool { return &b }

func installed(p *faults.Proxy, ni string, op *spb.AFTOperation) bool {
	st, err := obs.FromRIB(p.Inner.VerifRIB())
	if err != nil {
		return false
	}
	k, ok := model.KeyOf(ni, op)
	if !ok {
		return false
	}
	_, in := st[k]
	return in
}

func fibMode(s *faults.Sess) bool {
	return s.Params.GetAckType() == spb.SessionParameters_RIB_AND_FIB_ACK
}

func okResults(s *faults.Sess, id uint64) *spb.ModifyResponse {
	r := &spb.ModifyResponse{Result: []*spb.AFTResult{{Id: id, Status: spb.AFTResult_RIB_PROGRAMMED}}}
	if fibMode(s) {
		r.Result = append(r.Result, &spb.AFTResult{Id: id, Status: spb.AFTResult_FIB_PROGRAMMED})
	}
	return r
}

func failResult(id uint64, msg string) *spb.ModifyResponse {
	return &spb.ModifyResponse{Result: []*spb.AFTResult{{Id: id, Status: spb.AFTResult_FAILED, ErrorDetails: &spb.AFTErrorDetails{ErrorMessage: msg}}}}
}

// filterOps answers some operations locally and forwards the others.
func filterOps(s *faults.Sess, req *spb.ModifyRequest, local func(o *spb.AFTOperation) *spb.ModifyResponse) *spb.ModifyRequest {
	if len(req.GetOperation()) == 0 {
		return req
	}
	out := proto.Clone(req).(*spb.ModifyRequest)
	out.Operation = nil
	for _, o := range req.GetOperation() {
		if r := local(o); r != nil {
			s.Reply(r)
			continue
		}
		out.Operation = append(out.Operation, o)
	}
	if len(out.Operation) == 0 {
		return nil
	}
	return out
}

func opKind(o *spb.AFTOperation) string { return model.KindOf(o) }

func catalogue() []catEntry {
	return []catEntry{
		{
			Name:       "fib-ack-never-positive",
			Designated: func(t *compliance.TestSpec) bool { return t.In.RequiresFIBACK },
			Fault: func() *faults.Fault {
				return &faults.Fault{Response: func(s *faults.Sess, r *spb.ModifyResponse) *spb.ModifyResponse {
					for _, x := range r.GetResult() {
						if x.GetStatus() == spb.AFTResult_FIB_PROGRAMMED {
							x.Status = spb.AFTResult_FIB_FAILED
						}
					}
					return r
				}}
			},
		},
		{
			Name: "non-primary-operations-acknowledged",
			Designated: names("Election - Unannounced master operations are rejected", "Election - Incrementing election ID is honoured, and older IDs are rejected",
				"Election - Sending same election ID from two clients"),
			Fault: func() *faults.Fault {
				return &faults.Fault{Response: func(s *faults.Sess, r *spb.ModifyResponse) *spb.ModifyResponse {
					for _, x := range r.GetResult() {
						// the reference server rejects for election reasons with a FAILED that carries no details
						if x.GetStatus() == spb.AFTResult_FAILED && x.GetErrorDetails() == nil {
							x.Status = spb.AFTResult_RIB_PROGRAMMED
						}
					}
					return r
				}}
			},
		},
		{
			Name:       "idempotent-delete-fails",
			Designated: func(t *compliance.TestSpec) bool { return t.In.RequiresIdempotentDelete },
			Fault: func() *faults.Fault {
				return &faults.Fault{Request: func(s *faults.Sess, req *spb.ModifyRequest) *spb.ModifyRequest {
					return filterOps(s, req, func(o *spb.AFTOperation) *spb.ModifyResponse {
						if o.GetOp() == spb.AFTOperation_DELETE && !installed(s.P, o.GetNetworkInstance(), o) {
							return failResult(o.GetId(), "entry does not exist")
						}
						return nil
					})
				}}
			},
		},
		getDrop("get-omits-next-hops", "nh", "Get for installed NH -", "Get for installed chain of entries"),
		getDrop("get-omits-next-hop-groups", "nhg", "Get for installed NHG", "Get for installed chain of entries"),
		getDrop("get-omits-ipv4", "v4", "Get for installed IPv4 Entry", "Get for installed chain of entries"),
		getDrop("get-omits-ipv6", "v6", "Get for installed IPv6 Entry"),
		{
			Name:       "get-returns-nothing",
			Designated: names("Get for installed"),
			Fault: func() *faults.Fault {
				return &faults.Fault{Get: func(p *faults.Proxy, req *spb.GetRequest, rs []*spb.GetResponse) []*spb.GetResponse { return nil }}
			},
		},
		{
			// the data is complete, but the RPC does not succeed: a failed Get is not an answer
			Name:       "get-ends-with-error-after-the-data",
			Designated: names("Get for installed"),
			Fault: func() *faults.Fault {
				return &faults.Fault{GetEndErr: status.Error(codes.Unavailable, "get: backend went away")}
			},
		},
		{
			Name:       "get-ends-with-error-after-the-first-response",
			Designated: names("Get for installed"),
			Fault: func() *faults.Fault {
				return &faults.Fault{GetEndErr: status.Error(codes.Internal, "get: cannot read the table"),
					Get: func(p *faults.Proxy, req *spb.GetRequest, rs []*spb.GetResponse) []*spb.GetResponse {
						if len(rs) > 1 {
							rs = rs[:1]
						}
						return rs
					}}
			},
		},
		{
			Name: "flush-ignored",
			Designated: names("Flush of all entries in default NI by elected master", "Flush from client overriding election is honoured",
				"Flush to specific network instance is honoured", "Flush all network instances"),
			Fault: func() *faults.Fault {
				return &faults.Fault{Flush: func(p *faults.Proxy, req *spb.FlushRequest) (*spb.FlushRequest, *spb.FlushResponse, error, bool) {
					return nil, &spb.FlushResponse{Result: spb.FlushResponse_OK}, nil, true
				}}
			},
		},
		{
			Name:       "flush-not-election-gated",
			Designated: names("Flush from non-elected master returns error"),
			Fault: func() *faults.Fault {
				return &faults.Fault{Flush: func(p *faults.Proxy, req *spb.FlushRequest) (*spb.FlushRequest, *spb.FlushResponse, error, bool) {
					out := proto.Clone(req).(*spb.FlushRequest)
					if out.GetId() != nil {
						out.Election = &spb.FlushRequest_Override{Override: &spb.Empty{}}
					}
					return out, nil, nil, false
				}}
			},
		},
		{
			Name:       "flush-without-network-instance-accepted",
			Designated: names("Flush without specifying network instance returns error"),
			Fault: func() *faults.Fault {
				return &faults.Fault{Flush: func(p *faults.Proxy, req *spb.FlushRequest) (*spb.FlushRequest, *spb.FlushResponse, error, bool) {
					out := proto.Clone(req).(*spb.FlushRequest)
					if out.GetNetworkInstance() == nil {
						out.NetworkInstance = &spb.FlushRequest_All{All: &spb.Empty{}}
					}
					return out, nil, nil, false
				}}
			},
		},
		{
			Name:       "flush-of-named-instance-empties-all",
			Designated: names("Flush non-default network instances preserves the default", "Flush to specific network instance is honoured"),
			Fault: func() *faults.Fault {
				return &faults.Fault{Flush: func(p *faults.Proxy, req *spb.FlushRequest) (*spb.FlushRequest, *spb.FlushResponse, error, bool) {
					out := proto.Clone(req).(*spb.FlushRequest)
					if _, ok := out.GetNetworkInstance().(*spb.FlushRequest_Name); ok {
						out.NetworkInstance = &spb.FlushRequest_All{All: &spb.Empty{}}
					}
					return out, nil, nil, false
				}}
			},
		},
		{
			Name:       "election-id-echoed-instead-of-maximum",
			Designated: names("Election - Lower election ID from new client", "Election - Decrementing election ID is ignored"),
			Fault: func() *faults.Fault {
				return &faults.Fault{Response: func(s *faults.Sess, r *spb.ModifyResponse) *spb.ModifyResponse {
					if r.GetElectionId() != nil && s.LastElec != nil {
						r.ElectionId = proto.Clone(s.LastElec).(*spb.Uint128)
					}
					return r
				}}
			},
		},
		{
			Name:       "repeated-session-parameters-accepted",
			Designated: names("Modify RPC Connection with repeated SessionParameters"),
			Fault: func() *faults.Fault {
				return &faults.Fault{Request: func(s *faults.Sess, req *spb.ModifyRequest) *spb.ModifyRequest {
					if req.GetParams() != nil && s.Params != nil {
						s.Reply(&spb.ModifyResponse{SessionParamsResult: &spb.SessionParametersResult{Status: spb.SessionParametersResult_OK}})
						return nil
					}
					return req
				}}
			},
		},
		{
			Name:       "multi-field-request-accepted",
			Designated: names("Invalid updated election ID and AFTOperation in same ModifyRequest", "Invalid update election ID and SessionParams in same ModifyRequest", "Invalid session params and AFT operation in same ModifyRequest"),
			Fault: func() *faults.Fault {
				return &faults.Fault{Request: func(s *faults.Sess, req *spb.ModifyRequest) *spb.ModifyRequest {
					n := 0
					if req.GetParams() != nil {
						n++
					}
					if req.GetElectionId() != nil {
						n++
					}
					if len(req.GetOperation()) > 0 {
						n++
					}
					if n < 2 {
						return req
					}
					// honour the first populated field, acknowledge the rest locally
					out := &spb.ModifyRequest{}
					switch {
					case req.GetParams() != nil:
						out.Params = req.GetParams()
						if req.GetElectionId() != nil {
							s.Reply(&spb.ModifyResponse{ElectionId: req.GetElectionId()})
						}
					case req.GetElectionId() != nil:
						out.ElectionId = req.GetElectionId()
					}
					for _, o := range req.GetOperation() {
						s.Reply(okResults(s, o.GetId()))
					}
					return out
				}}
			},
		},
		{
			Name:       "zero-election-id-accepted",
			Designated: names("Election - Sending election ID as zero"),
			Fault: func() *faults.Fault {
				return &faults.Fault{Request: func(s *faults.Sess, req *spb.ModifyRequest) *spb.ModifyRequest {
					if e := req.GetElectionId(); e != nil && e.GetHigh() == 0 && e.GetLow() == 0 && len(req.GetOperation()) == 0 && req.GetParams() == nil {
						s.Reply(&spb.ModifyResponse{ElectionId: &spb.Uint128{}})
						return nil
					}
					return req
				}}
			},
		},
		{
			Name:       "all-primary-with-preserve-accepted",
			Designated: names("Modify RPC Connection with invalid persist/redundancy parameters"),
			Fault: func() *faults.Fault {
				return &faults.Fault{Request: func(s *faults.Sess, req *spb.ModifyRequest) *spb.ModifyRequest {
					if p := req.GetParams(); p != nil && p.GetRedundancy() == spb.SessionParameters_ALL_PRIMARY && p.GetPersistence() == spb.SessionParameters_PRESERVE {
						s.Params = p
						s.Reply(&spb.ModifyResponse{SessionParamsResult: &spb.SessionParametersResult{Status: spb.SessionParametersResult_OK}})
						return nil
					}
					return req
				}}
			},
		},
		{
			Name:       "election-id-in-all-primary-accepted",
			Designated: names("Election - Ensure that election ID is not accepted in ALL_PRIMARY mode"),
			Fault: func() *faults.Fault {
				return &faults.Fault{Request: func(s *faults.Sess, req *spb.ModifyRequest) *spb.ModifyRequest {
					if p := req.GetParams(); p != nil && p.GetRedundancy() == spb.SessionParameters_ALL_PRIMARY {
						s.Params = p
						s.Reply(&spb.ModifyResponse{SessionParamsResult: &spb.SessionParametersResult{Status: spb.SessionParametersResult_OK}})
						return nil
					}
					if e := req.GetElectionId(); e != nil && (s.Params == nil || s.Params.GetRedundancy() == spb.SessionParameters_ALL_PRIMARY) {
						s.Reply(&spb.ModifyResponse{ElectionId: e})
						return nil
					}
					return req
				}}
			},
		},
		{
			Name:       "mismatched-session-parameters-accepted",
			Designated: names("Election - Ensure that a client with mismatched parameters is rejected", "Election - Ensure client with differing parameters is rejected"),
			Fault: func() *faults.Fault {
				return &faults.Fault{Request: func(s *faults.Sess, req *spb.ModifyRequest) *spb.ModifyRequest {
					if p := req.GetParams(); p != nil {
						for _, o := range s.P.Sessions() {
							if o != s && o.Params != nil && !proto.Equal(o.Params, p) {
								out := proto.Clone(req).(*spb.ModifyRequest)
								out.Params = proto.Clone(o.Params).(*spb.SessionParameters)
								return out
							}
						}
					}
					return req
				}}
			},
		},
		{
			Name:       "implicit-replace-refused",
			Designated: func(t *compliance.TestSpec) bool { return t.In.RequiresImplicitReplace },
			Fault: func() *faults.Fault {
				return &faults.Fault{Request: func(s *faults.Sess, req *spb.ModifyRequest) *spb.ModifyRequest {
					return filterOps(s, req, func(o *spb.AFTOperation) *spb.ModifyResponse {
						if o.GetOp() == spb.AFTOperation_ADD && installed(s.P, o.GetNetworkInstance(), o) {
							return failResult(o.GetId(), "entry exists")
						}
						return nil
					})
				}}
			},
		},
		{
			Name:       "replace-of-missing-entry-accepted",
			Designated: names("Ensure failure for a NH entry that does not exist", "Ensure failure for a NHG entry that does not exist", "Ensure failure for an IPv4 entry that does not exist"),
			Fault: func() *faults.Fault {
				return &faults.Fault{Request: func(s *faults.Sess, req *spb.ModifyRequest) *spb.ModifyRequest {
					out := proto.Clone(req).(*spb.ModifyRequest)
					for _, o := range out.GetOperation() {
						if o.GetOp() == spb.AFTOperation_REPLACE && !installed(s.P, o.GetNetworkInstance(), o) {
							o.Op = spb.AFTOperation_ADD
						}
					}
					return out
				}}
			},
		},
		{
			Name:       "referenced-delete-allowed",
			Designated: names("Delete NHG entry that is referenced - failure", "Delete NH entry that is referenced - failure"),
			Fault: func() *faults.Fault {
				return &faults.Fault{Response: func(s *faults.Sess, r *spb.ModifyResponse) *spb.ModifyResponse {
					var extra []*spb.AFTResult
					for _, x := range r.GetResult() {
						o := s.Ops[x.GetId()]
						if x.GetStatus() == spb.AFTResult_FAILED && o != nil && o.GetOp() == spb.AFTOperation_DELETE && (opKind(o) == "nh" || opKind(o) == "nhg") {
							x.Status = spb.AFTResult_RIB_PROGRAMMED
							x.ErrorDetails = nil
							if fibMode(s) {
								extra = append(extra, &spb.AFTResult{Id: x.GetId(), Status: spb.AFTResult_FIB_PROGRAMMED})
							}
						}
					}
					r.Result = append(r.Result, extra...)
					return r
				}}
			},
		},
		{
			Name:       "unknown-network-instance-accepted",
			Designated: names("Add to a nonexistent network instance"),
			Fault: func() *faults.Fault {
				return &faults.Fault{Request: func(s *faults.Sess, req *spb.ModifyRequest) *spb.ModifyRequest {
					out := proto.Clone(req).(*spb.ModifyRequest)
					for _, o := range out.GetOperation() {
						if _, ok := s.P.Inner.VerifRIB().NetworkInstanceRIB(o.GetNetworkInstance()); !ok {
							o.NetworkInstance = "DEFAULT"
						}
					}
					return out
				}}
			},
		},
		{
			Name:       "invalid-prefix-accepted",
			Designated: names("Error: Invalid prefix for the IPv4Entry"),
			Fault: func() *faults.Fault {
				return &faults.Fault{Response: func(s *faults.Sess, r *spb.ModifyResponse) *spb.ModifyResponse {
					var extra []*spb.AFTResult
					defer func() { r.Result = append(r.Result, extra...) }()
					for _, x := range r.GetResult() {
						o := s.Ops[x.GetId()]
						if x.GetStatus() == spb.AFTResult_FAILED && o != nil && o.GetIpv4() != nil {
							if _, _, err := net.ParseCIDR(o.GetIpv4().GetPrefix()); err != nil {
								x.Status = spb.AFTResult_RIB_PROGRAMMED
								x.ErrorDetails = nil
								if fibMode(s) {
									extra = append(extra, &spb.AFTResult{Id: x.GetId(), Status: spb.AFTResult_FIB_PROGRAMMED})
								}
							}
						}
					}
					return r
				}}
			},
		},
		{
			Name:       "results-leaked-to-other-clients",
			Designated: names("AFTOperation responses must not be sent to other clients"),
			Fault: func() *faults.Fault {
				return &faults.Fault{Response: func(s *faults.Sess, r *spb.ModifyResponse) *spb.ModifyResponse {
					if len(r.GetResult()) > 0 {
						// the other client's stream may still be being set up: give it a moment
						// so that the fault does not depend on connection timing
						var others []*faults.Sess
						for i := 0; i < 2000 && len(others) == 0; i++ {
							for _, o := range s.P.Live() {
								if o != s {
									others = append(others, o)
								}
							}
							if len(others) == 0 {
								time.Sleep(time.Millisecond)
							}
						}
						for _, o := range others {
							o.Reply(proto.Clone(r).(*spb.ModifyResponse))
						}
					}
					return r
				}}
			},
		},
		{
			Name:       "entries-lost-when-primary-changes",
			Designated: names("Election - Active entries after new master connects"),
			Fault: func() *faults.Fault {
				return &faults.Fault{Request: func(s *faults.Sess, req *spb.ModifyRequest) *spb.ModifyRequest {
					if req.GetElectionId() != nil && s.Idx > 0 && s.LastElec == nil {
						s.P.Inner.VerifRIB().Flush(s.P.Inner.VerifRIB().KnownNetworkInstances())
					}
					return req
				}}
			},
		},
		{
			Name:       "no-server-side-reordering",
			Designated: func(t *compliance.TestSpec) bool { return t.In.RequiresServerReordering },
			FwdRefs:    bp(false),
			Attempts:   12, // the test shuffles 3 operations: 1 order in 6 has no forward reference
		},
		{
			Name:       "forward-references-accepted",
			Designated: func(t *compliance.TestSpec) bool { return t.In.RequiresDisallowedForwardReferences },
			FwdRefs:    bp(true),
			Slow:       true, // held operations are never answered: the client waits for the one-minute timeout
		},
		// acknowledgements reported with a status value other than the one the session negotiated:
		// the deprecated OK (1) instead of RIB_PROGRAMMED and no FIB acknowledgement at all, or
		// the unset value (0)
		{
			Name:       "acks-use-deprecated-ok-status-and-no-fib-ack",
			Designated: func(t *compliance.TestSpec) bool { return t.In.RequiresFIBACK },
			Slow:       true, // the client keeps waiting for the acknowledgement it asked for
			QuickOne:   "Add IPv4 entry that can be programmed on the server - with FIB ACK",
			Fault: func() *faults.Fault {
				return &faults.Fault{Response: func(s *faults.Sess, r *spb.ModifyResponse) *spb.ModifyResponse {
					var keep []*spb.AFTResult
					for _, x := range r.GetResult() {
						switch x.GetStatus() {
						case spb.AFTResult_FIB_PROGRAMMED:
							continue
						case spb.AFTResult_RIB_PROGRAMMED:
							x.Status = spb.AFTResult_OK
						}
						keep = append(keep, x)
					}
					if len(r.GetResult()) > 0 && len(keep) == 0 {
						return nil
					}
					r.Result = keep
					return r
				}}
			},
		},
		{
			Name: "rib-acks-carry-the-unset-status",
			Designated: names("Add IPv4 entry that can be programmed on the server - with RIB ACK",
				"Add next-hop-group entry that can be resolved on the server, no referencing IPv4 entries - with RIB ACK"),
			Slow: true,
			Fault: func() *faults.Fault {
				return &faults.Fault{Response: func(s *faults.Sess, r *spb.ModifyResponse) *spb.ModifyResponse {
					for _, x := range r.GetResult() {
						if x.GetStatus() == spb.AFTResult_RIB_PROGRAMMED {
							x.Status = spb.AFTResult_UNSET
						}
					}
					return r
				}}
			},
		},
		// --- requirements behind the plain "this works" tests: each of them must be able to fail ---
		unsupportedKind("valid-additions-refused", names("Add IPv4 entry that can be programmed on the server - with RIB ACK",
			"Add IPv4 entries that are resolved to a next-hop-group containing multiple next-hops (multiple ModifyRequests) - with RIB ACK",
			"Add IPv4 entries that are resolved to a next-hop-group containing multiple next-hops (single ModifyRequest) - with RIB ACK",
			"Add-Delete-Add for IPv4Entry - RIB ACK"),
			func(o *spb.AFTOperation) bool { return o.GetOp() == spb.AFTOperation_ADD && opKind(o) == "v4" }),
		unsupportedKind("next-hop-groups-refused", names("Add next-hop-group entry that can be resolved on the server, no referencing IPv4 entries - with RIB ACK",
			"Delete NHG entry successfully - RIB ACK"),
			func(o *spb.AFTOperation) bool { return o.GetOp() == spb.AFTOperation_ADD && opKind(o) == "nhg" }),
		unsupportedKind("deletes-of-installed-entries-refused", names("Delete IPv4 entry within default network instance - RIB ACK",
			"Delete NH entry successfully - RIB ACK", "Delete NHG entry successfully - RIB ACK", "Add-Delete-Add for IPv4Entry - RIB ACK"),
			func(o *spb.AFTOperation) bool { return o.GetOp() == spb.AFTOperation_DELETE }),
		unsupportedKind("entry-metadata-refused", names("Add Metadata for IPv4 entry", "Add IPv6 entry with metadata"),
			func(o *spb.AFTOperation) bool {
				return o.GetIpv4().GetIpv4Entry().GetEntryMetadata() != nil || o.GetIpv6().GetIpv6Entry().GetEntryMetadata() != nil
			}),
		unsupportedKind("cross-instance-group-reference-refused", names("Add IPv4 Entry that references a NHG in a different network instance"),
			func(o *spb.AFTOperation) bool {
				n := o.GetIpv4().GetIpv4Entry().GetNextHopGroupNetworkInstance().GetValue()
				return n != "" && n != o.GetNetworkInstance()
			}),
		{
			Name:       "second-next-hop-with-identical-contents-refused",
			Designated: names("Add two NextHops with identical contents"),
			Fault: func() *faults.Fault {
				return &faults.Fault{Request: func(s *faults.Sess, req *spb.ModifyRequest) *spb.ModifyRequest {
					return filterOps(s, req, func(o *spb.AFTOperation) *spb.ModifyResponse {
						if o.GetOp() != spb.AFTOperation_ADD || opKind(o) != "nh" {
							return nil
						}
						st, err := obs.FromRIB(s.P.Inner.VerifRIB())
						if err != nil {
							return nil
						}
						for k, p := range st {
							if nh, ok := p.(*aftpb.Afts_NextHopKey); ok && k.Kind == "nh" && nh.GetIndex() != o.GetNextHop().GetIndex() &&
								proto.Equal(model.Canon(&aftpb.Afts_NextHopKey{Index: 1, NextHop: nh.GetNextHop()}), model.Canon(&aftpb.Afts_NextHopKey{Index: 1, NextHop: o.GetNextHop().GetNextHop()})) {
								return failResult(o.GetId(), "a next-hop with these contents exists")
							}
						}
						return nil
					})
				}}
			},
		},
		{
			Name:       "session-parameters-never-accepted",
			Designated: names("Modify RPC Connection with Election ID", "Election - Matching parameters for two clients in election"),
			Fault: func() *faults.Fault {
				return &faults.Fault{Request: func(s *faults.Sess, req *spb.ModifyRequest) *spb.ModifyRequest {
					if req.GetParams() != nil {
						s.Reject(status.Error(codes.Unimplemented, "session parameters are not supported"))
						return nil
					}
					return req
				}}
			},
		},
		{
			// the canonical code is right, the ModifyRPCErrorDetails reason is not
			Name: "session-error-reason-misreported",
			// (the two other tests that name a reason - election id in ALL_PRIMARY mode, differing
			// parameters - negotiate ALL_PRIMARY, which the reference server answers UNIMPLEMENTED: they
			// take the AllowUnimplemented branch and never reach a FAILED_PRECONDITION reason here)
			Designated: names("Modify RPC Connection with invalid persist/redundancy parameters",
				"Election - Ensure that a client with mismatched parameters is rejected"),
			Fault: func() *faults.Fault {
				return &faults.Fault{ModifyStatus: func(err error) error {
					st, ok := status.FromError(err)
					if !ok || st.Code() != codes.FailedPrecondition {
						return err
					}
					p := st.Proto()
					out := proto.Clone(p).(*gspb.Status)
					out.Details = nil
					changed := false
					for _, d := range p.GetDetails() {
						m := &spb.ModifyRPCErrorDetails{}
						if d.UnmarshalTo(m) == nil {
							if m.Reason == spb.ModifyRPCErrorDetails_MODIFY_NOT_ALLOWED {
								m.Reason = spb.ModifyRPCErrorDetails_UNSUPPORTED_PARAMS
							} else {
								m.Reason = spb.ModifyRPCErrorDetails_MODIFY_NOT_ALLOWED
							}
							if a, e := anypb.New(m); e == nil {
								out.Details = append(out.Details, a)
								changed = true
								continue
							}
						}
						out.Details = append(out.Details, d)
					}
					if !changed {
						return err
					}
					return status.FromProto(out).Err()
				}}
			},
		},
		{
			// ("Modify RPC connection" is not designated: its declared intent is that the server
			// sends nothing on a fresh stream, and it returns as soon as nothing is outstanding)
			Name:       "modify-rpc-unavailable",
			Designated: names("Modify RPC Connection with Election ID"),
			Fault: func() *faults.Fault {
				return &faults.Fault{ModifyErr: status.Error(codes.Unimplemented, "Modify is not implemented")}
			},
		},
		{
			Name:       "second-session-with-matching-parameters-refused",
			Designated: names("Election - Matching parameters for two clients in election"),
			Fault: func() *faults.Fault {
				return &faults.Fault{Request: func(s *faults.Sess, req *spb.ModifyRequest) *spb.ModifyRequest {
					if req.GetParams() != nil && s.P.LiveNegotiated(s) > 0 {
						s.Reject(status.Error(codes.FailedPrecondition, "another client is connected"))
						return nil
					}
					return req
				}}
			},
		},
		unsupportedKind("mpls-unsupported", func(t *compliance.TestSpec) bool { return t.In.RequiresMPLS }, func(o *spb.AFTOperation) bool { return opKind(o) == "mpls" }),
		unsupportedKind("ipv6-unsupported", func(t *compliance.TestSpec) bool { return t.In.RequiresIPv6 }, func(o *spb.AFTOperation) bool { return opKind(o) == "v6" }),
		unsupportedKind("nh-nhg-in-non-default-instance-refused", func(t *compliance.TestSpec) bool { return t.In.RequiresNonDefaultNINHG }, func(o *spb.AFTOperation) bool {
			return (opKind(o) == "nh" || opKind(o) == "nhg") && o.GetNetworkInstance() != "DEFAULT"
		}),
	}
}

func getDrop(name, kind string, tests ...string) catEntry {
	return catEntry{Name: name, Designated: names(tests...), Fault: func() *faults.Fault {
		return &faults.Fault{Get: func(p *faults.Proxy, req *spb.GetRequest, rs []*spb.GetResponse) []*spb.GetResponse {
			var out []*spb.GetResponse
			for _, r := range rs {
				nr := &spb.GetResponse{}
				for _, e := range r.GetEntry() {
					k, _, _ := obs.EntryKeyOf(e)
					if k.Kind != kind {
						nr.Entry = append(nr.Entry, e)
					}
				}
				if len(nr.Entry) > 0 {
					out = append(out, nr)
				}
			}
			return out
		}}
	}}
}

func unsupportedKind(name string, des func(*compliance.TestSpec) bool, match func(*spb.AFTOperation) bool) catEntry {
	return catEntry{Name: name, Designated: des, Fault: func() *faults.Fault {
		return &faults.Fault{Request: func(s *faults.Sess, req *spb.ModifyRequest) *spb.ModifyRequest {
			return filterOps(s, req, func(o *spb.AFTOperation) *spb.ModifyResponse {
				if match(o) {
					return failResult(o.GetId(), "unsupported")
				}
				return nil
			})
		}}
	}}
}

var _ = aftpb.Afts{}

// pairs lists every (fault, designated test) pair.
func pairs() [][2]string {
	var out [][2]string
	for _, e := range catalogue() {
		for _, t := range compliance.TestSuite {
			if e.Designated(t) {
				out = append(out, [2]string{e.Name, t.In.ShortName})
			}
		}
	}
	sort.Slice(out, func(i, j int) bool { return out[i][0]+out[i][1] < out[j][0]+out[j][1] })
	return out
}

func runFaulty(c Case) *ev.Verdict {
	v := &ev.Verdict{}
	var e *catEntry
	for _, x := range catalogue() {
		if x.Name == c.Fault {
			x := x
			e = &x
		}
	}
	tt := suiteIndex()[c.Test]
	if e == nil || tt == nil {
		v.Fail("C19/unknown-pair", "unknown fault %q or test %q", c.Fault, c.Test)
		return v
	}
	vrf := "NON-DEFAULT-VRF"
	fwd := !tt.In.RequiresDisallowedForwardReferences
	// 1. the faulty server: the designated test must fail
	compliance.SetElectionID(1)
	compliance.SetDefaultNetworkInstanceName("DEFAULT")
	compliance.SetNonDefaultVRFName(vrf)
	ffwd := fwd
	if e.FwdRefs != nil {
		ffwd = *e.FwdRefs
	}
	var f *faults.Fault
	if e.Fault != nil {
		f = e.Fault()
		f.Name = e.Name
	}
	attempts := e.Attempts
	if attempts < 3 {
		// a test that passes against the faulty server is run again (a loaded machine can hide
		// a fault that hinges on when two clients connect): "cannot detect" means never in three
		attempts = 3
	}
	var fo outcome
	for a := 0; a < attempts; a++ {
		if a > 0 {
			f = nil
			if e.Fault != nil {
				f = e.Fault()
			}
			compliance.SetElectionID(1)
		}
		fp := faults.New(f, []string{vrf}, ffwd)
		fo = runTest(tt, fp)
		fp.Stop()
		if fo.failed() || fo.timedOut {
			break
		}
	}
	if fo.timedOut {
		v.Inconclusive = fmt.Sprintf("test %q against fault %q did not return", c.Test, c.Fault)
		return v
	}
	// 2. the unwrapped reference server: the same test must pass
	compliance.SetElectionID(1)
	cp := faults.New(nil, []string{vrf}, fwd)
	co := runTest(tt, cp)
	cp.Stop()
	switch {
	case co.timedOut:
		v.Inconclusive = fmt.Sprintf("test %q against the reference server did not return", c.Test)
	case co.failed():
		v.Fail("C19/conformant-test-fails:"+c.Test, "test %q fails on the unwrapped reference server: fatal %s errors %s", c.Test, short(co.fatal), short(co.errs))
	case co.skipped && !fo.failed():
		v.Fail("C19/requirement-not-checked:"+c.Fault+"|"+c.Test+":test-always-skips", "test %q is registered for the requirement broken by %q but always skips", c.Test, c.Fault)
	case !fo.failed():
		v.Fail("C19/requirement-not-checked:"+c.Fault+"|"+c.Test, "test %q passes against a server with fault %q although it is the test written for that requirement", c.Test, c.Fault)
	}
	v.Class("fault:" + c.Fault)
	v.NonTrivial = true
	return v
}

func campaignFaulty(t *testing.T) {
	col := ev.C()
	ps := pairs()
	slow := map[string]bool{}
	quickOne := map[string]string{}
	for _, e := range catalogue() {
		if e.Slow {
			slow[e.Name] = true
			quickOne[e.Name] = e.QuickOne
		}
	}
	// pairs in which a client waits for the suite's hard-coded one-minute timeout (measured): thorough only
	slowPairs := map[string]bool{
		"nh-nhg-in-non-default-instance-refused|Flush all network instances":                    true,
		"nh-nhg-in-non-default-instance-refused|Flush to specific network instance is honoured": true,
	}
	sk, ns := ev.Shard()
	// every (fault, designated test) pair once; each pair gets fresh servers, so the order is immaterial
	cnt, bad := 0, 0
	// pairs known to take the suite's one-minute timeout are dealt to different shards first,
	// the others round-robin (the assignment only balances the load; every pair runs once)
	minute := map[string]bool{
		"second-next-hop-with-identical-contents-refused|Add two NextHops with identical contents": true,
		"next-hop-groups-refused|Delete NHG entry successfully - RIB ACK":                          true,
	}
	shardOf := map[int]int{}
	nm := 0
	skipped := func(p [2]string) bool {
		return !ev.Thorough() && ((slow[p[0]] && quickOne[p[0]] != p[1]) || slowPairs[p[0]+"|"+p[1]])
	}
	for i, p := range ps {
		if (minute[p[0]+"|"+p[1]] || slow[p[0]] || slowPairs[p[0]+"|"+p[1]]) && !skipped(p) {
			shardOf[i] = nm % ns
			nm++
		}
	}
	for i, p := range ps {
		sh, ok := shardOf[i]
		if !ok {
			sh = i % ns
		}
		if sh != sk || skipped(p) {
			continue
		}
		c := Case{Kind: "faulty", Fault: p[0], Test: p[1]}
		t0 := time.Now()
		v := runCase(c)
		if d := time.Since(t0); d > 5*time.Second {
			t.Logf("slow pair (%.0fs): %s | %s", d.Seconds(), p[0], p[1])
			fmt.Printf("SLOWPAIR %.0fs %s | %s\n", d.Seconds(), p[0], p[1])
		}
		cnt++
		if fresh := col.Record(ev.JSON(c), v); len(fresh) > 0 {
			bad++
			if bad <= 5 {
				t.Errorf("%s: %v", ev.JSON(c), fresh)
			}
		}
	}
	col.Scope("every (fault, designated test) pair of the catalogue", cnt, ev.Thorough())
}
