#!/bin/bash
# usage: tools/import_seed.sh <scratch worktree with the change applied> <seed id (dir name under seeded/)>
# Verifies a seeded change independently (demo fails with it, passes without it, existing suite
# green with it) and copies patch.diff + the demonstration into /verif/seeded/<id>/.
set -u
wt=$1; id=$2
export GOFLAGS=-mod=mod GOPROXY=off
cd "$wt" || exit 2
demo=$(git status --porcelain | grep '^??' | awk '{print $2}' | grep '_test.go$' | head -1)
[ -n "$demo" ] || { echo "no demo test file"; exit 2; }
pkg=./$(dirname "$demo")
git diff -- . ':!*_test.go' ':!patch.diff' > /tmp/seedrun.$$.diff
cmp -s /tmp/seedrun.$$.diff patch.diff || { echo "patch.diff differs from the working tree change; using the working tree"; cp /tmp/seedrun.$$.diff patch.diff; }
rm -f /tmp/seedrun.$$.diff
echo "--- demo $demo WITH change (expect FAIL)"
go test -count=1 -run '^TestSeedDemo$' $pkg 2>&1 | grep -v "^[IEW][0-9]" | tail -4
git apply -R patch.diff && echo "--- demo WITHOUT change (expect ok)" && go test -count=3 -run '^TestSeedDemo$' $pkg 2>&1 | grep -v "^[IEW][0-9]" | tail -2; git apply patch.diff
echo "--- existing tests WITH change (demo skipped)"
go test -count=1 -skip '^TestSeedDemo$' ./... 2>&1 | grep -v "^[IEW][0-9]\|no test files" | tail -14
mkdir -p /verif/seeded/$id
cp patch.diff /verif/seeded/$id/patch.diff
cp "$demo" /verif/seeded/$id/demo_test.go.txt
echo "$demo" > /verif/seeded/$id/.demo_location
