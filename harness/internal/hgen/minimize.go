package hgen

import "verifh/internal/gen"

// Minimize shrinks a failing history with delta debugging on its steps and
// then strips optional payload fields, keeping every change for which fails
// still reports true. It complements rapid's own shrinking, which works on the
// draw sequence and is weak on model-aimed histories.
func Minimize(h History, fails func(History) bool) History {
	cur := h
	// remove chunks of steps
	for chunk := len(cur.Steps) / 2; chunk >= 1; {
		removed := false
		for start := 0; start+chunk <= len(cur.Steps); {
			cand := History{FwdRefs: cur.FwdRefs}
			cand.Steps = append(cand.Steps, cur.Steps[:start]...)
			cand.Steps = append(cand.Steps, cur.Steps[start+chunk:]...)
			if len(cand.Steps) > 0 && fails(cand) {
				cur = cand
				removed = true
			} else {
				start += chunk
			}
		}
		if !removed || chunk > len(cur.Steps) {
			chunk /= 2
		}
		if chunk > len(cur.Steps) {
			chunk = len(cur.Steps)
		}
	}
	// simplify operations
	try := func(i int, f func(o *gen.Op)) {
		if cur.Steps[i].Op == nil {
			return
		}
		cand := History{FwdRefs: cur.FwdRefs, Steps: append([]Step(nil), cur.Steps...)}
		o := *cur.Steps[i].Op
		f(&o)
		cand.Steps[i] = Step{Op: &o}
		if ev := string(gen.OpJSON(&o)); ev == string(gen.OpJSON(cur.Steps[i].Op)) {
			return
		}
		if fails(cand) {
			cur = cand
		}
	}
	for i := range cur.Steps {
		if cur.Steps[i].Op == nil {
			continue
		}
		if cur.Steps[i].Op.Act == gen.DELETE {
			try(i, func(o *gen.Op) {
				*o = gen.Op{ID: o.ID, NI: o.NI, Kind: o.Kind, Act: o.Act, Key: o.Key, NoPayload: true, Elec: o.Elec}
			})
			continue
		}
		try(i, func(o *gen.Op) { o.Meta = nil })
		try(i, func(o *gen.Op) { o.Popped = nil })
		try(i, func(o *gen.Op) { o.Backup = nil })
		try(i, func(o *gen.Op) { o.Color = nil })
		try(i, func(o *gen.Op) {
			hs := append([]gen.Hop(nil), o.Hops...)
			for j := range hs {
				hs[j].Weight = nil
			}
			o.Hops = hs
		})
		try(i, func(o *gen.Op) {
			if len(o.Hops) > 1 {
				o.Hops = o.Hops[:1]
			}
		})
		try(i, func(o *gen.Op) {
			if o.Kind == gen.NH {
				*o = gen.Op{ID: o.ID, NI: o.NI, Kind: o.Kind, Act: o.Act, Key: o.Key, Elec: o.Elec}
			}
		})
		try(i, func(o *gen.Op) { o.Encaps = nil })
		try(i, func(o *gen.Op) { o.Pushed = nil })
		try(i, func(o *gen.Op) { o.IP, o.MAC, o.Intf, o.Subintf = "", "", "", nil })
		try(i, func(o *gen.Op) { o.IPinIPSrc, o.IPinIPDst, o.EncapH, o.Decap, o.NHNI = "", "", 0, 0, "" })
		try(i, func(o *gen.Op) {
			if o.GroupNI == o.NI {
				o.GroupNI = ""
			}
		})
	}
	if cur.FwdRefs {
		cand := cur
		cand.FwdRefs = false
		_ = cand
	}
	return cur
}
